"""Apply every seeded change under /verif/seeded/<id>/patch.diff to /repo (one at a time, undone straight afterwards),
run all quick checks and record which ones report it.  Writes seeded/RESULTS.md and `caught_by` in each meta.json."""
import json, pathlib, subprocess, sys
V = pathlib.Path("/verif")
man = json.loads((V / "MANIFEST.json").read_text())
props = [c["property_id"] for c in man["checks"]]
if subprocess.run(["git", "-C", "/repo", "diff", "--quiet"]).returncode != 0:
    sys.exit("/repo has uncommitted changes")
rows = []
ONLY = set(sys.argv[1:])  # optional: ids to (re)run ("NEW" = those without a recorded verdict); the table is rewritten from all meta files
for d in sorted((V / "seeded").iterdir()):
    if not (d / "patch.diff").exists():
        continue
    meta = json.loads((d / "meta.json").read_text()) if (d / "meta.json").exists() else {}
    if ONLY and d.name not in ONLY and not ("NEW" in ONLY and not meta.get("caught_by") and not meta.get("no_verdict")):
        rows.append((d.name, meta.get("property", "?"), ", ".join(c["check"] for c in meta.get("caught_by", [])) or "MISSED", meta.get("no_verdict", [])))
        continue
    ap = subprocess.run(["git", "-C", "/repo", "apply", str(d / "patch.diff")], capture_output=True, text=True)
    if ap.returncode != 0:
        rows.append((d.name, meta.get("property", "?"), "PATCH DOES NOT APPLY", []))
        continue
    caught, noverdict = [], []
    try:
        for p in props:
            r = subprocess.run(["/venv/bin/python", "-m", "sa.check", p], cwd=V, capture_output=True, text=True, env={**__import__("os").environ, "SA_EVIDENCE_DIR": "/tmp/sa_campaign_evidence"})
            if r.returncode == 1:
                lines = r.stdout.splitlines()
                msg = next((lines[i + 1].strip() for i, l in enumerate(lines) if l.startswith("VIOLATION") and i + 1 < len(lines)), "")
                caught.append({"check": p, "first_report": msg[:400]})
            elif r.returncode == 2:
                noverdict.append(p)
    finally:
        subprocess.run(["git", "-C", "/repo", "checkout", "--", "."])
    meta["caught_by"] = caught
    meta["no_verdict"] = noverdict
    (d / "meta.json").write_text(json.dumps(meta, indent=1) + "\n")
    rows.append((d.name, meta.get("property", "?"), ", ".join(c["check"] for c in caught) or "MISSED", noverdict))
__import__("shutil").rmtree("/tmp/sa_campaign_evidence", ignore_errors=True)
out = ["# Seeded changes and the checks that report them", "",
       "Produced by independent sub-agents (given only the property text and a scratch worktree), confirmed in a scratch worktree",
       "(demo passes without / fails with the change; pinned suite unchanged), then applied to /repo one at a time by `tools/seeded_report.py`.", "",
       "| seeded change | property | reported by (exit 1) | no verdict (exit 2) |", "|---|---|---|---|"]
for name, prop, c, nv in rows:
    out.append(f"| {name} | {prop} | {c} | {', '.join(nv)} |")
(V / "seeded" / "RESULTS.md").write_text("\n".join(out) + "\n")
print("\n".join(out))
