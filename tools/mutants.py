"""Mechanical mutation campaign against the checks (an evaluation of the checker, not a registered check).

    tools/mutants.py gen      enumerate one-edit syntactic mutants of /repo/xgcm/*.py  -> mutation/mutants.jsonl
    tools/mutants.py check    run all 20 quick checks on every mutant, in memory       -> mutation/checked.jsonl
    tools/mutants.py tests N  run the pinned suite (-x) on a seeded sample of N mutants no check reports,
                              in scratch worktrees under /tmp (removed afterwards)       -> mutation/tested.jsonl
    tools/mutants.py report   mutation/RESULTS.md

The mutants are computed from the syntax tree (node positions), so they always parse; nothing is written to /repo.
"""
from __future__ import annotations

import ast
import hashlib
import importlib
import json
import os
import pathlib
import random
import subprocess
import sys
from concurrent.futures import ProcessPoolExecutor

VERIF = pathlib.Path(__file__).resolve().parent.parent
sys.path.insert(0, str(VERIF))
REPO = pathlib.Path("/repo")
OUT = VERIF / "mutation"
SNAP = pathlib.Path("/tmp/mut_snapshot")  # the committed sources of /repo (HEAD), immune to patches being tried in the working tree
FILES = ["xgcm/axis.py", "xgcm/comodo.py", "xgcm/grid.py", "xgcm/grid_ufunc.py", "xgcm/gridops.py", "xgcm/metadata_parsers.py",
         "xgcm/metrics.py", "xgcm/padding.py", "xgcm/sgrid.py", "xgcm/transform.py"]
PROPS = [f"C{i:02d}" for i in range(1, 21)]
SET = os.environ.get("MUT_SET", "")  # "" = first operator set; "2" = second set (wrong variable, break/continue, None test vs truthiness, pair swap, comparison direction)

CMP = {ast.Eq: "!=", ast.NotEq: "==", ast.Lt: "<=", ast.LtE: "<", ast.Gt: ">=", ast.GtE: ">", ast.In: "not in", ast.NotIn: "in", ast.Is: "is not", ast.IsNot: "is"}
BIN = {ast.Add: "-", ast.Sub: "+", ast.Mult: "/", ast.Div: "*", ast.FloorDiv: "*"}
WORDS = {"left": "right", "right": "left", "inner": "outer", "outer": "inner", "center": "left", "fill": "extend", "extend": "fill",
         "periodic": "fill", "low": "high", "high": "low", "both": "none", "none": "both", "constant": "edge", "edge": "wrap", "wrap": "edge"}


class Src:
    def __init__(self, text):
        self.text = text
        self.lines = text.split("\n")
        self.off = [0]
        for ln in self.lines:
            self.off.append(self.off[-1] + len(ln.encode()) + 1)
        self.bytes = text.encode()

    def pos(self, lineno, col):  # byte offset
        return self.off[lineno - 1] + col

    def span(self, node):
        return self.pos(node.lineno, node.col_offset), self.pos(node.end_lineno, node.end_col_offset)

    def seg(self, a, b):
        return self.bytes[a:b].decode()


def snapshot():
    """Materialise HEAD's xgcm/*.py under SNAP (scratch, outside /repo and /verif)."""
    head = subprocess.run(["git", "-C", str(REPO), "rev-parse", "HEAD"], capture_output=True, text=True, check=True).stdout.strip()
    mark = SNAP / "HEAD"
    if mark.exists() and mark.read_text() == head:
        return head
    (SNAP / "xgcm").mkdir(parents=True, exist_ok=True)
    names = subprocess.run(["git", "-C", str(REPO), "ls-tree", "--name-only", "HEAD", "xgcm/"], capture_output=True, text=True, check=True).stdout.split()
    for n in names:
        if n.endswith(".py") and n.count("/") == 1:
            (SNAP / n).write_text(subprocess.run(["git", "-C", str(REPO), "show", f"HEAD:{n}"], capture_output=True, text=True, check=True).stdout)
    mark.write_text(head)
    return head


def enumerate_mutants(relpath):
    text = (SNAP / relpath).read_text()
    S = Src(text)
    tree = ast.parse(text)
    out = []
    doc_nodes = set()
    ann_nodes = set()
    for n in ast.walk(tree):
        if isinstance(n, (ast.FunctionDef, ast.ClassDef, ast.Module, ast.AsyncFunctionDef)):
            if n.body and isinstance(n.body[0], ast.Expr) and isinstance(n.body[0].value, ast.Constant) and isinstance(n.body[0].value.value, str):
                doc_nodes.add(id(n.body[0]))
                doc_nodes.add(id(n.body[0].value))
        if isinstance(n, (ast.FunctionDef, ast.AsyncFunctionDef)):
            for a in n.args.args + n.args.kwonlyargs + n.args.posonlyargs + [x for x in (n.args.vararg, n.args.kwarg) if x]:
                if a.annotation is not None:
                    for m in ast.walk(a.annotation):
                        ann_nodes.add(id(m))
            if n.returns is not None:
                for m in ast.walk(n.returns):
                    ann_nodes.add(id(m))
        if isinstance(n, ast.AnnAssign):
            for m in ast.walk(n.annotation):
                ann_nodes.add(id(m))
    # enclosing function names
    func_of = {}

    def mark(node, name):
        for ch in ast.iter_child_nodes(node):
            nm = name
            if isinstance(ch, (ast.FunctionDef, ast.AsyncFunctionDef, ast.ClassDef)):
                nm = (name + "." if name else "") + ch.name
            func_of[id(ch)] = nm
            mark(ch, nm)

    mark(tree, "")
    # messages of raise / warn statements are not behaviour any property speaks about
    msg_nodes = set()
    for n in ast.walk(tree):
        if isinstance(n, ast.Raise) and n.exc is not None:
            for m in ast.walk(n.exc):
                if isinstance(m, (ast.Constant, ast.JoinedStr, ast.BinOp)):
                    msg_nodes.add(id(m))
        if isinstance(n, ast.Call) and isinstance(n.func, ast.Attribute) and n.func.attr == "warn":
            for m in ast.walk(n):
                msg_nodes.add(id(m))

    def add(op, a, b, new, node):
        old = S.seg(a, b)
        if old == new:
            return
        out.append({"file": relpath, "op": op, "a": a, "b": b, "old": old, "new": new, "line": node.lineno, "function": func_of.get(id(node), "")})

    for n in ast.walk(tree):
        if id(n) in doc_nodes or id(n) in ann_nodes or id(n) in msg_nodes:
            continue
        if isinstance(n, ast.Compare) and len(n.ops) == 1 and type(n.ops[0]) in CMP:
            a = S.span(n.left)[1]
            b = S.span(n.comparators[0])[0]
            add("cmp", a, b, " " + CMP[type(n.ops[0])] + " ", n)
        elif isinstance(n, ast.BoolOp) and len(n.values) == 2:
            a = S.span(n.values[0])[1]
            b = S.span(n.values[1])[0]
            gap = S.seg(a, b)
            if "(" not in gap and ")" not in gap:
                add("bool", a, b, " or " if isinstance(n.op, ast.And) else " and ", n)
        elif isinstance(n, (ast.If, ast.While, ast.IfExp)):
            a, b = S.span(n.test)
            add("negate", a, b, "not (" + S.seg(a, b) + ")", n)
        elif isinstance(n, ast.comprehension):
            for t in n.ifs:
                a, b = S.span(t)
                add("negate", a, b, "not (" + S.seg(a, b) + ")", t)
        elif isinstance(n, ast.UnaryOp) and isinstance(n.op, ast.USub) and isinstance(n.operand, ast.Constant) and isinstance(n.operand.value, int) and not isinstance(n.operand.value, bool):
            a, b = S.span(n)
            v = -n.operand.value
            add("int", a, b, str(v + 1), n)
            add("int", a, b, str(v - 1), n)
            for m in ast.walk(n.operand):
                ann_nodes.add(id(m))  # do not mutate the operand again
        elif isinstance(n, ast.Constant) and isinstance(n.value, bool):
            a, b = S.span(n)
            add("boolconst", a, b, "False" if n.value else "True", n)
        elif isinstance(n, ast.Constant) and isinstance(n.value, int) and abs(n.value) <= 3:
            a, b = S.span(n)
            add("int", a, b, str(n.value + 1), n)
            if n.value - 1 >= 0:
                add("int", a, b, str(n.value - 1), n)
        elif isinstance(n, ast.Constant) and isinstance(n.value, float) and n.value in (0.5, -0.5):
            a, b = S.span(n)
            add("float", a, b, "0.25", n)
        elif isinstance(n, ast.Constant) and isinstance(n.value, str) and n.value in WORDS:
            a, b = S.span(n)
            q = S.seg(a, b)[0]
            add("word", a, b, q + WORDS[n.value] + q, n)
        elif isinstance(n, ast.BinOp) and type(n.op) in BIN:
            if any(isinstance(x, ast.Constant) and isinstance(x.value, str) for x in (n.left, n.right)) or any(isinstance(x, ast.JoinedStr) for x in (n.left, n.right)):
                continue
            a = S.span(n.left)[1]
            b = S.span(n.right)[0]
            gap = S.seg(a, b)
            if "(" not in gap and ")" not in gap:
                add("binop", a, b, " " + BIN[type(n.op)] + " ", n)
        elif isinstance(n, ast.AugAssign):
            a = S.span(n.target)[1]
            b = S.span(n.value)[0]
            add("augassign", a, b, " = ", n)
        elif isinstance(n, ast.Call):
            pos = [x for x in n.args]
            if len(pos) >= 2 and not any(isinstance(x, ast.Starred) for x in pos[:2]):
                a0, b0 = S.span(pos[0])
                a1, b1 = S.span(pos[1])
                if S.seg(a0, b0) != S.seg(a1, b1):
                    add("argswap", a0, b1, S.seg(a1, b1) + S.seg(b0, a1) + S.seg(a0, b0), n)
            for k in n.keywords:
                if k.arg is None:
                    continue
                a = S.pos(k.lineno, k.col_offset)
                b = S.span(k.value)[1]
                # swallow the following comma (and blanks) if any, else the preceding one
                rest = S.bytes[b:]
                j = 0
                while j < len(rest) and rest[j:j + 1] in (b" ", b"\n", b"\t"):
                    j += 1
                if rest[j:j + 1] == b",":
                    j += 1
                    while j < len(rest) and rest[j:j + 1] in (b" ",):
                        j += 1
                    add("kwdrop", a, b + j, "", k.value)
                else:
                    i = a
                    while i > 0 and S.bytes[i - 1:i] in (b" ", b"\n", b"\t"):
                        i -= 1
                    if S.bytes[i - 1:i] == b",":
                        add("kwdrop", i - 1, b, "", k.value)
        elif isinstance(n, ast.Expr) and isinstance(n.value, ast.Call):
            a, b = S.span(n)
            add("delstmt", a, b, "pass", n)
        elif isinstance(n, (ast.Continue, ast.Break)):
            a, b = S.span(n)
            add("delstmt", a, b, "pass", n)
        elif isinstance(n, ast.Raise):
            a, b = S.span(n)
            add("delraise", a, b, "pass", n)
        elif isinstance(n, ast.Subscript) and isinstance(n.slice, ast.Slice):
            sl = n.slice
            if sl.lower is None and sl.upper is not None and sl.step is None:
                a, b = S.span(sl.upper)
                # x[:u] -> x[u:]
                sa = S.pos(n.value.end_lineno, n.value.end_col_offset)
                sb = S.pos(n.end_lineno, n.end_col_offset)
                add("slice", sa, sb, "[" + S.seg(a, b) + ":]", n)
            elif sl.upper is None and sl.lower is not None and sl.step is None:
                a, b = S.span(sl.lower)
                sa = S.pos(n.value.end_lineno, n.value.end_col_offset)
                sb = S.pos(n.end_lineno, n.end_col_offset)
                add("slice", sa, sb, "[:" + S.seg(a, b) + "]", n)
    res = []
    seen = set()
    for m in out:
        new_bytes = S.bytes[:m["a"]] + m["new"].encode() + S.bytes[m["b"]:]
        try:
            new_text = new_bytes.decode()
            ast.parse(new_text)
        except (SyntaxError, UnicodeDecodeError):
            continue
        key = (m["a"], m["b"], m["new"])
        if key in seen:
            continue
        seen.add(key)
        m["id"] = hashlib.sha1(f"{relpath}|{m['a']}|{m['b']}|{m['new']}".encode()).hexdigest()[:10]
        res.append(m)
    return res


CMP2 = {ast.Lt: ">", ast.Gt: "<", ast.LtE: ">=", ast.GtE: "<="}


def enumerate_mutants2(relpath):
    """Second operator set: the slips a one-token operator mutation does not produce.
    wrongvar   a plain name handed to a call (positional or keyword) replaced by another parameter / local of the same function
               that is also handed to some call there (at most three candidates per site, nearest first)
    brkcont    break <-> continue
    nonetest   `x is None` -> `not x`, `x is not None` -> `x` (truthiness instead of identity)
    pairswap   the two elements of a two-element tuple / list display swapped
    cmpdir     < <-> >, <= <-> >=
    keyswap    the index of a subscript that is a plain name replaced by another name used as an index in the function
    """
    text = (SNAP / relpath).read_text()
    S = Src(text)
    tree = ast.parse(text)
    out = []

    def add(op, a, b, new, node, fn):
        old = S.seg(a, b)
        if old != new:
            out.append({"file": relpath, "op": op, "a": a, "b": b, "old": old, "new": new, "line": node.lineno, "function": fn})

    def funcs(node, name):
        for ch in ast.iter_child_nodes(node):
            if isinstance(ch, (ast.FunctionDef, ast.AsyncFunctionDef)):
                yield ch, (name + "." if name else "") + ch.name
                yield from funcs(ch, (name + "." if name else "") + ch.name)
            elif isinstance(ch, ast.ClassDef):
                yield from funcs(ch, (name + "." if name else "") + ch.name)
            else:
                yield from funcs(ch, name)

    def own_nodes(fn):
        """Nodes of fn's body that are not inside a nested def / class."""
        stack = list(fn.body)
        while stack:
            n = stack.pop()
            yield n
            for ch in ast.iter_child_nodes(n):
                if not isinstance(ch, (ast.FunctionDef, ast.AsyncFunctionDef, ast.ClassDef, ast.Lambda)):
                    stack.append(ch)

    for fn, qual in funcs(tree, ""):
        if qual.endswith("__repr__") or qual.startswith("raw_"):
            continue
        body = list(own_nodes(fn))
        msg = set()
        for n in body:
            if isinstance(n, ast.Raise) and n.exc is not None:
                msg.update(id(m) for m in ast.walk(n.exc))
            if isinstance(n, ast.Call) and isinstance(n.func, ast.Attribute) and n.func.attr == "warn":
                msg.update(id(m) for m in ast.walk(n))
        params = [a.arg for a in fn.args.posonlyargs + fn.args.args + fn.args.kwonlyargs if a.arg not in ("self", "cls")]
        bound = set(params)
        for n in body:
            if isinstance(n, ast.Name) and isinstance(n.ctx, ast.Store):
                bound.add(n.id)
        argsites = []  # (Name node) handed to a call
        for n in body:
            if isinstance(n, ast.Call) and id(n) not in msg:
                for x in list(n.args) + [k.value for k in n.keywords if k.arg is not None]:
                    if isinstance(x, ast.Name) and x.id in bound:
                        argsites.append(x)
        pool = []
        for x in sorted(argsites, key=lambda x: (x.lineno, x.col_offset)):
            if x.id not in pool:
                pool.append(x.id)
        for x in argsites:
            i = pool.index(x.id)
            cands = [pool[j] for d in (1, -1, 2, -2) for j in [i + d] if 0 <= j < len(pool)][:2]
            a, b = S.span(x)
            for c in cands:
                add("wrongvar", a, b, c, x, qual)
        idxsites = [n.slice for n in body if isinstance(n, ast.Subscript) and isinstance(n.slice, ast.Name) and n.slice.id in bound and id(n) not in msg]
        ipool = []
        for x in sorted(idxsites, key=lambda x: (x.lineno, x.col_offset)):
            if x.id not in ipool:
                ipool.append(x.id)
        for x in idxsites:
            i = ipool.index(x.id)
            a, b = S.span(x)
            for c in [ipool[j] for d in (1, -1) for j in [i + d] if 0 <= j < len(ipool)]:
                add("keyswap", a, b, c, x, qual)
        for n in body:
            if id(n) in msg:
                continue
            if isinstance(n, ast.Break):
                add("brkcont", *S.span(n), "continue", n, qual)
            elif isinstance(n, ast.Continue):
                add("brkcont", *S.span(n), "break", n, qual)
            elif isinstance(n, ast.Compare) and len(n.ops) == 1 and isinstance(n.comparators[0], ast.Constant) and n.comparators[0].value is None:
                a, b = S.span(n)
                l = S.seg(*S.span(n.left))
                if isinstance(n.ops[0], ast.Is):
                    add("nonetest", a, b, "(not " + l + ")", n, qual)
                elif isinstance(n.ops[0], ast.IsNot):
                    add("nonetest", a, b, "bool(" + l + ")", n, qual)
            elif isinstance(n, ast.Compare) and len(n.ops) == 1 and type(n.ops[0]) in CMP2:
                a = S.span(n.left)[1]
                b = S.span(n.comparators[0])[0]
                add("cmpdir", a, b, " " + CMP2[type(n.ops[0])] + " ", n, qual)
            elif isinstance(n, (ast.Tuple, ast.List)) and isinstance(n.ctx, ast.Load) and len(n.elts) == 2 and not any(isinstance(e, ast.Starred) for e in n.elts):
                a0, b0 = S.span(n.elts[0])
                a1, b1 = S.span(n.elts[1])
                if S.seg(a0, b0) != S.seg(a1, b1):
                    add("pairswap", a0, b1, S.seg(a1, b1) + S.seg(b0, a1) + S.seg(a0, b0), n, qual)
    res, seen = [], set()
    for m in out:
        nb = S.bytes[:m["a"]] + m["new"].encode() + S.bytes[m["b"]:]
        try:
            ast.parse(nb.decode())
        except (SyntaxError, UnicodeDecodeError):
            continue
        key = (m["a"], m["b"], m["new"])
        if key in seen:
            continue
        seen.add(key)
        m["id"] = hashlib.sha1(f"{relpath}|{m['a']}|{m['b']}|{m['new']}".encode()).hexdigest()[:10]
        res.append(m)
    return res


def mutant_source(m):
    b = (SNAP / m["file"]).read_bytes()
    assert b[m["a"]:m["b"]].decode() == m["old"], "tree changed since `gen`"
    return (b[:m["a"]] + m["new"].encode() + b[m["b"]:]).decode()


_BASE = {}


def _baseline():
    if not _BASE:
        from sa import report
        from sa.core import Project

        P = Project(root=SNAP)
        for pid in PROPS:
            mod = importlib.import_module(f"sa.props.{pid.lower()}")
            ctx = report.Ctx(pid, P, False)
            mod.check(ctx)
            _BASE[pid] = ({f.key for f in ctx.findings}, {u["rule"] + ":" + u["instance"] for u in ctx.inconclusive})
    return _BASE


def _check_one(m):
    from sa import report
    from sa.core import AnalysisError, Project

    base = _baseline()
    res = {"id": m["id"], "caught": {}, "noverdict": {}}
    try:
        P = Project(overrides={m["file"]: mutant_source(m)}, root=SNAP)
    except Exception as e:
        res["noverdict"]["*"] = f"{type(e).__name__}: {e}"
        return res
    for pid in PROPS:
        mod = importlib.import_module(f"sa.props.{pid.lower()}")
        ctx = report.Ctx(pid, P, False)
        try:
            mod.check(ctx)
        except AnalysisError as e:
            res["noverdict"][pid] = str(e)[:200]
            continue
        except Exception as e:
            res["noverdict"][pid] = f"internal {type(e).__name__}: {e}"[:200]
            continue
        new = [f for f in ctx.findings if f.key not in base[pid][0]]
        inc = [u for u in ctx.inconclusive if u["rule"] + ":" + u["instance"] not in base[pid][1]]
        if new:
            res["caught"][pid] = sorted({f.rule for f in new})
        elif inc:
            res["noverdict"][pid] = (inc[0]["rule"] + ": " + inc[0]["reason"])[:200]
    return res


def cmd_gen():
    OUT.mkdir(exist_ok=True)
    snapshot()
    allm = []
    for f in FILES:
        ms = enumerate_mutants2(f) if SET == "2" else enumerate_mutants(f)
        allm.extend(ms)
        print(f, len(ms))
    head = subprocess.run(["git", "-C", str(REPO), "rev-parse", "HEAD"], capture_output=True, text=True).stdout.strip()
    with open(OUT / _fn("mutants.jsonl"), "w") as fh:
        for m in allm:
            m["repo_head"] = head
            fh.write(json.dumps(m) + "\n")
    print("total", len(allm))


def _fn(name):
    return name.replace(".jsonl", SET + ".jsonl").replace("RESULTS.md", f"RESULTS{SET}.md").replace("triage.json", f"triage{SET}.json")


def load(name):
    p = OUT / _fn(name)
    return [json.loads(l) for l in p.read_text().splitlines()] if p.exists() else []


def cmd_check():
    ms = load("mutants.jsonl")
    head = snapshot()
    assert not ms or ms[0]["repo_head"] == head, "mutants.jsonl was generated for another commit: run `gen` again"
    done = {r["id"] for r in load("checked.jsonl")}
    todo = [m for m in ms if m["id"] not in done]
    if SET:
        random.Random(20260930).shuffle(todo)  # partial runs are then a fair sample
    print("to check:", len(todo))
    jobs = int(os.environ.get("SA_JOBS", "12"))
    with ProcessPoolExecutor(max_workers=jobs) as ex, open(OUT / _fn("checked.jsonl"), "a") as fh:
        for i, r in enumerate(ex.map(_check_one, todo, chunksize=4)):
            fh.write(json.dumps(r) + "\n")
            fh.flush()
            if i % 100 == 0:
                print(i, flush=True)


def cmd_tests(n):
    ms = {m["id"]: m for m in load("mutants.jsonl")}
    ck = {r["id"]: r for r in load("checked.jsonl")}
    done = {r["id"] for r in load("tested.jsonl")}
    def out_of_scope(m):
        """Not behaviour any property speaks about: textual representations, warnings, legacy helpers nobody calls."""
        f = m["function"]
        return (f.endswith("__repr__") or f.endswith("_coord_desc") or f.startswith("raw_") or f == "_maybe_get_axis_kwarg_from_mapping" or f == ""
                or (m["op"] == "delstmt" and "warn" in m["old"]) or "TYPE_CHECKING" in m["old"])

    cand = sorted(i for i, r in ck.items() if not r["caught"] and i in ms and ms[i]["file"] != "xgcm/transform.py" and not out_of_scope(ms[i]))
    random.Random(20260929).shuffle(cand)
    todo = [i for i in cand[:n] if i not in done]
    print("to test:", len(todo), "of", len(cand), "uncaught (transform.py excluded: its tests need numba)")
    snapshot()
    wt = "/tmp/wt_mut"
    subprocess.run(["git", "-C", str(REPO), "worktree", "remove", "--force", wt], capture_output=True)
    subprocess.run(["git", "-C", str(REPO), "worktree", "add", "--detach", wt, "HEAD"], check=True, capture_output=True)
    try:
        with open(OUT / _fn("tested.jsonl"), "a") as fh:
            for i in todo:
                m = ms[i]
                (pathlib.Path(wt) / m["file"]).write_text(mutant_source(m))
                p = subprocess.run(["/venv/bin/python", "-m", "pytest", "-q", "-x", "-p", "no:cacheprovider", "-n", os.environ.get("MUT_N", "8"), "xgcm"], cwd=wt, capture_output=True, text=True)
                tail = p.stdout.strip().splitlines()[-1] if p.stdout.strip() else ""
                subprocess.run(["git", "-C", wt, "checkout", "-q", "--", "."])
                fh.write(json.dumps({"id": i, "rc": p.returncode, "tail": tail}) + "\n")
                fh.flush()
                print(i, p.returncode, tail, flush=True)
    finally:
        subprocess.run(["git", "-C", str(REPO), "worktree", "remove", "--force", wt], capture_output=True)


def cmd_report():
    ms = load("mutants.jsonl")
    ck = {r["id"]: r for r in load("checked.jsonl")}
    ts = {r["id"]: r for r in load("tested.jsonl")}
    tri = json.loads((OUT / _fn("triage.json")).read_text()) if (OUT / _fn("triage.json")).exists() else {}
    lines = ["# Mechanical mutation campaign", "", f"Mutants of `/repo` at `{ms[0]['repo_head'][:7] if ms else '?'}`: {len(ms)}; checked: {len(ck)}.", ""]
    by_file = {}
    for m in ms:
        r = ck.get(m["id"])
        if not r:
            continue
        d = by_file.setdefault(m["file"], {"n": 0, "caught": 0, "nov": 0})
        d["n"] += 1
        if r["caught"]:
            d["caught"] += 1
        elif r["noverdict"]:
            d["nov"] += 1
    lines += ["| file | mutants | reported by a check (exit 1) | no verdict only (exit 2) | silent |", "|---|---|---|---|---|"]
    for f, d in sorted(by_file.items()):
        lines.append(f"| {f} | {d['n']} | {d['caught']} | {d['nov']} | {d['n'] - d['caught'] - d['nov']} |")
    tot = {k: sum(d[k] for d in by_file.values()) for k in ("n", "caught", "nov")}
    lines.append(f"| total | {tot['n']} | {tot['caught']} | {tot['nov']} | {tot['n'] - tot['caught'] - tot['nov']} |")
    by_op = {}
    for m in ms:
        r = ck.get(m["id"])
        if r:
            d = by_op.setdefault(m["op"], [0, 0])
            d[0] += 1
            d[1] += 1 if r["caught"] else 0
    lines += ["", "| operator | mutants | reported |", "|---|---|---|"] + [f"| {o} | {a} | {b} |" for o, (a, b) in sorted(by_op.items())]
    if ts:
        surv = [i for i, r in ts.items() if r["rc"] == 0]
        lines += ["", f"Pinned suite (`-x`) on a seeded sample of {len(ts)} mutants no check reports: {len(ts) - len(surv)} fail the suite, {len(surv)} pass it.", "",
                  "| mutant | where | edit | checks without verdict | triage |", "|---|---|---|---|---|"]
        mm = {m["id"]: m for m in ms}
        for i in sorted(surv, key=lambda i: (mm[i]["file"], mm[i]["line"])):
            m = mm[i]
            nov = ",".join(sorted(ck[i]["noverdict"])) or "-"
            old = m["old"].replace("\n", " ").replace("|", "\\|")[:60]
            new = m["new"].replace("\n", " ").replace("|", "\\|")[:60]
            lines.append(f"| {i} | {m['file']}:{m['line']} `{m['function']}` | {m['op']}: `{old}` -> `{new}` | {nov} | {tri.get(i, '')} |")
    # transform.py: its tests are skipped where numba is missing, so the suite cannot sort these; triaged by reading
    mm = {m["id"]: m for m in ms}
    rest = [i for i, r in ck.items() if not r["caught"] and i in mm and mm[i]["file"] == "xgcm/transform.py"]
    if rest:
        lines += ["", f"`xgcm/transform.py`: {len(rest)} mutants no check reports (the pinned suite skips the transform tests without numba; triaged by reading):", "",
                  "| mutant | where | edit | checks without verdict | triage |", "|---|---|---|---|---|"]
        for i in sorted(rest, key=lambda i: mm[i]["line"]):
            m = mm[i]
            nov = ",".join(sorted(ck[i]["noverdict"])) or "-"
            old = m["old"].replace("\n", " ").replace("|", "\\|")[:60]
            new = m["new"].replace("\n", " ").replace("|", "\\|")[:60]
            lines.append(f"| {i} | {m['file']}:{m['line']} `{m['function']}` | {m['op']}: `{old}` -> `{new}` | {nov} | {tri.get(i, '')} |")
    nov_only = [i for i, r in ck.items() if not r["caught"] and r["noverdict"] and i in mm and mm[i]["file"] != "xgcm/transform.py"]
    if nov_only:
        lines += ["", f"No verdict only ({len(nov_only)} outside transform.py): almost all are swapped arguments after which the analysed program itself would fail with a type error at a point the evaluator does not model (iterating a DataArray, a Grid used as an array ...); the checks say so (exit 2) instead of guessing.", ""]
        for i in sorted(nov_only, key=lambda i: (mm[i]["file"], mm[i]["line"])):
            m = mm[i]
            k = sorted(ck[i]["noverdict"].items())[0]
            lines.append(f"* {i} {m['file']}:{m['line']} `{m['function']}` {m['op']}: `{m['old'][:40].replace(chr(10), ' ')}` -> `{m['new'][:40].replace(chr(10), ' ')}` - {k[1][:140]}")
    (OUT / _fn("RESULTS.md")).write_text("\n".join(lines) + "\n")
    print("\n".join(lines[:40]))


if __name__ == "__main__":
    c = sys.argv[1]
    if c == "gen":
        cmd_gen()
    elif c == "check":
        cmd_check()
    elif c == "tests":
        cmd_tests(int(sys.argv[2]))
    elif c == "report":
        cmd_report()
