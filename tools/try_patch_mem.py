"""Run all 20 quick checks on /repo's current tree with a unified diff applied IN MEMORY (nothing on disk is touched):
    /venv/bin/python tools/try_patch_mem.py <patch.diff> [C01 C02 ...]
Prints, per check that reacts, its first findings / inconclusive instances.  A campaign helper, not a registered check."""
import os, sys
from concurrent.futures import ProcessPoolExecutor

sys.path.insert(0, "/verif")
os.environ.setdefault("SA_EVIDENCE_DIR", "/tmp/sa_campaign_evidence")
from sa import selftest  # noqa: E402


def one(a):
    pid, patch = a
    vid, status, inc, findings = selftest._run_variant((pid, selftest.PV("try", patch, "*", "")))
    return pid, status, inc, findings


def base(pid):
    import importlib
    from sa import report
    from sa.core import Project

    ctx = report.Ctx(pid, Project(), False)
    importlib.import_module(f"sa.props.{pid.lower()}").check(ctx)
    return pid, {f.key for f in ctx.findings}


if __name__ == "__main__":
    import subprocess

    if subprocess.run(["git", "-C", "/repo", "diff", "--quiet"]).returncode != 0:
        sys.exit("/repo has uncommitted changes (another campaign tool is applying a patch): results would be about that tree")
    patch = os.path.abspath(sys.argv[1])
    pids = sys.argv[2:] or [f"C{i:02d}" for i in range(1, 21)]
    with ProcessPoolExecutor(max_workers=int(os.environ.get("SA_JOBS", "8"))) as ex:
        known = dict(ex.map(base, pids))
        for pid, status, inc, findings in ex.map(one, [(p, patch) for p in pids]):
            new = [f for f in findings if f[1] not in known[pid]] if isinstance(findings, list) else []
            if status != "ran":
                print(f"== {pid} {status}: {inc}")
            elif new:
                print(f"== {pid} exit=1")
                for rule, key, msg in new[:3]:
                    print(f"  {key} - {msg[:300]}")
            elif inc:
                print(f"== {pid} exit=2")
                for u in inc[:3]:
                    print(f"  {u[:300]}")
