"""Regenerate MANIFEST.json from the property modules that exist under sa/props."""
import importlib, json, pathlib, sys
V = pathlib.Path(__file__).resolve().parent.parent
sys.path.insert(0, str(V))
props = [json.loads(l) for l in (V / "properties.jsonl").read_text().splitlines() if l.strip()]
NA = json.loads((V / "tools" / "not_applicable.json").read_text()) if (V / "tools" / "not_applicable.json").exists() else {}
checks, na = [], []
for p in props:
    pid = p["id"]
    f = V / "sa" / "props" / f"{pid.lower()}.py"
    if f.exists() and pid not in NA:
        m = importlib.import_module(f"sa.props.{pid.lower()}")
        checks.append({
            "property_id": pid,
            "quick_cmd": f"/venv/bin/python -m sa.check {pid}",
            "thorough_cmd": f"/venv/bin/python -m sa.check {pid} --thorough",
            "evidence_file": f"/verif/evidence/{pid}.json",
            "replay_cmd_template": "/venv/bin/python -m sa.check --replay {path}",
            "engine": "sa",
            "level_claimed": {"category": "other", "text": m.LEVEL_TEXT, "design_ref": f"DESIGN.md section 5, {pid}"},
            "level_note": m.LEVEL_NOTE,
            "technique": m.TECHNIQUE,
        })
    else:
        na.append({"property_id": pid, "reason": NA.get(pid, "check not built yet (see DESIGN.md section 5 for the planned rules)")})
man = {
    "version": 1,
    "setup_cmd": "/venv/bin/python -m compileall -q sa",
    "hooks": {"guard": "XGCM_VERIF", "enable": "none needed: the checks parse /repo's source and never build, import or run it",
              "baseline_off_cmd": "cd /repo && /venv/bin/python -m pytest -q -p no:cacheprovider --timeout=900 -n 16",
              "source_commits": [], "add_only": True},
    "engines": [{"name": "sa", "path": "/verif/sa", "serves_properties": [c["property_id"] for c in checks],
                 "kind_free_text": "purpose-built static analysis of /repo/xgcm on the Python ast: symbol table + call graph, per-function CFG with dominators and reaching definitions, decision-table extraction by abstract evaluation over finite guard alphabets, a stencil domain for 1-D kernels, automata for the signature language, taint-style dataflow (ownership, set order, label opacity). Standard library only; nothing of xgcm is imported or executed."}],
    "checks": checks,
    "notes": "Static analysis only (DESIGN.md). Every check decides structural necessary conditions of its property on the current source of /repo and says so in level_claimed; behaviour produced by numpy/xarray/dask at run time is the trusted base. Exit 2 + 'ANALYSIS-ERROR' means no verdict (never printed together with VIOLATION). known_findings.json lists recorded defects and the fix: commits.",
    "not_applicable": na,
}
(V / "MANIFEST.json").write_text(json.dumps(man, indent=1) + "\n")
print("checks:", [c["property_id"] for c in checks], "n/a:", [x["property_id"] for x in na])
