import sys, importlib; sys.path.insert(0,'/verif')
from concurrent.futures import ProcessPoolExecutor
from sa import report
from sa.core import Project, REPO, AnalysisError
PIDS=[f"C{i:02d}" for i in range(1,21)]
def run(args):
    name, file, a, b, cnt = args
    src=(REPO/file).read_text()
    if src.count(a)!=cnt: return name, f"ANCHOR {src.count(a)}"
    out=[]
    for pid in PIDS:
        P=Project(overrides={file: src.replace(a,b)}); ctx=report.Ctx(pid,P,False)
        try: importlib.import_module(f"sa.props.{pid.lower()}").check(ctx)
        except AnalysisError as e: out.append(f"{pid}:exit2"); continue
        except Exception as e: out.append(f"{pid}:ERR {type(e).__name__}"); continue
        base = BASE[pid]
        new=[f.key for f in ctx.findings if f.key not in base[0]]
        inc=[u["rule"] for u in ctx.inconclusive if u["rule"]+u["instance"] not in base[1]]
        if new: out.append(f"{pid}:{new[0][:70]}")
        elif inc: out.append(f"{pid}:noverdict {inc[0]}")
    return name, out
def base(pid):
    P=Project(); ctx=report.Ctx(pid,P,False); importlib.import_module(f"sa.props.{pid.lower()}").check(ctx)
    return pid, ({f.key for f in ctx.findings}, {u["rule"]+u["instance"] for u in ctx.inconclusive})
BASE={}
if __name__=="__main__":
    import json
    muts=json.load(open(sys.argv[1]))
    with ProcessPoolExecutor(16) as ex:
        BASE.update(dict(ex.map(base,PIDS)))
    def init(b): BASE.update(b)
    with ProcessPoolExecutor(16, initializer=init, initargs=(BASE,)) as ex:
        for name,out in ex.map(run,[(m[0],m[1],m[2],m[3],m[4] if len(m)>4 else 1) for m in muts]):
            print(("SILENT  " if not out else "caught  ")+name, out if out else "")
