#!/bin/sh
# Apply a patch to /repo, run every quick check, report which ones fire, and undo the patch.
# usage: tools/try_patch.sh <patch.diff>
set -e
cd /repo
git diff --quiet || { echo "/repo has uncommitted changes"; exit 3; }
git apply "$1"
cd /verif
for p in $(/venv/bin/python -c "import json;print(' '.join(c['property_id'] for c in json.load(open('MANIFEST.json'))['checks']))"); do
  SA_EVIDENCE_DIR=/tmp/sa_campaign_evidence /venv/bin/python -m sa.check $p > /tmp/try_$p.log 2>&1 && rc=0 || rc=$?
  if [ $rc -ne 0 ]; then echo "== $p exit=$rc"; grep -E -A1 "^VIOLATION|^ANALYSIS-ERROR" /tmp/try_$p.log | head -8; fi
done
git -C /repo checkout -- .
rm -rf /tmp/sa_campaign_evidence
echo "patch undone"
