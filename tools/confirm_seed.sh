#!/bin/sh
# Confirm a seeded change in the scratch worktree /tmp/wt_confirm:
#   demo passes without the patch, fails with it; the pinned suite still passes with it.
# usage: tools/confirm_seed.sh <dir with patch.diff and demo.py> [extra PYTHONPATH]
D=$(cd "$1" && pwd); WT=/tmp/wt_confirm; EXTRA=${2:+:$2}
git -C $WT checkout -q -- . && git -C $WT clean -fdq
cd $WT
# demos written in an agent's own worktree may assert that xgcm is imported from there: point them at this worktree
PID=$(echo "$D" | sed -n 's#.*_\(C[0-9][0-9]\)/.*#\1#p')
sed -e "s#/tmp/wt_$PID#$WT#g" -e "s#/tmp/wt6_$PID#$WT#g" $D/demo.py > /tmp/confirm_demo.py
PYTHONPATH=$WT$EXTRA /venv/bin/python /tmp/confirm_demo.py > /tmp/confirm_without.log 2>&1; A=$?
git -C $WT apply $D/patch.diff || { echo "patch does not apply"; exit 2; }
PYTHONPATH=$WT$EXTRA /venv/bin/python /tmp/confirm_demo.py > /tmp/confirm_with.log 2>&1; B=$?
/venv/bin/python -m pytest -q -p no:cacheprovider -n 16 xgcm 2>&1 | tail -1 > /tmp/confirm_suite.log
git -C $WT checkout -q -- .
echo "demo without patch: exit $A ; with patch: exit $B ; suite with patch: $(cat /tmp/confirm_suite.log)"
