"""Copy confirmed seeded changes from /tmp/seed_<prop>/<A|B> into /verif/seeded/<prop>-<A|B>/ with a meta.json."""
import json, pathlib, re, shutil
LOG = pathlib.Path("/root/work/confirm.log")
DESC = {
 "C01-A": ("`_complete_user_kwargs_using_axis_defaults` tests `if not user_kwargs`: a per-call fill_value=0 / 0.0 is treated as not given", "a grid whose default fill value is non-zero, called with scalar fill_value=0 and boundary='fill'"),
 "C01-B": ("`max_right_to_center` decorated with boundary_width (0, 1) instead of (1, 0)", "grid.max from the right to the center position (1 of 32 operator/shift combinations)"),
 "C02-A": ("constructor guard `if ax in boundary_dict and boundary_dict[ax] is None`: axes a partial Grid-level boundary mapping does not name stay periodic", "Grid(periodic=False, boundary={'X': 'extend'}) with a second axis"),
 "C02-B": ("`_pad_basic` issues one xarray.pad call per rule and keeps the kwargs of the last axis", "two 'fill' axes with different fill values padded in one call"),
 "C03-A": ("source-slice choice collapsed to `is_right and not reverse` (correct: `is_right != reverse`)", "a reversed link joining two left edges, data varying inside the face"),
 "C03-B": ("early `continue` for a face linked to itself along the same axis, non-reversed", "a periodic domain one face wide together with a fill/extend rule on that axis"),
 "C04-A": ("`swap_axis = False` reset hoisted out of the per-link loop: the flag carries over from the left to the right link", "a face whose left link swaps axes and whose right link keeps the axis; vector input"),
 "C04-B": ("`_maybe_rename_grid_positions` pairs grid dimensions of source and target by order instead of by axis", "components storing their horizontal dims in different order, or a left link followed by an axis-swapping link"),
 "C05-A": ("depth flip of reversed links only when the requested width on that side is > 1", "a reversed link requesting 1 cell on its side while another side/axis requests 2 or more"),
 "C05-B": ("same mechanism as C03-A at the same site, written independently", "left-to-left reversed links"),
 "C06-A": ("`map_overlap` set once before the per-axis loop and never reset", "interp/diff over ['X','Z'] with data chunked along X only and Z going center->outer"),
 "C06-B": ("the map_overlap wrapper no longer forwards **kw to the user function", "user grid ufunc called with kwargs=..., map_overlap=True, data chunked along the axis"),
 "C07-A": ("last-bin test compares with the number of cells (`j == n - 1`) instead of bins", "homogeneous cell on a particular bin edge when cell count != bin count"),
 "C07-B": ("un-flip for decreasing bins lost its Ellipsis (`out[::-1]`)", "decreasing bins with at least one extra dimension"),
 "C08-A": ("mask loop replaced by a scan inwards from both ends of the level array", "an out-of-range level standing between in-range levels of an unordered level list"),
 "C08-B": ("direction flip decided once per block from the first column, kernel then called with bypass_checks=True", "target_data whose direction changes across columns"),
 "C09-A": ("`if user_kwargs:` instead of `is not None` in `_complete_user_kwargs_using_axis_defaults`", "cumsum to outer with per-call fill_value=0 on a grid with non-zero default fill"),
 "C09-B": ("dropping the last running sum moved from before pad() to after it", "boundary='periodic' (wrap) with center->left or right->center"),
 "C10-A": ("interpolated partition factor no longer passes 'extend' to interp_like", "non-periodic grid, no metric for exactly the requested set, one factor registered only elsewhere"),
 "C10-B": ("`iterate_axis_combinations` enumerates smallest block first (`range(1, N)`)", "3-axis request with a 2-axis area metric != dx*dy and all 1-axis metrics registered"),
 "C11-A": ("`fill_value = kwargs.pop('fill_value', None) or self.fill_value`", "call-time fill_value=0 with a non-zero bound fill value and boundary='fill'"),
 "C11-B": ("`_substitute_dummy_axis_names` leaves a key untranslated when it equals a real axis name", "signature (X,Y) bound crosswise to real axes (Y,X) on a grid whose axes are called X and Y"),
 "C12-A": ("", ""), "C12-B": ("", ""),
 "C13-A": ("`pad_axes` built with sorted(...) instead of grid.axes order", "face-connected grid, padding on two axes, axis names whose alphabetical order differs from the Grid order"),
 "C13-B": ("`_maybe_promote_str_to_list(axes)` dropped from get_metric", "a bare string axis name containing another axis' name as substring (e.g. 'eta' and 't')"),
 "C16-A": ("`did_overwrite = False` hoisted out of the per-variable loop", "set_metrics(axes, [v_occupied, v_new], overwrite=True) on an axis set that already has metrics"),
 "C16-B": ("get_metric appends the interpolated metric to the registry as a cache", "two queries at different unregistered positions with a non-constant metric"),
}
rows = {}
for line in LOG.read_text().splitlines() if LOG.exists() else []:
    m = re.match(r"(/tmp/seed[23456]?_(C\d\d)/([A-L])) demo without patch: exit (\d+) ; with patch: exit (\d+) ; suite with patch: (.*)", line)
    if m:
        rows[f"{m.group(2)}-{m.group(3)}"] = (int(m.group(4)), int(m.group(5)), m.group(6), m.group(1))
extra = json.loads(pathlib.Path("/root/work/seed_desc_extra.json").read_text()) if pathlib.Path("/root/work/seed_desc_extra.json").exists() else {}
DESC.update({k: tuple(v) for k, v in extra.items()})
def from_notes(src):
    """Description of a change from the agent's own notes: its heading and its 'needs to manifest' sentence."""
    txt = (src / "notes.md").read_text()
    head = next((l.strip("# ").strip() for l in txt.splitlines() if l.strip()), "")
    head = re.sub(r"^(C\d\d\s*/\s*)?(Seeded )?[Cc]hange [A-J]\s*(\(property C\d\d\))?\s*[-:–—]*\s*", "", head)
    m = re.search(r"[Nn]eeds to manifest\W*(.{10,400}?)(?:\n\s*[-*]|\n\n|$)", txt, re.S)
    if not m:  # any sentence of the notes that speaks of manifesting / showing
        m = re.search(r"(?im)^[^\n]*\b(manifests?|shows? only|only shows?|needs)\b[^\n]*$", txt)
        needs = re.sub(r"[*`#>-]+", " ", m.group(0)).strip() if m else ""
    else:
        needs = m.group(1)
    return head[:300], re.sub(r"\s+", " ", needs).strip()[:300]


NOT_KEPT = {"C18-F": "judged not to break any property (DESIGN 9.1)"}
for sid, (a, b, suite, srcdir) in sorted(rows.items()):
    if sid in NOT_KEPT:
        print("not kept", sid, NOT_KEPT[sid])
        continue
    prop, ab = sid.split("-")
    src = pathlib.Path(srcdir)
    ok = a == 0 and b != 0 and "4087 passed" in suite and not re.search(r"(?<![a-z])\d+ failed", suite) and " error" not in suite
    if not ok:
        print("NOT CONFIRMED", sid, a, b, suite)
        continue
    dst = pathlib.Path(f"/verif/seeded/{sid}")
    dst.mkdir(parents=True, exist_ok=True)
    for f in ("patch.diff", "demo.py", "notes.md"):
        shutil.copy(src / f, dst / f)
    what, needs = DESC.get(sid, ("", ""))
    if not what or not needs:
        w2, n2 = from_notes(src)
        what, needs = what or w2, needs or n2
    old = json.loads((dst / "meta.json").read_text()) if (dst / "meta.json").exists() else {}
    meta = {"id": sid, "property": prop, "breaks": what or old.get("breaks", ""), "needs_to_manifest": needs or old.get("needs_to_manifest", ""),
            "origin": "independent sub-agent given only the property text and a scratch worktree",
            "confirmed": {"how": "tools/confirm_seed.sh in the scratch worktree /tmp/wt_confirm", "demo_exit_without_change": a, "demo_exit_with_change": b, "pinned_suite_with_change": suite.strip("= ")},
            "caught_by": old.get("caught_by", []), "no_verdict": old.get("no_verdict", [])}
    (dst / "meta.json").write_text(json.dumps(meta, indent=1) + "\n")
    print("imported", sid)
