#!/bin/sh
# Run every claimed check (quick or --thorough) and print one line each.
cd /verif
for p in $(/venv/bin/python -c "import json;print(' '.join(c['property_id'] for c in json.load(open('MANIFEST.json'))['checks']))"); do
  /venv/bin/python -m sa.check $p "$@" > /tmp/sa_$p.log 2>&1; rc=$?
  echo "$p exit=$rc $(grep -E '^\[' /tmp/sa_$p.log)"
  grep -E "VIOLATION|ANALYSIS-ERROR" /tmp/sa_$p.log | head -5
done
