"""Copy the behaviour-preserving refactorings written by sub-agents (/tmp/refac_<prop>/<Rn>) into /verif/refactors/<prop>-<Rn>/.

meta.json records what was verified: the agent's own suite run (quoted in its notes), my own suite run in the scratch
worktree (/root/work/confirm_refac.log, if already there) and the verdicts of the checks (filled in by tools/refactor_report.py)."""
import json, pathlib, re, shutil

LOG = pathlib.Path("/root/work/confirm_refac.log")
mine = {}
for line in LOG.read_text().splitlines() if LOG.exists() else []:
    m = re.match(r"/tmp/refac[2345]?_(C\d\d)/(R\d+) (.*)", line)
    if m:
        mine[f"{m.group(1)}-{m.group(2)}"] = m.group(3).strip("= ")
for src in sorted(list(pathlib.Path("/tmp").glob("refac_C*/R*")) + list(pathlib.Path("/tmp").glob("refac2_C*/R*")) + list(pathlib.Path("/tmp").glob("refac3_C*/R*")) + list(pathlib.Path("/tmp").glob("refac4_C*/R*")) + list(pathlib.Path("/tmp").glob("refac5_C*/R*"))):
    if not ((src / "patch.diff").exists() and (src / "notes.md").exists()):
        continue
    rid = f"{src.parent.name.split('_')[1]}-{src.name}"
    dst = pathlib.Path("/verif/refactors") / rid
    dst.mkdir(parents=True, exist_ok=True)
    for f in ("patch.diff", "notes.md"):
        shutil.copy(src / f, dst / f)
    notes = (src / "notes.md").read_text()
    m = re.search(r"(\d+ passed, \d+ skipped, \d+ xfailed, \d+ xpassed)", notes)
    old = json.loads((dst / "meta.json").read_text()) if (dst / "meta.json").exists() else {}
    first = next((l.strip("# ").strip() for l in notes.splitlines() if l.strip()), "")
    meta = {"id": rid, "written_for_property": rid.split("-")[0], "summary": first[:300],
            "origin": "independent sub-agent given only the property text and a scratch worktree; asked for a behaviour-preserving refactoring",
            "files": sorted(set(re.findall(r"^\+\+\+ b/(\S+)", (src / "patch.diff").read_text(), re.M))),
            "suite_reported_by_agent": m.group(1) if m else "",
            "suite_run_by_me": mine.get(rid, old.get("suite_run_by_me", "not yet run")),
            "checks": old.get("checks", {})}
    (dst / "meta.json").write_text(json.dumps(meta, indent=1) + "\n")
    print("imported", rid, "|", meta["suite_run_by_me"][:50])
