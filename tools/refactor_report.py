"""Apply every behaviour-preserving refactoring under /verif/refactors/<id>/patch.diff to /repo (one at a time, undone
straight afterwards), run all quick checks and record their verdicts: every check must stay silent (exit 0).
Writes refactors/RESULTS.md and `checks` in each meta.json."""
import json, pathlib, subprocess, sys
V = pathlib.Path("/verif")
man = json.loads((V / "MANIFEST.json").read_text())
props = [c["property_id"] for c in man["checks"]]
if subprocess.run(["git", "-C", "/repo", "diff", "--quiet"]).returncode != 0:
    sys.exit("/repo has uncommitted changes")
only = set(sys.argv[1:])
rows = []
for d in sorted((V / "refactors").iterdir()):
    if not (d / "patch.diff").exists():
        continue
    meta = json.loads((d / "meta.json").read_text()) if (d / "meta.json").exists() else {}
    if only and d.name not in only:
        rows.append((d.name, meta))
        continue
    ap = subprocess.run(["git", "-C", "/repo", "apply", str(d / "patch.diff")], capture_output=True, text=True)
    if ap.returncode != 0:
        meta["checks"] = {"error": "patch does not apply"}
        rows.append((d.name, meta))
        continue
    alarms, noverdict = [], []
    try:
        for p in props:
            r = subprocess.run(["/venv/bin/python", "-m", "sa.check", p], cwd=V, capture_output=True, text=True, env={**__import__("os").environ, "SA_EVIDENCE_DIR": "/tmp/sa_campaign_evidence"})
            if r.returncode == 1:
                alarms.append(p)
            elif r.returncode == 2:
                noverdict.append(p)
    finally:
        subprocess.run(["git", "-C", "/repo", "checkout", "--", "."])
    meta["checks"] = {"false_alarms": alarms, "no_verdict": noverdict, "silent": len(props) - len(alarms) - len(noverdict)}
    (d / "meta.json").write_text(json.dumps(meta, indent=1) + "\n")
    rows.append((d.name, meta))
__import__("shutil").rmtree("/tmp/sa_campaign_evidence", ignore_errors=True)
out = ["# Behaviour-preserving refactorings and the verdicts of the checks", "",
       "Written by independent sub-agents (given only the property text and a scratch worktree; asked to restructure the code the property is",
       "anchored in without changing behaviour), applied to /repo one at a time by `tools/refactor_report.py`.  Every check must stay silent.", "",
       "| refactoring | files | pinned suite (my run) | false alarms (exit 1) | no verdict (exit 2) | summary |", "|---|---|---|---|---|---|"]
for name, meta in rows:
    c = meta.get("checks", {})
    out.append(f"| {name} | {', '.join(f.split('/')[-1] for f in meta.get('files', []))} | {meta.get('suite_run_by_me', '')[:48]} | {', '.join(c.get('false_alarms', [])) or '-'} | {', '.join(c.get('no_verdict', [])) or '-'} | {meta.get('summary', '')[:110].replace('|', '/')} |")
(V / "refactors" / "RESULTS.md").write_text("\n".join(out) + "\n")
print("\n".join(out))
