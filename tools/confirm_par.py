"""Confirm round-6 seeds in parallel: demo without / with the patch and the pinned suite with the patch, one scratch worktree per slot."""
import subprocess, sys, os, re, pathlib, queue, threading
SLOTS = int(sys.argv[1]) if len(sys.argv) > 1 else 8  # scratch worktrees /tmp/wt_confirm<slot>, removed at the end; the log is what tools/import_seeds.py reads
todo = []
done = set()
log = pathlib.Path("/root/work/confirm.log")
if log.exists():
    for l in log.read_text().splitlines():
        m = re.match(r"(/tmp/seed6_C\d\d/[KL]) ", l)
        if m: done.add(m.group(1))
for d in sorted(pathlib.Path("/tmp").glob("seed6_C*/[KL]")):
    if all((d / f).exists() for f in ("patch.diff", "demo.py", "notes.md")) and str(d) not in done:
        todo.append(d)
q = queue.Queue()
for d in todo: q.put(d)
lock = threading.Lock()
def run(cmd, cwd, env=None):
    return subprocess.run(cmd, cwd=cwd, env=env, capture_output=True, text=True)
def worker(slot):
    wt = f"/tmp/wt_confirm{slot}"
    subprocess.run(["git", "-C", "/repo", "worktree", "remove", "--force", wt], capture_output=True)
    subprocess.run(["git", "-C", "/repo", "worktree", "add", "--detach", wt, "HEAD"], capture_output=True, check=True)
    while True:
        try: d = q.get_nowait()
        except queue.Empty: break
        run(["git", "checkout", "-q", "--", "."], wt); run(["git", "clean", "-fdq"], wt)
        env = dict(os.environ, PYTHONPATH=f"{wt}:/tmp/fakenumba" if "transform" in (d / "patch.diff").read_text() else wt)
        demo = re.sub(r"/tmp/wt6?_C\d\d", wt, (d / "demo.py").read_text())
        dp = f"/tmp/confirm_demo_{slot}.py"; open(dp, "w").write(demo)
        a = run(["/venv/bin/python", dp], wt, env).returncode
        ap = run(["git", "apply", str(d / "patch.diff")], wt)
        if ap.returncode != 0:
            line = f"{d} patch does not apply"
        else:
            b = run(["/venv/bin/python", dp], wt, env).returncode
            s = run(["/venv/bin/python", "-m", "pytest", "-q", "-p", "no:cacheprovider", "-n", "4", "xgcm"], wt, dict(os.environ, PYTHONPATH=wt))
            tail = s.stdout.strip().splitlines()[-1] if s.stdout.strip() else "?"
            line = f"{d} demo without patch: exit {a} ; with patch: exit {b} ; suite with patch: {tail}"
        run(["git", "checkout", "-q", "--", "."], wt)
        with lock:
            with open(log, "a") as fh: fh.write(line + "\n")
            print(line, flush=True)
    subprocess.run(["git", "-C", "/repo", "worktree", "remove", "--force", wt], capture_output=True)
ts = [threading.Thread(target=worker, args=(i,)) for i in range(SLOTS)]
[t.start() for t in ts]; [t.join() for t in ts]
