"""Which statements of /repo/xgcm does the abstract interpreter actually walk through, over all 20 quick checks?
    /venv/bin/python tools/stmt_coverage.py            -> mutation/COVERAGE.md
A campaign tool (what was analysed / where the blind spots of the evaluation-based rules are), not a registered check.
Statements that only the dataflow / scan rules look at (T1, T2, sink scan, census) are not 'interpreted' and are listed
as such; a function no harness enters is a place where only those rules and the mutation corpus speak."""
import ast, importlib, pathlib, sys
sys.path.insert(0, str(pathlib.Path(__file__).resolve().parent.parent))
import os
os.environ.setdefault("SA_EVIDENCE_DIR", "/tmp/sa_campaign_evidence")
from sa import absint, report
from sa.core import Project

absint.COVER = set()
P = Project()
per = {}
for i in range(1, 21):
    pid = f"C{i:02d}"
    before = set(absint.COVER)
    ctx = report.Ctx(pid, P, False)
    importlib.import_module(f"sa.props.{pid.lower()}").check(ctx)
    per[pid] = set(absint.COVER) - before
cov = absint.COVER
mods = sorted({m for m, _ in cov if m})
print("modules seen:", mods)
lines = ["# Statements interpreted by the abstract evaluator (all 20 quick checks)", ""]
tot = [0, 0]
rows = []
for f in sorted(pathlib.Path("/repo/xgcm").glob("*.py")):
    if f.name in ("__init__.py", "_version.py", "duck_array_ops.py"):
        pass
    tree = ast.parse(f.read_text())
    modname = f.stem
    hit = {l for m, l in cov if m and (m == modname or m.endswith("." + modname))}

    def walk(node, qual):
        for ch in ast.iter_child_nodes(node):
            if isinstance(ch, (ast.FunctionDef, ast.AsyncFunctionDef)):
                q = (qual + "." if qual else "") + ch.name
                stmts = []
                def own(body):
                    for st in body:
                        if isinstance(st, (ast.FunctionDef, ast.AsyncFunctionDef, ast.ClassDef)):
                            continue
                        if isinstance(st, ast.Expr) and isinstance(st.value, ast.Constant) and isinstance(st.value.value, str):
                            continue
                        stmts.append(st)
                        for fld in ("body", "orelse", "finalbody"):
                            own(getattr(st, fld, []) or [])
                        for h in getattr(st, "handlers", []) or []:
                            own(h.body)
                own(ch.body)
                miss = [st for st in stmts if st.lineno not in hit]
                rows.append((f.name, q, len(stmts), len(stmts) - len(miss), miss))
                walk(ch, q)
            elif isinstance(ch, ast.ClassDef):
                walk(ch, (qual + "." if qual else "") + ch.name)
    walk(tree, "")
src = {f.name: f.read_text().splitlines() for f in pathlib.Path("/repo/xgcm").glob("*.py")}
lines += ["| file | function | statements | interpreted |", "|---|---|---|---|"]
for fn, q, n, h, miss in rows:
    tot[0] += n; tot[1] += h
    lines.append(f"| {fn} | `{q}` | {n} | {h} |")
lines.append(f"| total | | {tot[0]} | {tot[1]} |")
lines += ["", "## Statements never interpreted", ""]
for fn, q, n, h, miss in rows:
    if miss:
        lines.append(f"* `{fn}:{q}` ({n - h} of {n}): " + "; ".join(f"L{st.lineno} `{src[fn][st.lineno - 1].strip()[:70]}`" for st in miss[:12]) + (" …" if len(miss) > 12 else ""))
pathlib.Path("/verif/mutation/COVERAGE.md").write_text("\n".join(lines) + "\n")
print(f"{tot[1]} of {tot[0]} statements interpreted")
