"""T2 - order analysis: is the iteration order of a set (which changes with PYTHONHASHSEED) ever consumed in an
order-sensitive way?

Abstract value of an expression: a set of flags
    'set'      the value is a set / frozenset (or a dict-keys difference),
    'ord'      a sequence / iterator / dict whose order was materialised from a set,
    'elemset'  a collection whose *elements* are sets (e.g. the keys of the metric registry).
Producers and consumers are classified by tables below; consumers decide: len(), truthiness, ==, membership,
any/all, error messages, set()/frozenset()/sorted() of the value and `exclude_dims=` are order-insensitive.
The analysis is flow-sensitive per function and context-sensitive across package calls (a callee is re-analysed
for the kinds of the arguments it receives).
"""
from __future__ import annotations

import ast
from typing import Dict, FrozenSet, List, Tuple

from .callgraph import CallGraph
from .core import Project, norm

E0: FrozenSet[str] = frozenset()
SET, ORD, ELEMSET, INNER = "set", "ord", "elemset", "inner"
SET_MAKERS = {"set", "frozenset"}
SEQ_MAKERS = {"list", "tuple"}
PASS_ORDER = {"zip", "enumerate", "reversed", "iter", "map", "filter", "dict"}
BENIGN_FUNCS = {"len", "any", "all", "bool", "isinstance", "print", "repr", "str", "type", "id", "min", "max", "sum"}
ITERTOOLS = {"combinations", "permutations", "product", "chain", "combinations_with_replacement", "accumulate", "islice", "cycle"}
SET_METHODS_SET = {"union", "intersection", "difference", "symmetric_difference", "copy"}
SET_METHODS_BENIGN = {"issubset", "issuperset", "isdisjoint", "add", "update", "discard", "remove", "clear", "intersection_update", "difference_update"}
SET_KEYWORDS = {"exclude_dims"}


class Finding:
    def __init__(self, q, node, what, source):
        self.q, self.node, self.what, self.source = q, node, what, source

    @property
    def construct(self):
        return norm(self.node, 100)


class OrderAnalysis:
    def __init__(self, P: Project):
        self.P = P
        self.cg = CallGraph(P)
        self.memo: Dict[Tuple[str, tuple], FrozenSet[str]] = {}
        self.in_progress = set()
        self.findings: Dict[Tuple[str, str], Finding] = {}
        self.keyset_attrs = set()  # attribute names of dicts whose keys are sets
        self.sites = 0
        # two passes: the first learns which attribute dictionaries are keyed by sets
        for _ in range(2):
            self.memo.clear()
            self.findings.clear()
            self.sites = 0
            for q, fi in P.functions.items():
                self.analyse(q, ())

    def report(self, q, node, what, source=""):
        f = Finding(q, node, what, source)
        self.findings.setdefault((q, f.construct), f)

    def analyse(self, q, ctx: tuple) -> FrozenSet[str]:
        key = (q, ctx)
        if key in self.memo:
            return self.memo[key]
        if key in self.in_progress:
            return E0
        self.in_progress.add(key)
        fi = self.P.functions[q]
        a = _FuncAnalysis(self, fi, dict(ctx))
        a.block(fi.node.body)
        self.in_progress.discard(key)
        self.memo[key] = frozenset(a.ret)
        return self.memo[key]


class _FuncAnalysis:
    def __init__(self, oa: OrderAnalysis, fi, param_kinds: Dict[str, FrozenSet[str]]):
        self.oa = oa
        self.fi = fi
        self.env: Dict[str, FrozenSet[str]] = {p: E0 for p in fi.all_param_names()}
        self.env.update(param_kinds)
        self.ret = set()
        self.ctxnote = (" [called with " + ", ".join(f"{k}: {'/'.join(sorted(v))}" for k, v in param_kinds.items() if v) + "]") if any(param_kinds.values()) else ""
        self.in_raise = 0

    # ------------------------------------------------------------------ expressions
    def k(self, e) -> FrozenSet[str]:
        if e is None:
            return E0
        m = getattr(self, "k_" + type(e).__name__, None)
        if m is not None:
            return m(e)
        out = E0
        for ch in ast.iter_child_nodes(e):
            if isinstance(ch, ast.expr):
                self.k(ch)
        return out

    def _rank_key(self, key) -> bool:
        """key=<seq>.index, or key=<table>.__getitem__ / lambda x: <table>[x] with <table> = {name: i for i, name in enumerate(...)}
        built in the same function: distinct elements get distinct ranks, so the sort cannot tie."""
        if isinstance(key, ast.Attribute) and key.attr == "index":
            return True
        tbl = None
        if isinstance(key, ast.Attribute) and key.attr == "__getitem__" and isinstance(key.value, ast.Name):
            tbl = key.value.id
        elif isinstance(key, ast.Lambda) and isinstance(key.body, ast.Subscript) and isinstance(key.body.value, ast.Name) and key.args.args \
                and isinstance(key.body.slice, ast.Name) and key.body.slice.id == key.args.args[0].arg:
            tbl = key.body.value.id
        if tbl is None:
            return False
        for n in ast.walk(self.fi.node):
            if isinstance(n, ast.Assign) and len(n.targets) == 1 and isinstance(n.targets[0], ast.Name) and n.targets[0].id == tbl and isinstance(n.value, ast.DictComp):
                dc = n.value
                g = dc.generators[0] if len(dc.generators) == 1 else None
                if g is not None and isinstance(g.iter, ast.Call) and isinstance(g.iter.func, ast.Name) and g.iter.func.id == "enumerate" and isinstance(g.target, ast.Tuple) and len(g.target.elts) == 2 \
                        and isinstance(g.target.elts[0], ast.Name) and isinstance(dc.value, ast.Name) and dc.value.id == g.target.elts[0].id \
                        and isinstance(g.target.elts[1], ast.Name) and isinstance(dc.key, ast.Name) and dc.key.id == g.target.elts[1].id:
                    return True
        return False

    def rep(self, node, what):
        self.oa.report(self.fi.q, node, what + self.ctxnote)

    def k_Name(self, e):
        return self.env.get(e.id, E0)

    def k_Constant(self, e):
        return E0

    def k_Attribute(self, e):
        self.k(e.value)
        if e.attr in self.oa.keyset_attrs:
            return frozenset({ELEMSET})
        return E0

    def k_Set(self, e):
        self.oa.sites += 1
        for x in e.elts:
            self.k(x)
        return frozenset({SET})

    def k_SetComp(self, e):
        self.oa.sites += 1
        self._comp(e.generators, e.elt)
        return frozenset({SET})

    def _comp(self, gens, *elts):
        """Evaluate a comprehension; returns (order-tainted?, kinds of the element expressions)."""
        saved = dict(self.env)
        tainted = False
        for g in gens:
            it = self.k(g.iter)
            if SET in it or ORD in it:
                tainted = True
            self._bind(g.target, frozenset({SET}) if ELEMSET in it else E0, silent=True)
            for c in g.ifs:
                self.k(c)
        kinds = [self.k(x) for x in elts]
        self.env = saved
        return tainted, kinds

    def k_ListComp(self, e):
        t, (ek,) = self._comp(e.generators, e.elt)
        if ORD in ek:
            self.rep(e.elt, "the order of a set is frozen into an element of a list")
        return frozenset({ORD}) if t else (frozenset({ELEMSET}) if SET in ek else E0)

    def k_GeneratorExp(self, e):
        t, (ek,) = self._comp(e.generators, e.elt)
        out = set()
        if t:
            out.add(ORD)
        if SET in ek:
            out.add(ELEMSET)
        if ORD in ek:
            out.add("elemord")
        return frozenset(out)

    def k_DictComp(self, e):
        t, (kk, vk) = self._comp(e.generators, e.key, e.value)
        return frozenset({ORD}) if t else E0

    def k_List(self, e):
        out = set()
        for x in e.elts:
            kx = self.k(x.value if isinstance(x, ast.Starred) else x)
            if isinstance(x, ast.Starred) and (SET in kx or ORD in kx):
                out.add(ORD)
            elif ORD in kx or INNER in kx:
                out.add(INNER)  # contains something whose order comes from a set
        return frozenset(out)

    k_Tuple = k_List

    def k_Dict(self, e):
        out = set()
        for kx, v in zip(e.keys, e.values):
            if kx is not None:
                self.k(kx)
            kv = self.k(v)
            if ORD in kv or INNER in kv:
                out.add(INNER)
        return frozenset(out)

    def k_BinOp(self, e):
        l, r = self.k(e.left), self.k(e.right)
        if isinstance(e.op, (ast.BitOr, ast.BitAnd, ast.Sub, ast.BitXor)):
            if SET in l or SET in r or _is_keys_call(e.left) or _is_keys_call(e.right):
                self.oa.sites += 1
                return frozenset({SET})
        if isinstance(e.op, ast.Add):
            return frozenset((l | r) & {ORD})
        return E0

    def k_IfExp(self, e):
        self.k(e.test)
        return self.k(e.body) | self.k(e.orelse)

    def k_BoolOp(self, e):
        out = E0
        for v in e.values:
            out |= self.k(v)
        return out

    def k_Compare(self, e):
        self.k(e.left)
        for c in e.comparators:
            self.k(c)
        return E0

    def k_UnaryOp(self, e):
        self.k(e.operand)
        return E0

    def k_JoinedStr(self, e):
        for v in e.values:
            if isinstance(v, ast.FormattedValue):
                self.k(v.value)
        return E0

    def k_Subscript(self, e):
        b = self.k(e.value)
        self.k(e.slice)
        if ORD in b and not self.in_raise:
            self.rep(e, "an element is picked by position from a sequence whose order comes from a set")
        if INNER in b:
            return frozenset({INNER})
        return E0

    def k_Starred(self, e):
        return self.k(e.value)

    def k_Lambda(self, e):
        return E0

    def k_NamedExpr(self, e):
        v = self.k(e.value)
        self._bind(e.target, v)
        return v

    def k_Await(self, e):
        return self.k(e.value)

    def k_Call(self, c):
        f = c.func
        argk = []
        for a in c.args:
            ka = self.k(a.value if isinstance(a, ast.Starred) else a)
            argk.append(ka)
            if isinstance(a, ast.Starred) and (SET in ka or ORD in ka):
                self.rep(c, "a set is unpacked positionally with `*`: the order of the arguments depends on the hash seed")
        kwk = {k.arg: self.k(k.value) for k in c.keywords}
        anyset = any(SET in x or ORD in x for x in argk)
        name = f.id if isinstance(f, ast.Name) else None
        if name in SET_MAKERS:
            self.oa.sites += 1
            if argk and "elemord" in argk[0]:
                self.rep(c.args[0].elt if isinstance(c.args[0], ast.GeneratorExp) else c, "the order of a set is frozen into an element (tuple/list) of a new set")
            return frozenset({SET})
        if name in SEQ_MAKERS:
            if anyset:
                return frozenset({ORD})
            if argk and ELEMSET in argk[0]:
                return frozenset({ELEMSET})
            return E0
        if name == "sorted":
            # sorted(S) puts distinct elements into their one natural order.  sorted(S, key=f) is stable: elements with equal
            # keys keep the order in which the set yields them - unless the key cannot tie (the element itself / its text)
            key = next((k.value for k in c.keywords if k.arg == "key"), None)
            injective = key is None or (isinstance(key, ast.Name) and key.id in ("str", "repr")) or (
                isinstance(key, ast.Lambda) and isinstance(key.body, ast.Tuple) and key.body.elts and isinstance(key.body.elts[-1], ast.Name)
                and key.args.args and key.body.elts[-1].id == key.args.args[0].arg)  # lambda x: (..., x): the element itself breaks every tie
            if not injective and key is not None:
                injective = self._rank_key(key)
            if anyset and not injective:
                return frozenset({ORD})
            return E0
        if name in BENIGN_FUNCS:
            return E0
        if name == "zip" and len(c.args) >= 2 and anyset and not self.in_raise:
            self.rep(c, "zip() pairs the elements of a set with another sequence by position: the pairing depends on the hash seed")
            return frozenset({ORD})
        if name in PASS_ORDER:
            return frozenset({ORD}) if anyset else E0
        if name == "next":
            if argk and (SET in argk[0] or ORD in argk[0]):
                self.rep(c, "next() takes whichever element the set yields first")
            return E0
        if isinstance(f, ast.Attribute):
            recv = self.k(f.value)
            base = f.value
            if isinstance(base, ast.Name) and base.id in ("itertools",) and f.attr in ITERTOOLS:
                return frozenset({ORD}) if anyset else E0
            if f.attr == "fromkeys" and isinstance(base, ast.Name) and base.id == "dict":
                return frozenset({ORD}) if anyset else E0
            if SET in recv:
                if f.attr == "pop":
                    self.rep(c, "set.pop() removes an arbitrary (hash-order) element")
                    return E0
                if f.attr in SET_METHODS_SET:
                    return frozenset({SET})
                if f.attr in SET_METHODS_BENIGN:
                    return E0
            if f.attr in SET_METHODS_SET and any(SET in x for x in argk) and not recv:
                return frozenset({SET}) if f.attr != "copy" else E0
            if f.attr in ("keys", "values", "items"):
                if ORD in recv or INNER in recv:
                    return frozenset({ORD})
                if ELEMSET in recv and f.attr in ("keys", "items"):
                    return frozenset({ELEMSET})
                return E0
            if f.attr == "join" and argk and (SET in argk[0] or ORD in argk[0]):
                if not self.in_raise:
                    return frozenset({ORD})
                return E0
            if f.attr in ("append", "extend", "insert", "add", "update"):
                # order-tainted element stored into a local container
                if isinstance(base, ast.Name) and any(ORD in x for x in argk):
                    self.env[base.id] = self.env.get(base.id, E0) | {ORD}
        tg = self.oa.cg.resolve(c, self.fi)
        if tg:
            q2 = tg[0]
            fi2 = self.oa.P.functions[q2]
            ps, va, ko, kw = fi2.params
            ps_ = ps[1:] if (fi2.cls and ps and ps[0] in ("self", "cls")) else ps
            ctx = {}
            for i, a in enumerate(c.args):
                if isinstance(a, ast.Starred):
                    continue
                if i < len(ps_) and argk[i]:
                    ctx[ps_[i]] = argk[i]
            for kname, kv in kwk.items():
                if kname in ps_ + ko and kv:
                    ctx[kname] = kv
            r = self.oa.analyse(q2, tuple(sorted(ctx.items())))
            return r
        # library call: an order-tainted argument is consumed in order; a set argument is the library's business
        for a, ka in zip(c.args, argk):
            if ORD in ka and not self.in_raise and name not in ("warn",) and not (isinstance(f, ast.Attribute) and f.attr in ("warn", "append", "extend", "format")):
                self.rep(a, "a sequence whose order comes from a set is handed to a library call")
        for kname, kv in kwk.items():
            if ORD in kv and kname not in SET_KEYWORDS and not self.in_raise:
                self.rep(c, f"a sequence whose order comes from a set is handed to `{kname}=`")
        return E0

    # ------------------------------------------------------------------ statements
    def _bind(self, t, kv, silent=False, node=None):
        if isinstance(t, ast.Name):
            self.env[t.id] = kv
        elif isinstance(t, (ast.Tuple, ast.List)):
            if INNER in kv and not (SET in kv or ORD in kv):
                for x in t.elts:
                    self._bind(x.value if isinstance(x, ast.Starred) else x, frozenset({INNER}), True)
                return
            single = len(t.elts) == 1 and not isinstance(t.elts[0], ast.Starred)  # `(x,) = s` takes the only element: no order involved
            if (SET in kv or ORD in kv) and not silent and not single:
                self.rep(node or t, "a set (or a sequence ordered by a set) is unpacked into variables: which value lands where depends on the hash seed")
            for x in t.elts:
                self._bind(x.value if isinstance(x, ast.Starred) else x, E0, True)
        elif isinstance(t, ast.Subscript):
            self.k(t.value)
            ks = self.k(t.slice)
            if SET in ks and isinstance(t.value, ast.Attribute):
                self.oa.keyset_attrs.add(t.value.attr)
            if ORD in kv and not silent:
                self.rep(node or t, "a sequence whose order comes from a set is stored")
        elif isinstance(t, ast.Attribute):
            self.k(t.value)
            if ORD in kv and not silent:
                self.rep(node or t, "a sequence whose order comes from a set is stored on an object")

    def block(self, stmts):
        for st in stmts:
            self.stmt(st)

    def join(self, a, b):
        return {k: a.get(k, E0) | b.get(k, E0) for k in set(a) | set(b)}

    def stmt(self, st):
        if isinstance(st, ast.Assign):
            kv = self.k(st.value)
            for t in st.targets:
                self._bind(t, kv, node=st)
        elif isinstance(st, ast.AnnAssign):
            if st.value is not None:
                self._bind(st.target, self.k(st.value), node=st)
        elif isinstance(st, ast.AugAssign):
            kv = self.k(st.value)
            if isinstance(st.target, ast.Name):
                self.env[st.target.id] = self.env.get(st.target.id, E0) | (kv & {ORD, SET})
        elif isinstance(st, ast.Expr):
            if isinstance(st.value, (ast.Yield, ast.YieldFrom)):
                v = self.k(st.value.value) if st.value.value is not None else E0
                self.ret |= v & {ORD}
                if getattr(self, "_ordered_loop", 0):
                    self.ret.add(ORD)
            else:
                self.k(st.value)
        elif isinstance(st, ast.Return):
            self.ret |= self.k(st.value) & {SET, ORD, ELEMSET, INNER}
            if getattr(self, "_ordered_loop", 0) and st.value is not None and not isinstance(st.value, ast.Constant):
                self.rep(st, "return from inside a loop over a set: which element is returned depends on the hash seed")
        elif isinstance(st, ast.If):
            self.k(st.test)
            e0 = dict(self.env)
            self.block(st.body)
            e1 = self.env
            self.env = dict(e0)
            self.block(st.orelse)
            self.env = self.join(e1, self.env)
        elif isinstance(st, (ast.For, ast.AsyncFor)):
            it = self.k(st.iter)
            ordered = SET in it or ORD in it or (INNER in it and isinstance(st.iter, ast.Name))
            for _ in range(2):
                e0 = dict(self.env)
                self._bind(st.target, frozenset({SET}) if ELEMSET in it else E0, silent=True)
                if ordered:
                    self._ordered_loop = getattr(self, "_ordered_loop", 0) + 1
                    self._loop_node = st
                    before = {n: v for n, v in self.env.items()}
                self.block(st.body)
                if ordered:
                    self._ordered_loop -= 1
                    # containers appended to in the body carry the set's order; last-iteration values of plain names too
                    for sub in ast.walk(ast.Module(body=st.body, type_ignores=[])):
                        if isinstance(sub, ast.Call) and isinstance(sub.func, ast.Attribute) and sub.func.attr in ("append", "extend", "insert") and isinstance(sub.func.value, ast.Name):
                            self.env[sub.func.value.id] = self.env.get(sub.func.value.id, E0) | {ORD}
                        if isinstance(sub, ast.Break):
                            self.rep(st, "loop over a set stops at the first matching element: the result depends on the hash seed")
                        if isinstance(sub, ast.Assign):
                            for t in sub.targets:
                                if isinstance(t, ast.Subscript) and isinstance(t.value, ast.Name):
                                    self.env[t.value.id] = self.env.get(t.value.id, E0) | {ORD}
                                elif isinstance(t, ast.Subscript) and isinstance(t.value, ast.Attribute):
                                    self.rep(sub, "inside a loop whose order comes from a set, entries are inserted into a dictionary stored on an object: its order (e.g. the order of the Grid's axes) depends on the hash seed")
                self.env = self.join(e0, self.env)
            self.block(st.orelse)
        elif isinstance(st, ast.While):
            for _ in range(2):
                e0 = dict(self.env)
                self.k(st.test)
                self.block(st.body)
                self.env = self.join(e0, self.env)
        elif isinstance(st, ast.Try):
            self.block(st.body)
            for h in st.handlers:
                self.block(h.body)
            self.block(st.orelse)
            self.block(st.finalbody)
        elif isinstance(st, (ast.With, ast.AsyncWith)):
            for i in st.items:
                self.k(i.context_expr)
            self.block(st.body)
        elif isinstance(st, ast.Raise):
            self.in_raise += 1
            self.k(st.exc)
            self.in_raise -= 1
        elif isinstance(st, ast.Assert):
            self.k(st.test)
        elif isinstance(st, ast.Delete):
            pass


def _is_keys_call(e):
    return isinstance(e, ast.Call) and isinstance(e.func, ast.Attribute) and e.func.attr == "keys"
