"""Interpretation of an effect lineage (as recorded by absint.Obj) on a symbolic 1-D sequence.

The array along the axis of interest is x_0 .. x_{n-1} for a small concrete n; every element of a
derived array is a linear combination {cell: coefficient} of source cells ('x', i) and boundary
cells ('lo', depth) / ('hi', depth) created by padding, or a min/max over such combinations.
This is the stencil domain of DESIGN 3.6, made exact by enumeration on small n (the results must
agree for all n tried, which is what "independent of N" means for these tables).
"""
from __future__ import annotations

from fractions import Fraction as F
from typing import Dict, List

from .absint import TOP, Obj, SliceV, Unmodelled, xr_mapping_arg


class Red:
    """min/max over a set of linear elements."""

    def __init__(self, op, items):
        self.op = op
        self.items = frozenset(items)

    def key(self):
        return (self.op, tuple(sorted(self.items)))

    def __eq__(self, o):
        return isinstance(o, Red) and o.key() == self.key()

    def __hash__(self):
        return hash(self.key())

    def __repr__(self):
        return f"{self.op}{sorted(self.items)}"


def lin(d: Dict) -> tuple:
    return tuple(sorted((k, F(v)) for k, v in d.items() if v != 0))


def lin_add(a, b, sign=1):
    d = dict(a)
    for k, v in b:
        d[k] = d.get(k, 0) + sign * v
    return lin(d)


def lin_scale(a, c):
    return lin({k: v * c for k, v in a})


class Stack:
    def __init__(self, seqs):
        self.seqs = seqs


class LengthMismatch(Exception):
    """Element-wise combination of two sequences whose lengths differ and neither of which has length 1: numpy raises
    (shapes cannot be broadcast) - a definite fault of the kernel for that array length, not a gap of the model."""


class AxisDiscipline(Exception):
    """A subscript that does not address the last axis through a leading Ellipsis."""


def base_seq(n: int):
    return [lin({("x", i): 1}) for i in range(n)]


def pad_seq(seq, lo: int, hi: int, rule=None):
    """rule None: boundary cells are placeholders ('lo', depth) / ('hi', depth).
    rule 'fill' / 'extend' / 'wrap': numpy.pad modes constant / edge / wrap applied to the current contents."""
    seq = list(seq)
    if rule is None:
        return [lin({("lo", d): 1}) for d in range(lo, 0, -1)] + seq + [lin({("hi", d): 1}) for d in range(1, hi + 1)]
    if rule == "fill":
        return [lin({("fill", 0): 1})] * lo + seq + [lin({("fill", 0): 1})] * hi
    if not seq:
        raise Unmodelled("padding an empty sequence")
    if rule == "extend":
        return [seq[0]] * lo + seq + [seq[-1]] * hi
    if rule == "wrap":
        n = len(seq)
        return [seq[(n - d) % n] for d in range(lo, 0, -1)] + seq + [seq[(d - 1) % n] for d in range(1, hi + 1)]
    raise Unmodelled(f"pad rule {rule!r}")


def apply_slice(seq, s: SliceV):
    for x in (s.lo, s.hi, s.step):
        if x is not None and not isinstance(x, int):
            raise Unmodelled(f"non-constant slice {s!r}")
    return seq[slice(s.lo, s.hi, s.step)]


def prefix(seq):
    out, acc = [], lin({})
    for e in seq:
        if isinstance(e, Red):
            raise Unmodelled("cumsum of a min/max")
        acc = lin_add(acc, e)
        out.append(acc)
    return out


def interp_np(v, n: int, arg_name="a"):
    """Value of a kernel-body lineage over a symbolic last axis of length n."""
    if isinstance(v, (int, float, F)) and not isinstance(v, bool):
        return F(v).limit_denominator(10**6) if isinstance(v, float) else F(v)
    if isinstance(v, Stack):
        return v
    if isinstance(v, (list, tuple)):
        return [interp_np(x, n, arg_name) for x in v]
    if not isinstance(v, Obj):
        raise Unmodelled(f"kernel value {v!r}")
    if v.kind == "ext":
        return _np_call(v, n, arg_name)
    cur = base_seq(n) if v.kind == "ndarray" else None
    if cur is None:
        raise Unmodelled(f"kernel object of kind {v.kind}")
    return _apply_effects(cur, v.eff, n, arg_name)


def _apply_effects(cur, effs, n, arg_name):
    for e in effs:
        op = e[0]
        if op == "getitem":
            k = e[1]
            if isinstance(k, tuple) and len(k) == 2 and k[0] is Ellipsis and isinstance(k[1], SliceV):
                cur = apply_slice(cur, k[1])
            elif isinstance(k, tuple) and len(k) == 2 and k[0] is Ellipsis and isinstance(k[1], int):
                raise Unmodelled("integer index on the last axis")
            else:
                raise AxisDiscipline(f"subscript {k!r} does not select the last axis through a leading Ellipsis")
        elif op in ("add", "sub", "radd", "rsub", "mult", "rmult", "div", "rdiv"):
            other = interp_np(e[1], n, arg_name)
            cur = _arith(op, cur, other)
        elif op == "neg":
            cur = [lin_scale(x, -1) for x in cur]
        else:
            raise Unmodelled(f"kernel operation {op}")
    return cur


def _arith(op, cur, other):
    if isinstance(other, F):
        if op in ("mult", "rmult"):
            return [lin_scale(x, other) for x in cur]
        if op == "div":
            if other == 0:
                raise Unmodelled("division by zero")
            return [lin_scale(x, 1 / other) for x in cur]
        raise Unmodelled(f"{op} with a scalar")
    if isinstance(other, list):
        if len(other) != len(cur):
            if len(other) != 1 and len(cur) != 1:
                raise LengthMismatch(f"the stencil combines {len(cur)} with {len(other)} points along the axis (numpy cannot broadcast these shapes)")
            raise Unmodelled("operands of different length along the axis (broadcast of a length-1 axis)")
        if any(isinstance(x, Red) for x in cur + other):
            raise Unmodelled("arithmetic on a min/max")
        if op == "add" or op == "radd":
            return [lin_add(a, b) for a, b in zip(cur, other)]
        if op == "sub":
            return [lin_add(a, b, -1) for a, b in zip(cur, other)]
        if op == "rsub":
            return [lin_add(b, a, -1) for a, b in zip(cur, other)]
    raise Unmodelled(f"{op} of sequences")


def _np_call(v: Obj, n, arg_name):
    """v = Obj('ext', 'numpy.f', (('call', args, kwargs), *later effects))"""
    path = v.name
    call = v.eff[0]
    args, kwargs = list(call[1]), dict(call[2])
    fn = path.split(".")[-1]
    axis = kwargs.get("axis", None)

    def last_axis():
        if axis != -1:
            raise AxisDiscipline(f"{path}(axis={axis!r}) does not act on the last axis")

    if fn == "cumsum":
        last_axis()
        res = prefix(interp_np(args[0], n, arg_name))
    elif fn == "diff":
        last_axis() if "axis" in kwargs else None
        s = interp_np(args[0], n, arg_name)
        res = [lin_add(b, a, -1) for a, b in zip(s[:-1], s[1:])]
    elif fn == "stack":
        last_axis()
        res = Stack([interp_np(x, n, arg_name) for x in args[0]])
    elif fn in ("min", "max", "amin", "amax", "nanmin", "nanmax"):
        last_axis()
        st = interp_np(args[0], n, arg_name)
        if not isinstance(st, Stack):
            raise Unmodelled(f"{fn} over the data axis itself")
        L = {len(s) for s in st.seqs}
        if len(L) != 1:
            raise LengthMismatch(f"np.stack of sequences of lengths {sorted(len(s) for s in st.seqs)} along the axis (numpy raises)")
        res = [Red(fn.replace("a", "", 1) if fn.startswith("am") else fn, [s[i] for s in st.seqs]) for i in range(L.pop())]
    elif fn in ("minimum", "maximum", "fmin", "fmax"):
        a, b = interp_np(args[0], n, arg_name), interp_np(args[1], n, arg_name)
        if len(a) != len(b):
            if len(a) != 1 and len(b) != 1:
                raise LengthMismatch(f"element-wise min/max of {len(a)} and {len(b)} points along the axis (numpy cannot broadcast these shapes)")
            raise Unmodelled("operands of different length")
        res = [Red("min" if "min" in fn else "max", [x, y]) for x, y in zip(a, b)]
    elif fn in ("add", "subtract"):
        a, b = interp_np(args[0], n, arg_name), interp_np(args[1], n, arg_name)
        res = _arith("add" if fn == "add" else "sub", a, b)
    else:
        raise Unmodelled(f"numpy function {path}")
    if isinstance(res, Stack):
        if len(v.eff) > 1:
            raise Unmodelled("operations on a stack")
        return res
    return _apply_effects(res, v.eff[1:], n, arg_name)


# ---------------------------------------------------------------------------------- xarray-level lineages
def interp_xr(v: Obj, n: int, dim, axis_name=None, on_other=None, rule=None):
    """Value of an xarray-level lineage along dimension `dim` (which may be renamed on the way).

    Returns (sequence, current dimension name, markers) where markers lists the non-sequence effects
    seen in order (rename targets, pad arguments, reattach, metric products...)."""
    cur = base_seq(n)
    markers = []
    for e in v.eff:
        op = e[0]
        if op == "cumsum":
            kw = dict(e[2])
            d = kw.get("dim", e[1][0] if e[1] else None)
            if d == dim:
                cur = prefix(cur)
            markers.append(("cumsum", d))
        elif op == "isel":
            m = xr_mapping_arg("isel", e[1], e[2])
            if not isinstance(m, dict):
                raise Unmodelled("isel without a mapping")
            for k, s in m.items():
                if k == dim:
                    if not isinstance(s, SliceV):
                        raise Unmodelled("isel with a non-slice indexer")
                    cur = apply_slice(cur, s)
                else:
                    markers.append(("isel-other", k, s))
        elif op == "PAD":
            widths = e[1]
            if isinstance(widths, dict):
                for ax, w in widths.items():
                    if ax == axis_name:
                        lo, hi = w
                        if not (isinstance(lo, int) and isinstance(hi, int)):
                            raise Unmodelled("non-constant pad width")
                        cur = pad_seq(cur, lo, hi, rule)
                    else:
                        markers.append(("pad-other", ax, w))
            markers.append(("pad", e[1], e[2], e[3]))
        elif op == "rename":
            m = xr_mapping_arg("rename", e[1], e[2])
            if isinstance(m, dict):
                for k, nv in m.items():
                    if k == dim:
                        dim = nv
                    markers.append(("rename", k, nv))
            else:
                raise Unmodelled("rename without a mapping")
        elif op in ("mult", "div", "rmult"):
            markers.append((op, e[1]))
        elif op in ("drop_vars", "REATTACH", "reset_coords", "reset_index", "copy", "transpose", "squeeze", "astype", "chunk"):
            markers.append((op,) + tuple(e[1:]))
        else:
            raise Unmodelled(f"xarray operation {op}")
    return cur, dim, markers
