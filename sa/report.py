"""Verdict protocol shared by all checks: findings, known findings, evidence, exit codes."""
from __future__ import annotations

import json
import os
import pathlib
import time
from typing import Dict, List, Optional

VERIF = pathlib.Path(__file__).resolve().parent.parent
# evidence of the registered checks goes to /verif/evidence; the campaign tools (which run the checks on a patched /repo)
# redirect it to a scratch directory so that the committed evidence always describes /repo itself
EVIDENCE = pathlib.Path(os.environ.get("SA_EVIDENCE_DIR") or (VERIF / "evidence"))
KNOWN = VERIF / "known_findings.json"


class Finding:
    def __init__(self, prop, rule, func, construct, message, loc="", path=None, excerpt=""):
        self.prop = prop
        self.rule = rule
        self.func = func  # qualname "module:Class.func"
        self.construct = construct  # normalised text / semantic instance id -- never a line number
        self.message = message
        self.loc = loc  # file:line, for display only
        self.path = path or []
        self.excerpt = excerpt

    @property
    def key(self) -> str:
        return f"{self.rule}|{self.func}|{self.construct}"

    def as_dict(self):
        return {
            "property": self.prop,
            "rule": self.rule,
            "function": self.func,
            "construct": self.construct,
            "message": self.message,
            "loc": self.loc,
            "path": self.path,
            "excerpt": self.excerpt,
            "key": self.key,
        }

    def __repr__(self):
        return f"<Finding {self.key}>"


class Ctx:
    """Collects what one property check analysed and found."""

    def __init__(self, prop: str, project, thorough: bool = False):
        self.prop = prop
        self.project = project
        self.thorough = thorough
        self.findings: List[Finding] = []
        self.instances: List[dict] = []  # every rule instance evaluated
        self.inconclusive: List[dict] = []
        self.notes: Dict[str, object] = {}
        self.counts: Dict[str, int] = {}
        self._seen_keys = set()

    # an obligation that held
    def ok(self, rule: str, instance: str, detail: str = ""):
        self.instances.append({"rule": rule, "instance": instance, "verdict": "holds", "detail": detail})
        self.counts[rule] = self.counts.get(rule, 0) + 1

    def report(self, rule, fi_or_q, construct, message, node=None, path=None):
        q = fi_or_q if isinstance(fi_or_q, str) else fi_or_q.q
        loc = ""
        excerpt = ""
        if not isinstance(fi_or_q, str):
            loc = self.project.loc(fi_or_q, node)
            if node is not None:
                from .core import norm

                excerpt = norm(node, 300)
        elif q in self.project.functions:
            loc = self.project.loc(self.project.functions[q], node)
        f = Finding(self.prop, rule, q, construct, message, loc, path, excerpt)
        self.instances.append({"rule": rule, "instance": construct, "verdict": "VIOLATED", "detail": message})
        self.counts[rule] = self.counts.get(rule, 0) + 1
        if f.key not in self._seen_keys:
            self._seen_keys.add(f.key)
            self.findings.append(f)
        return f

    def unknown(self, rule: str, instance: str, reason: str):
        self.inconclusive.append({"rule": rule, "instance": instance, "reason": reason})

    def floor(self, rule: str, what: str, count: int, minimum: int):
        """Vacuity floor: fewer instances than confirmed by hand means the rule lost its anchor."""
        self.notes.setdefault("floors", []).append({"rule": rule, "what": what, "count": count, "floor": minimum})
        if count < minimum:
            self.unknown(rule, what, f"only {count} instance(s) found, floor is {minimum} (anchor lost?)")

    def note(self, key, value):
        self.notes[key] = value


# ---------------------------------------------------------------------------------- known findings
def load_known() -> dict:
    if KNOWN.exists():
        return json.loads(KNOWN.read_text())
    return {"known": [], "fixed": []}


def known_for(prop: str) -> List[dict]:
    return [k for k in load_known().get("known", []) if k.get("property") == prop]


# ---------------------------------------------------------------------------------- evidence
def write_evidence(prop, tier, ctx: Ctx, wall, explanation, assumptions, violations, known_hits, selftest=None, extra=None):
    EVIDENCE.mkdir(exist_ok=True)
    seed = int(os.environ.get("VERIF_SEED", "0") or 0)
    nontrivial = {(i["rule"], i["instance"]) for i in ctx.instances}
    samples = []
    seen_rules = set()
    for i in ctx.instances:  # one sample per rule first, then fill up
        if i["rule"] not in seen_rules:
            seen_rules.add(i["rule"])
            samples.append(i)
    for i in ctx.instances:
        if len(samples) >= 12:
            break
        if i not in samples:
            samples.append(i)
    per_rule = {}
    for i in ctx.instances:
        per_rule[i["rule"]] = per_rule.get(i["rule"], 0) + 1
    cov = {
        "explanation": explanation,
        "evaluations": len(ctx.instances),
        "distinct_nontrivial": len(nontrivial),
        "rule": "one evaluation per rule instance (function / call site / table cell / path) reconstructed from "
        "/repo's current source; an instance is distinct by (rule id, construct) and non-trivial because each one "
        "is an obligation the rule actually evaluated on the syntax tree (none is a constant)",
        "samples": samples[:12],
        "obligations": len(ctx.instances),
        "discharged": sum(1 for i in ctx.instances if i["verdict"] == "holds"),
        "exhaustive": True,
        "instances_per_rule": per_rule,
        "functions_in_project": ctx.project.n_functions() if ctx.project else 0,
        "modules_parsed": sorted(m.relpath for m in ctx.project.modules.values()) if ctx.project else [],
        "inconclusive": ctx.inconclusive,
        "known_findings": known_hits,
        "notes": ctx.notes,
    }
    try:
        from . import absint

        cov["abstract_evaluations"] = absint.STATS["evaluations"]
        cov["paths_enumerated"] = absint.STATS["paths"]
    except Exception:
        pass
    if selftest is not None:
        cov["selftest"] = selftest
    if extra:
        cov.update(extra)
    ev = {
        "property_id": prop,
        "tier": tier,
        "seed": seed,
        "level": "other",
        "coverage": cov,
        "assumptions": assumptions,
        "wall_s": round(wall, 3),
        "violations": violations,
    }
    (EVIDENCE / f"{prop}.json").write_text(json.dumps(ev, indent=1, default=str) + "\n")


def write_replay(prop, n, finding: Finding) -> str:
    d = EVIDENCE / "replay" / prop
    d.mkdir(parents=True, exist_ok=True)
    p = d / f"{n}.json"
    p.write_text(json.dumps(finding.as_dict(), indent=1) + "\n")
    return str(p)
