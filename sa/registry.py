"""Extraction of the predefined grid-ufunc registry (gridops.py) from the syntax tree."""
from __future__ import annotations

import ast
import re
from typing import List, NamedTuple, Optional

from .absint import TOP, Evaluator, Obj, Unmodelled
from .core import AnalysisError, Project, norm

_PAIR = re.compile(r"^(\w+):(\w+)$")


def parse_signature(text: str):
    """The checker's own parser of '(a:pos,b:pos),(...)->(...)' (independent of the code under analysis).
    Returns (inputs, outputs), each a list of lists of (name, position); None if malformed."""
    t = text.replace(" ", "")
    if t.count("->") != 1:
        return None
    sides = []
    for side in t.split("->"):
        args = []
        i = 0
        if side == "":
            return None
        while i < len(side):
            if side[i] != "(":
                return None
            j = side.find(")", i)
            if j < 0:
                return None
            inner = side[i + 1: j]
            pairs = []
            if inner:
                for p in inner.split(","):
                    m = _PAIR.match(p)
                    if not m:
                        return None
                    pairs.append((m.group(1), m.group(2)))
            args.append(pairs)
            i = j + 1
            if i < len(side):
                if side[i] != ",":
                    return None
                i += 1
                if i >= len(side):
                    return None
        sides.append(args)
    return sides[0], sides[1]


class Entry(NamedTuple):
    name: str
    fi: object
    signature: str
    parsed: object
    options: dict
    result: object  # Obj lineage of the kernel's return value, 'RAISES', or ('UNMODELLED', reason)
    deco: ast.Call
    attrs: dict = {}  # the attributes GridUFunc.__init__ stores for these options (defaults as the source sets them)


def extract(P: Project, module: str = "gridops") -> List[Entry]:
    cache = getattr(P, "_registry_cache", None)
    if cache is None:
        cache = P._registry_cache = {}
    if module not in cache:
        cache[module] = _extract(P, module)
    return cache[module]


def _deco_model(P: Project):
    """Model of `as_grid_ufunc(...)`: records the options it is called with (bound to the real parameter names)."""
    target = P.func("grid_ufunc:as_grid_ufunc")
    pnames = [p for p in target.params[0]]

    def m(ev, args, kw, node):
        if len(args) > len(pnames):
            raise Unmodelled("too many positional arguments to as_grid_ufunc", node)
        opts = dict(zip(pnames, args))
        for k, v in kw.items():
            if k == "**":
                raise Unmodelled("as_grid_ufunc(**unknown)", node)
            opts[k] = v
        return Obj("GridUFuncDeco", "as_grid_ufunc", (), {"opts": opts})

    return m


def _extract(P: Project, module: str) -> List[Entry]:
    """Every module-level function whose decorator *evaluates* to an `as_grid_ufunc(...)` call: the decorator
    expression is interpreted (helper factories, tables and f-strings included), not matched syntactically."""
    from .absint import Env

    mod = P.module(module)
    out = []
    ev = Evaluator(P, models={"grid_ufunc:as_grid_ufunc": _deco_model(P)})
    for st in mod.tree.body:
        if not isinstance(st, ast.FunctionDef):
            continue
        for d in st.decorator_list:
            try:
                v = ev.ev(d, Env({}, None, module), None)
            except Unmodelled as e:
                raise AnalysisError(f"{module}.{st.name}: decorator `{norm(d, 80)}` cannot be evaluated ({e})")
            if not (isinstance(v, Obj) and v.kind == "GridUFuncDeco"):
                continue
            opts = dict(v.attrs["opts"])
            for k, val in opts.items():
                if isinstance(val, Obj) or val is TOP:
                    raise AnalysisError(f"{module}.{st.name}: decorator option `{k}` is not a constant ({val!r})")
            sig = opts.get("signature", "")
            fi = P.func(f"{module}:{st.name}")
            out.append(Entry(st.name, fi, sig, parse_signature(sig) if isinstance(sig, str) else None, opts, kernel_lineage(P, fi), d, gridufunc_attrs(P, opts)))
    return out


OPTION_NAMES = ("boundary_width", "boundary", "fill_value", "dask", "map_overlap", "pad_before_func")


def gridufunc_attrs(P: Project, opts: dict) -> dict:
    """What GridUFunc.__init__ stores when given these keyword options: the constructor is interpreted, so the
    defaults of options that are not given are the ones the source sets - never a table of this checker."""
    key = repr(sorted((k, repr(v)) for k, v in opts.items()))
    cache = P.__dict__.setdefault("_gu_attrs_cache", {})
    if key in cache:
        return cache[key]
    fi = P.func("grid_ufunc:GridUFunc.__init__")
    ev = Evaluator(P, models={"grid_ufunc:GridUFunc._get_signature_from_str_or_type_hints": lambda ev_, a, k, n: Obj("Signature", "sig")})
    kwname = fi.params[3]
    if not kwname:
        raise AnalysisError("GridUFunc.__init__ no longer takes its options as **kwargs")

    def make():
        me = Obj("GridUFunc", "gu", (), {"__class__": "grid_ufunc:GridUFunc"})
        o = dict(opts)
        o.setdefault("signature", "(X:center)->(X:center)")
        return {"self": me, fi.params[0][1] if len(fi.params[0]) > 1 else "ufunc": Obj("func", "ufunc"), kwname: o}

    try:
        outs = ev.run_paths(fi, make)
    except Unmodelled as e:
        raise AnalysisError(f"GridUFunc.__init__ cannot be interpreted ({e})")
    rets = [o for o in outs if o.kind == "return"]
    if len(outs) != 1 or not rets:
        raise AnalysisError(f"GridUFunc.__init__ does not simply store the options {sorted(opts)} ({[(o.kind, o.value) for o in outs]})")
    me = rets[0].env.get("self")
    res = {k: v for k, v in me.attrs.items() if k in OPTION_NAMES}
    cache[key] = res
    return res


def kernel_lineage(P: Project, fi):
    ev = Evaluator(P)
    ps = fi.params[0]
    try:
        outs = ev.run_paths(fi, lambda: {p: Obj("ndarray", p) for p in ps})
    except Unmodelled as e:
        return ("UNMODELLED", str(e))
    if all(o.kind == "raise" for o in outs):
        return "RAISES"
    if len(outs) != 1:
        return ("UNMODELLED", f"{len(outs)} paths through the kernel")
    return outs[0].value
