"""Intraprocedural reaching definitions / def-use helpers on top of the CFG."""
from __future__ import annotations

import ast
from typing import Dict, List, Optional, Set, Tuple

from .cfg import CFG, _own_exprs


class Def:
    __slots__ = ("name", "node", "value", "kind", "target")

    def __init__(self, name, node, value, kind, target=None):
        self.name = name
        self.node = node  # CFG node id
        self.value = value  # ast expr the name is bound from (None for params)
        self.kind = kind  # 'param' | 'assign' | 'for' | 'with' | 'except' | 'aug' | 'import' | 'def' | 'unpack' | 'for-unpack'
        self.target = target  # the ast target node

    def __repr__(self):
        return f"<Def {self.name}@{self.node} {self.kind}>"


def target_names(t) -> List[Tuple[str, ast.AST]]:
    out = []
    if isinstance(t, ast.Name):
        out.append((t.id, t))
    elif isinstance(t, (ast.Tuple, ast.List)):
        for e in t.elts:
            out += target_names(e)
    elif isinstance(t, ast.Starred):
        out += target_names(t.value)
    return out


class FuncFlow:
    """Reaching definitions for the local names of one function."""

    def __init__(self, fn: ast.AST):
        self.fn = fn
        self.cfg = CFG(fn)
        self.defs_at: Dict[int, List[Def]] = {i: [] for i in self.cfg.nodes}
        self._collect()
        self._solve()

    def _collect(self):
        a = self.fn.args
        for p in a.posonlyargs + a.args + a.kwonlyargs + ([a.vararg] if a.vararg else []) + ([a.kwarg] if a.kwarg else []):
            self.defs_at[self.cfg.entry].append(Def(p.arg, self.cfg.entry, None, "param"))
        for i, st in self.cfg.nodes.items():
            if isinstance(st, ast.Assign):
                for t in st.targets:
                    simple = isinstance(t, ast.Name)
                    for n, tn in target_names(t):
                        self.defs_at[i].append(Def(n, i, st.value, "assign" if simple else "unpack", t))
            elif isinstance(st, ast.AnnAssign) and st.value is not None:
                for n, tn in target_names(st.target):
                    self.defs_at[i].append(Def(n, i, st.value, "assign", st.target))
            elif isinstance(st, ast.AugAssign):
                for n, tn in target_names(st.target):
                    self.defs_at[i].append(Def(n, i, st, "aug", st.target))
            elif isinstance(st, ast.For):
                simple = isinstance(st.target, ast.Name)
                for n, tn in target_names(st.target):
                    self.defs_at[i].append(Def(n, i, st.iter, "for" if simple else "for-unpack", st.target))
            elif isinstance(st, ast.With):
                for it in st.items:
                    if it.optional_vars is not None:
                        for n, tn in target_names(it.optional_vars):
                            self.defs_at[i].append(Def(n, i, it.context_expr, "with", it.optional_vars))
            elif isinstance(st, ast.ExceptHandler):
                if st.name:
                    self.defs_at[i].append(Def(st.name, i, st.type, "except"))
            elif isinstance(st, (ast.FunctionDef, ast.AsyncFunctionDef, ast.ClassDef)):
                self.defs_at[i].append(Def(st.name, i, None, "def"))
            elif isinstance(st, (ast.Import, ast.ImportFrom)):
                for al in st.names:
                    self.defs_at[i].append(Def((al.asname or al.name).split(".")[0], i, None, "import"))
            # walrus and comprehension targets are ignored (comprehension scopes are separate)
            if isinstance(st, ast.AST):
                for e in _own_exprs(st):
                    for sub in ast.walk(e):
                        if isinstance(sub, ast.NamedExpr) and isinstance(sub.target, ast.Name):
                            self.defs_at[i].append(Def(sub.target.id, i, sub.value, "assign", sub.target))

    def _solve(self):
        pred = self.cfg.preds()
        self.inn: Dict[int, Set[Def]] = {i: set() for i in self.cfg.nodes}
        self.out: Dict[int, Set[Def]] = {i: set() for i in self.cfg.nodes}
        work = list(self.cfg.nodes)
        while work:
            n = work.pop(0)
            inn = set()
            for p in pred[n]:
                inn |= self.out[p]
            killed = {d.name for d in self.defs_at[n]}
            out = {d for d in inn if d.name not in killed} | set(self.defs_at[n])
            self.inn[n] = inn
            if out != self.out[n]:
                self.out[n] = out
                for s in self.cfg.succ[n]:
                    if s not in work:
                        work.append(s)

    # ------------------------------------------------------------------ queries
    def reaching(self, node: int, name: str) -> List[Def]:
        """Definitions of `name` that reach the *use* in CFG node `node`.

        For a ``for`` header the loop target is defined by the node itself, so uses inside the
        header's iterable see the incoming definitions."""
        return [d for d in self.inn[node] if d.name == name]

    def node_of(self, ast_node) -> int:
        return self.cfg.node_of(ast_node)

    def loop_body_nodes(self, loop_node: int) -> Set[int]:
        """CFG nodes belonging to the body of the loop whose header is `loop_node`."""
        st = self.cfg.nodes[loop_node]
        ids = set()
        body_asts = set()
        for b in st.body:
            for sub in ast.walk(b):
                body_asts.add(id(sub))
        for i, s in self.cfg.nodes.items():
            if isinstance(s, ast.AST) and id(s) in body_asts:
                ids.add(i)
        return ids

    def derives_from(self, node: int, expr: ast.AST, pred, depth: int = 12, _seen=None) -> Optional[List[Def]]:
        """Chain of definitions linking `expr` (used at `node`) back to a definition satisfying pred(def)."""
        _seen = _seen if _seen is not None else set()
        for nm in [n for n in ast.walk(expr) if isinstance(n, ast.Name) and isinstance(n.ctx, ast.Load)]:
            for d in self.reaching(node, nm.id):
                if (d.name, d.node) in _seen:
                    continue
                _seen.add((d.name, d.node))
                if pred(d):
                    return [d]
                if depth > 0 and d.value is not None and d.kind in ("assign", "unpack", "for", "for-unpack", "with", "aug"):
                    v = d.value if not isinstance(d.value, ast.AugAssign) else d.value.value
                    sub = self.derives_from(d.node, v, pred, depth - 1, _seen)
                    if sub is not None:
                        return [d] + sub
        return None


def context_of(fn: ast.AST, target: ast.AST) -> Optional[List[Tuple[str, ast.AST]]]:
    """Frames enclosing `target` (any AST node of fn's own body), outermost first.

    Each frame is (kind, stmt) with kind in 'if-true', 'if-false', 'loop-body', 'loop-else',
    'loop-header', 'try-body', 'try-else', 'try-final', 'handler', 'with-body', 'if-test'.
    Returns None when target is not found (e.g. it sits in a nested function)."""

    def contains(node):
        return any(sub is target for sub in ast.walk(node))

    def visit(stmts, frames):
        for st in stmts:
            if st is target:
                return frames
            if isinstance(st, ast.If):
                if contains(st.test):
                    return frames + [("if-test", st)]
                r = visit(st.body, frames + [("if-true", st)])
                if r is None:
                    r = visit(st.orelse, frames + [("if-false", st)])
                if r is not None:
                    return r
            elif isinstance(st, (ast.For, ast.AsyncFor, ast.While)):
                hdr = [st.iter, st.target] if not isinstance(st, ast.While) else [st.test]
                if any(contains(h) for h in hdr):
                    return frames + [("loop-header", st)]
                r = visit(st.body, frames + [("loop-body", st)])
                if r is None:
                    r = visit(st.orelse, frames + [("loop-else", st)])
                if r is not None:
                    return r
            elif isinstance(st, ast.Try):
                r = visit(st.body, frames + [("try-body", st)])
                if r is None:
                    r = visit(st.orelse, frames + [("try-else", st)])
                if r is None:
                    r = visit(st.finalbody, frames + [("try-final", st)])
                if r is None:
                    for h in st.handlers:
                        r = visit(h.body, frames + [("handler", h)])
                        if r is not None:
                            break
                if r is not None:
                    return r
            elif isinstance(st, (ast.With, ast.AsyncWith)):
                if any(contains(it.context_expr) for it in st.items):
                    return frames
                r = visit(st.body, frames + [("with-body", st)])
                if r is not None:
                    return r
            elif isinstance(st, (ast.FunctionDef, ast.AsyncFunctionDef, ast.ClassDef)):
                continue
            else:
                if contains(st):
                    return frames
        return None

    return visit(fn.body, [])


def enclosing_conditions(fn: ast.AST, target: ast.AST) -> List[Tuple[ast.expr, bool]]:
    """(test, polarity) of every ``if`` whose body (True) or orelse (False) contains `target`."""
    fr = context_of(fn, target) or []
    return [(st.test, k == "if-true") for k, st in fr if k in ("if-true", "if-false")]


def enclosing_loops(fn: ast.AST, target: ast.AST) -> List[ast.AST]:
    """For/While statements whose *body* contains `target`, outermost first."""
    fr = context_of(fn, target) or []
    return [st for k, st in fr if k == "loop-body"]


def stmt_of(fn: ast.AST, target: ast.AST) -> Optional[ast.stmt]:
    """The innermost statement of fn's own body that contains `target`."""
    best = None
    stack = list(fn.body)
    while stack:
        st = stack.pop()
        if isinstance(st, (ast.FunctionDef, ast.AsyncFunctionDef, ast.ClassDef)):
            continue
        if any(sub is target for sub in ast.walk(st)):
            best = st
            for f in ("body", "orelse", "finalbody"):
                stack.extend(getattr(st, f, []) or [])
            for h in getattr(st, "handlers", []) or []:
                stack.extend(h.body)
    return best


def origin_defs(ff: "FuncFlow", node: int, expr: ast.AST, depth: int = 16):
    """Root definitions the value of `expr` (used at CFG node `node`) is computed from.

    Follows simple assignments backwards; stops at parameters, loop targets, with/except
    bindings.  Returns a set of Def."""
    roots = set()
    seen = set()

    def go(n, e, d):
        for nm in [x for x in ast.walk(e) if isinstance(x, ast.Name) and isinstance(x.ctx, ast.Load)]:
            for df in ff.reaching(n, nm.id):
                if (df.name, df.node) in seen:
                    continue
                seen.add((df.name, df.node))
                if df.kind in ("assign", "unpack", "aug") and df.value is not None and d > 0:
                    v = df.value.value if isinstance(df.value, ast.AugAssign) else df.value
                    go(df.node, v, d - 1)
                    if df.kind == "aug":
                        go(df.node, ast.Name(id=df.name, ctx=ast.Load()), d - 1)
                else:
                    roots.add(df)

    go(node, expr, depth)
    return roots
