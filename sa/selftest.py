"""Checker self-test: seeded one-edit variants applied in memory.

A variant is ``V(id, file, old, new, expect)``: replace the unique occurrence of ``old`` by ``new``
in ``file`` (a path relative to the repository root) and re-run the property's check.
``expect`` is a rule id (the variant must add at least one finding of that rule compared with the
real tree, optionally ``"rule~substring"`` to demand that the construct names the right thing)
or ``None`` for a behaviour-preserving twin (the variant must add no finding and no inconclusive).
Variants whose anchor text is no longer in the tree are skipped and counted.
A failing self-test means the *checker* is broken: exit 2, never a VIOLATION.
"""
from __future__ import annotations

import importlib
import os
from concurrent.futures import ProcessPoolExecutor
from typing import List, NamedTuple, Optional

from . import report
from .core import REPO, AnalysisError, Project


class V(NamedTuple):
    id: str
    file: str
    old: object  # text to replace (must occur exactly once), or a list of (old, new[, count]) edits
    new: Optional[str]
    expect: Optional[str]
    why: str = ""


def _apply(v: V):
    p = REPO / v.file
    if not p.exists():
        return None
    src = p.read_text()
    edits = v.old if isinstance(v.old, (list, tuple)) else [(v.old, v.new)]
    for e in edits:
        old, new = e[0], e[1]
        cnt = e[2] if len(e) > 2 else 1
        if cnt == -1:
            if src.count(old) < 1:
                return None
        elif src.count(old) != cnt:
            return None
        src = src.replace(old, new)
    return src


def _run_variant(args):
    pid, v = args
    src = _apply(v)
    if src is None:
        return (v.id, "skipped", "anchor text not present (or not unique) in the current tree", [])
    try:
        project = Project(overrides={v.file: src})
        mod = importlib.import_module(f"sa.props.{pid.lower()}")
        ctx = report.Ctx(pid, project, False)
        mod.check(ctx)
    except AnalysisError as e:
        return (v.id, "analysis-error", str(e), [])
    except Exception as e:
        return (v.id, "internal-error", f"{type(e).__name__}: {e}", [])
    return (v.id, "ran", [u["rule"] + ":" + u["instance"] for u in ctx.inconclusive], [(f.rule, f.key, f.message) for f in ctx.findings])


def variants_for(pid: str) -> List[V]:
    try:
        m = importlib.import_module(f"sa.variants.{pid.lower()}")
    except ModuleNotFoundError:
        return []
    return list(m.VARIANTS)


def run(pid: str, base_ctx: report.Ctx) -> dict:
    vs = variants_for(pid)
    base_keys = {f.key for f in base_ctx.findings}
    base_inc = {u["rule"] + ":" + u["instance"] for u in base_ctx.inconclusive}
    results, failures = [], []
    skipped = 0
    jobs = int(os.environ.get("SA_JOBS", "16"))
    if vs:
        with ProcessPoolExecutor(max_workers=min(jobs, len(vs))) as ex:
            outs = list(ex.map(_run_variant, [(pid, v) for v in vs]))
    else:
        outs = []
    for v, (vid, status, info, findings) in zip(vs, outs):
        if status == "skipped":
            skipped += 1
            results.append({"variant": vid, "status": "skipped", "reason": info})
            continue
        if status in ("analysis-error", "internal-error"):
            if v.expect is not None and status == "analysis-error" and v.expect == "ANALYSIS-ERROR":
                results.append({"variant": vid, "status": "ok", "detail": "analysis error as expected"})
            else:
                failures.append(f"variant {vid}: {status}: {info}")
                results.append({"variant": vid, "status": "FAILED", "detail": f"{status}: {info}"})
            continue
        new = [(r, k, m) for (r, k, m) in findings if k not in base_keys]
        new_inc = [u for u in info if u not in base_inc]
        if v.expect is None:
            if new or new_inc:
                failures.append(f"behaviour-preserving twin {vid} raised {[k for _, k, _ in new] + new_inc}")
                results.append({"variant": vid, "status": "FAILED", "detail": "false alarm on a twin", "new": [k for _, k, _ in new], "inconclusive": new_inc})
            else:
                results.append({"variant": vid, "status": "ok", "detail": "twin stayed silent"})
            continue
        rule, _, sub = v.expect.partition("~")
        hit = [k for (r, k, m) in new if (r == rule or r.startswith(rule + ".")) and (not sub or sub in k or sub in m)]
        if hit:
            results.append({"variant": vid, "status": "ok", "detected_by": hit[0], "why": v.why})
        else:
            failures.append(f"variant {vid} ({v.why}) was not reported by rule {v.expect}; new findings: {[k for _, k, _ in new]}; inconclusive: {new_inc}")
            results.append({"variant": vid, "status": "FAILED", "detail": "missed", "new": [k for _, k, _ in new], "inconclusive": new_inc})
    return {
        "variants": len(vs),
        "skipped": skipped,
        "passed": sum(1 for r in results if r["status"] == "ok"),
        "failures": failures,
        "results": results,
    }
