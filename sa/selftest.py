"""Checker self-test: seeded one-edit variants applied in memory.

A variant is ``V(id, file, old, new, expect)``: replace the unique occurrence of ``old`` by ``new``
in ``file`` (a path relative to the repository root) and re-run the property's check.
``expect`` is a rule id (the variant must add at least one finding of that rule compared with the
real tree, optionally ``"rule~substring"`` to demand that the construct names the right thing)
or ``None`` for a behaviour-preserving twin (the variant must add no finding and no inconclusive).
Variants whose anchor text is no longer in the tree are skipped and counted.
A failing self-test means the *checker* is broken: exit 2, never a VIOLATION.
"""
from __future__ import annotations

import importlib
import os
from concurrent.futures import ProcessPoolExecutor
from typing import List, NamedTuple, Optional

from . import report
from .core import REPO, AnalysisError, Project


class V(NamedTuple):
    id: str
    file: str
    old: object  # text to replace (must occur exactly once), or a list of (old, new[, count]) edits
    new: Optional[str]
    expect: Optional[str]
    why: str = ""


def _apply(v: V):
    p = REPO / v.file
    if not p.exists():
        return None
    src = p.read_text()
    edits = v.old if isinstance(v.old, (list, tuple)) else [(v.old, v.new)]
    for e in edits:
        old, new = e[0], e[1]
        cnt = e[2] if len(e) > 2 else 1
        if cnt == -1:
            if src.count(old) < 1:
                return None
        elif src.count(old) != cnt:
            return None
        src = src.replace(old, new)
    return src


class PV(NamedTuple):
    """A variant given as a unified diff (the corpora /verif/seeded and /verif/refactors), applied in memory."""

    id: str
    patch: str  # path of the diff
    expect: Optional[str]  # "*" = any new finding of the property; None = behaviour-preserving twin
    why: str = ""
    may_be_inconclusive: bool = False  # a twin on which this check is recorded as giving no verdict (never a finding)


def apply_unified_diff(patch_text: str, read):
    """Apply a `git diff` to sources obtained through read(relpath) -> str.  Returns {relpath: new text} or None if a
    hunk does not fit (hunks are located by their exact old text, searched outwards from the recorded line)."""
    import re

    out = {}
    cur = None
    lines = patch_text.split("\n")
    i = 0
    hunks = {}
    while i < len(lines):
        ln = lines[i]
        if ln.startswith("+++ "):
            path = ln[4:].strip()
            cur = path[2:] if path.startswith("b/") else path
            if cur == "/dev/null":
                return None
            hunks[cur] = []
        elif ln.startswith("--- ") and ln[4:].strip() == "/dev/null":
            return None  # file creation: not needed for these corpora
        elif ln.startswith("@@") and cur is not None:
            m = re.match(r"@@ -(\d+)(?:,(\d+))? \+(\d+)(?:,(\d+))? @@", ln)
            if not m:
                return None
            old, new = [], []
            i += 1
            while i < len(lines) and not lines[i].startswith("@@") and not lines[i].startswith("diff --git"):
                h = lines[i]
                if h.startswith("\\"):
                    pass
                elif h.startswith("-"):
                    old.append(h[1:])
                elif h.startswith("+"):
                    new.append(h[1:])
                elif h.startswith(" ") or h == "":
                    if h == "" and i == len(lines) - 1:
                        break
                    old.append(h[1:])
                    new.append(h[1:])
                else:
                    break
                i += 1
            hunks[cur].append((int(m.group(1)), old, new))
            continue
        i += 1
    for rel, hs in hunks.items():
        try:
            src = read(rel)
        except (OSError, KeyError):
            return None
        body = src.split("\n")
        shift = 0
        for start, old, new in hs:
            want = start - 1 + shift
            pos = None
            for d in range(0, len(body) + 1):
                for cand in (want - d, want + d):
                    if 0 <= cand <= len(body) - len(old) and body[cand:cand + len(old)] == old:
                        pos = cand
                        break
                if pos is not None:
                    break
            if pos is None:
                return None
            body[pos:pos + len(old)] = new
            shift += len(new) - len(old)
        out[rel] = "\n".join(body)
    return out


def _run_variant(args):
    pid, v = args
    if isinstance(v, PV):
        try:
            overrides = apply_unified_diff(open(v.patch).read(), lambda rel: (REPO / rel).read_text())
        except OSError:
            overrides = None
        if overrides is None:
            return (v.id, "skipped", "the diff no longer applies to the current tree", [])
    else:
        src = _apply(v)
        if src is None:
            return (v.id, "skipped", "anchor text not present (or not unique) in the current tree", [])
        overrides = {v.file: src}
    try:
        project = Project(overrides=overrides)
        mod = importlib.import_module(f"sa.props.{pid.lower()}")
        ctx = report.Ctx(pid, project, False)
        mod.check(ctx)
    except AnalysisError as e:
        return (v.id, "analysis-error", str(e), [])
    except Exception as e:
        return (v.id, "internal-error", f"{type(e).__name__}: {e}", [])
    return (v.id, "ran", [u["rule"] + ":" + u["instance"] for u in ctx.inconclusive], [(f.rule, f.key, f.message) for f in ctx.findings])


def variants_for(pid: str) -> List[V]:
    try:
        m = importlib.import_module(f"sa.variants.{pid.lower()}")
        vs = list(m.VARIANTS)
    except ModuleNotFoundError:
        vs = []
    # independent seeded changes that break this property (written by sub-agents, confirmed in a scratch worktree)
    # (a change is a variant of every property whose check was recorded as reporting it: meta.json `caught_by`,
    #  written by tools/seeded_report.py from runs against /repo itself)
    import json

    for d in sorted((report.VERIF / "seeded").glob("C*-*")):
        if (d / "patch.diff").exists() and (d / "meta.json").exists():
            try:
                meta = json.loads((d / "meta.json").read_text())
            except ValueError:
                continue
            if pid in [c.get("check") for c in meta.get("caught_by", [])]:
                vs.append(PV(f"seeded/{d.name}", str(d / "patch.diff"), "*", "independent seeded change written against " + meta.get("property", "?")))
    # hand-made multi-line edits kept as diffs: sa/variants/patches/<property>/<name>.diff must be reported by that property
    # (files named twin_*.diff are behaviour-preserving counterparts: no check of this property may react)
    for f in sorted((report.VERIF / "sa" / "variants" / "patches" / pid).glob("*.diff")):
        if f.stem.startswith("twin_"):
            vs.append(PV(f"patches/{pid}/{f.stem}", str(f), None, "hand-made behaviour-preserving counterpart of a reported edit"))
        else:
            vs.append(PV(f"patches/{pid}/{f.stem}", str(f), "*", "hand-made multi-line edit that breaks the property"))
    # independent behaviour-preserving refactorings (of any property's code): no check may react
    for d in sorted((report.VERIF / "refactors").glob("C*-R*")):
        if (d / "patch.diff").exists():
            nv = []
            try:
                nv = json.loads((d / "meta.json").read_text()).get("checks", {}).get("no_verdict", [])
            except (OSError, ValueError):
                pass
            # a refactoring on which this check is *recorded* (refactors/RESULTS.md) as unable to follow the code stays in the
            # corpus: it must never produce a finding, an honest "no verdict" is tolerated for it
            vs.append(PV(f"refactors/{d.name}", str(d / "patch.diff"), None, "independent behaviour-preserving refactoring", pid in nv))
    return vs


def run(pid: str, base_ctx: report.Ctx) -> dict:
    vs = variants_for(pid)
    base_keys = {f.key for f in base_ctx.findings}
    base_inc = {u["rule"] + ":" + u["instance"] for u in base_ctx.inconclusive}
    results, failures = [], []
    skipped = 0
    jobs = int(os.environ.get("SA_JOBS", "16"))
    if vs:
        with ProcessPoolExecutor(max_workers=min(jobs, len(vs))) as ex:
            outs = list(ex.map(_run_variant, [(pid, v) for v in vs]))
    else:
        outs = []
    for v, (vid, status, info, findings) in zip(vs, outs):
        if status == "skipped":
            skipped += 1
            results.append({"variant": vid, "status": "skipped", "reason": info})
            continue
        if status in ("analysis-error", "internal-error"):
            if v.expect is not None and status == "analysis-error" and v.expect == "ANALYSIS-ERROR":
                results.append({"variant": vid, "status": "ok", "detail": "analysis error as expected"})
            else:
                failures.append(f"variant {vid}: {status}: {info}")
                results.append({"variant": vid, "status": "FAILED", "detail": f"{status}: {info}"})
            continue
        new = [(r, k, m) for (r, k, m) in findings if k not in base_keys]
        new_inc = [u for u in info if u not in base_inc]
        if v.expect is None:
            if getattr(v, "may_be_inconclusive", False) and not new:
                results.append({"variant": vid, "status": "ok", "detail": "twin: no finding (recorded as 'no verdict' for this check)" if new_inc else "twin stayed silent"})
                continue
            if new or new_inc:
                failures.append(f"behaviour-preserving twin {vid} raised {[k for _, k, _ in new] + new_inc}")
                results.append({"variant": vid, "status": "FAILED", "detail": "false alarm on a twin", "new": [k for _, k, _ in new], "inconclusive": new_inc})
            else:
                results.append({"variant": vid, "status": "ok", "detail": "twin stayed silent"})
            continue
        rule, _, sub = v.expect.partition("~")
        hit = [k for (r, k, m) in new if (rule == "*" or r == rule or r.startswith(rule + ".")) and (not sub or sub in k or sub in m)]
        if hit:
            results.append({"variant": vid, "status": "ok", "detected_by": hit[0], "why": v.why})
        else:
            failures.append(f"variant {vid} ({v.why}) was not reported by rule {v.expect}; new findings: {[k for _, k, _ in new]}; inconclusive: {new_inc}")
            results.append({"variant": vid, "status": "FAILED", "detail": "missed", "new": [k for _, k, _ in new], "inconclusive": new_inc})
    return {
        "variants": len(vs),
        "skipped": skipped,
        "passed": sum(1 for r in results if r["status"] == "ok"),
        "failures": failures,
        "results": results,
    }
