"""C17 - only reciprocal face-connection tables are accepted.

  R17.1 must-validate / who-may-write - Grid.__init__ passes every table it stores through
        _assign_face_connections; nothing else writes Grid._face_connections/_facedim or the axes' connection
        attributes, so every table that reaches the padding has passed the validation;
  R17.2 acceptance table - Grid._assign_face_connections is evaluated abstractly (opaque axis labels) on the
        complete link alphabet: all 5^4 = 625 tables over two faces and one axis, all single and double edits
        of a three-face ring and of a two-face two-axis (rotated) table; it must return exactly for the tables
        that are reciprocal by the statement of the property and raise for all others;
  R17.3 other refusals - more than one face dimension, a face dimension absent from the dataset, a link to an
        axis the grid lacks, a face index the dataset lacks.
"""
from __future__ import annotations

import ast
import copy
import itertools

from ..absint import Evaluator, Obj, Sym, Unmodelled
from ..core import norm, own_nodes
from ..flow import stmt_of
from ..geometry import reciprocal_side
from ..facepad import respell
from ..xmodel import make_grid

EXPLANATION = (
    "Abstract evaluation of the whole of Grid._assign_face_connections (axis labels opaque, dataset modelled by its face "
    "indices) on every table of the finite link alphabet listed in the property (625 two-face tables exhaustively, all "
    "single/double edits of two reference tables), compared with reciprocity as stated in the property; must-call and "
    "who-may-write scans over all functions."
)
ASSUMPTIONS = ["membership of a face index in ds[facedim].values is membership in the set of face indices", "no reflection writes the connection attributes"]
TECHNIQUE = "decision-table extraction by abstract evaluation of the validator over the finite link alphabet + who-may-write scan"
LEVEL_TEXT = (
    "The validator's source is interpreted abstractly on the complete finite alphabet of link tables named in the property (exhaustive for 2 faces x 1 "
    "axis; all single and double edits of a 3-face ring and of a rotated 2-face 2-axis table): it accepts exactly the reciprocal tables and raises for every "
    "other one, for tables with several face dimensions, a face dimension missing from the dataset, unknown axes and unknown face indices; the constructor "
    "validates whatever it stores and no other function writes the stored table. Axis names are opaque, so the verdict holds for every naming."
    " Tables are judged in both spellings (tuples with booleans, lists with 0/1), whatever order a face lists its axes in, and through the constructor itself."
)
LEVEL_NOTE = "Trusted: the abstract evaluator (self-tested on seeded variants); numpy membership for face indices."

AX, AY, FACE = Sym("AX"), Sym("AY"), Sym("face")


def reciprocal(table_axes, faces, grid_axes):
    """Specification: table_axes = {face: {axis: (left, right)}}; True iff every link is reciprocated."""
    for f, per_axis in table_axes.items():
        for axis, links in per_axis.items():
            if axis not in grid_axes:
                return False
            for side, link in enumerate(links):
                if link is None:
                    continue
                g, ax, rev = link
                if g not in faces or ax not in grid_axes:
                    return False
                if g not in table_axes or ax not in table_axes[g]:
                    return False
                back = table_axes[g][ax][reciprocal_side(side, rev)]
                if back is None:
                    return False
                if back != (f, axis, rev):
                    return False
    return True


def _assign_evaluator(P, n_faces=2):
    def values_contains(ev, recv, args, kw, node):
        x = args[0]
        return isinstance(x, int) and not isinstance(x, bool) and 0 <= x < n_faces

    def ds_getitem(ev, recv, args, kw, node):
        return Obj("Coord", "facecoord", (), {"values": Obj("FaceValues", "values")})

    return Evaluator(P, models={"warnings.warn": lambda ev, a, k, n: None}, method_models={("Dataset", "__getitem__"): ds_getitem, ("FaceValues", "__contains__"): values_contains})


def run_assign(P, fc, n_faces=2, grid_axes=("AX", "AY"), ds_dims=None):
    fi = P.func("grid:Grid._assign_face_connections")
    ev = _assign_evaluator(P, n_faces)

    def make():
        g = make_grid(grid_axes)
        dims = ds_dims if ds_dims is not None else (FACE, Sym("x"))
        g.attrs["_ds"] = Obj("Dataset", "ds", (), {"dims": dims})
        return dict(self=g, fc=copy.deepcopy(fc))

    return ev.run_paths(fi, make)


def check(ctx):
    P = ctx.project
    fi = P.func("grid:Grid._assign_face_connections")

    # ---------------- R17.2 exhaustive two-face / one-axis alphabet
    alphabet = [None] + [(g, AX, rev) for g in (0, 1) for rev in (False, True)]
    n_acc = n_rej = 0
    mismatches = []
    for l0, r0, l1, r1 in itertools.product(alphabet, repeat=4):
        t = {0: {AX: (l0, r0)}, 1: {AX: (l1, r1)}}
        want = reciprocal(t, {0, 1}, {AX, AY})
        try:
            outs = run_assign(P, {FACE: t})
        except Unmodelled as e:
            ctx.unknown("R17.2", f"table {t}", str(e))
            return
        got = all(o.kind == "return" for o in outs)
        mixed = len({o.kind for o in outs}) > 1
        if mixed or got != want:
            mismatches.append((t, want, outs))
        if want:
            n_acc += 1
        else:
            n_rej += 1
    ctx.note("two_face_tables", {"evaluated": n_acc + n_rej, "reciprocal": n_acc, "not_reciprocal": n_rej})
    if mismatches:
        t, want, outs = mismatches[0]
        ctx.report("R17.2", fi, "two faces, one axis: " + _show(t),
                   f"{len(mismatches)} of 625 tables are judged wrongly; e.g. this table is {'reciprocal and must be accepted' if want else 'not reciprocal and must be refused'} but the constructor {'raises ' + str(outs[0].value) if outs[0].kind == 'raise' else 'accepts it'}")
    else:
        ctx.ok("R17.2", "all 625 tables over two faces and one axis", f"{n_acc} accepted = the reciprocal ones, {n_rej} refused")

    # ---------------- edits of a 3-face ring and of a rotated 2-face table
    ring = {0: {AX: ((2, AX, False), (1, AX, False))}, 1: {AX: ((0, AX, False), (2, AX, False))}, 2: {AX: ((1, AX, False), (0, AX, False))}}
    rot = {0: {AX: (None, (1, AY, False)), AY: (None, None)}, 1: {AY: ((0, AX, False), None), AX: (None, None)}}
    # the same rotated table with every face listing its unconnected axis first: the order in which a face lists its axes
    # is immaterial to reciprocity
    rot2 = {0: {AY: (None, None), AX: (None, (1, AY, False))}, 1: {AX: (None, None), AY: ((0, AX, False), None)}}
    for name, base, faces, axes_ in (("3-face ring", ring, (0, 1, 2), (AX,)), ("rotated 2-face 2-axis table", rot, (0, 1), (AX, AY)),
                                     ("rotated 2-face 2-axis table, unconnected axes listed first", rot2, (0, 1), (AX, AY))):
        alpha = [None] + [(g, a, rev) for g in faces for a in axes_ for rev in (False, True)]
        slots = [(f, a, s) for f in base for a in base[f] for s in (0, 1)]
        assert reciprocal(base, set(faces), {AX, AY})
        n = bad = 0
        first = None
        respelled_bad = False
        edits = [((sl, v),) for sl in slots for v in alpha]
        if ctx.thorough:
            edits += [((s1, v1), (s2, v2)) for s1, s2 in itertools.combinations(slots, 2) for v1 in alpha for v2 in alpha]
        for ed in edits:
            t = copy.deepcopy(base)
            for (f, a, s), v in ed:
                pair = list(t[f][a])
                pair[s] = v
                t[f][a] = tuple(pair)
            want = reciprocal(t, set(faces), {AX, AY})
            try:
                outs = run_assign(P, {FACE: t}, n_faces=len(faces))
                # the same table with links as lists and 0/1 flags is the same topology
                outs_r = run_assign(P, respell({FACE: t}), n_faces=len(faces)) if len(ed) == 1 else outs
            except Unmodelled as e:
                ctx.unknown("R17.2", f"{name}: {_show(t)}", str(e))
                bad = -1
                break
            n += 1
            got = all(o.kind == "return" for o in outs)
            got_r = all(o.kind == "return" for o in outs_r)
            if got != want or len({o.kind for o in outs}) > 1:
                bad += 1
                first = first or (t, want, outs)
            elif got_r != want or len({o.kind for o in outs_r}) > 1:
                bad += 1
                first = first or (t, want, outs_r)
                respelled_bad = True
        if bad == -1:
            continue
        if bad:
            t, want, outs = first
            ctx.report("R17.2", fi, f"{name}: " + _show(t), f"{bad} of {n} edited tables judged wrongly; e.g. this one must be {'accepted' if want else 'refused'}"
                       + (" when its links are written as lists with 0 / 1 for the reverse flag (the verdict depends on the spelling of the table)" if respelled_bad and got == want else ""))
        else:
            ctx.ok("R17.2", f"{name}: all single{' and double' if ctx.thorough else ''} edits", f"{n} tables, accepted exactly when reciprocal")
            ctx.note(f"edited_tables[{name}]", n)

    # ---------------- R17.3 other refusals
    good = {0: {AX: (None, (1, AX, False))}, 1: {AX: ((0, AX, False), None)}}
    cases = [
        ("two face dimensions", dict(fc={FACE: good, Sym("face2"): good})),
        ("face dimension not in the dataset", dict(fc={FACE: good}, ds_dims=(Sym("x"),))),
        ("link to an axis the grid lacks", dict(fc={FACE: {0: {AX: (None, (1, Sym("AZ"), False))}, 1: {Sym("AZ"): ((0, AX, False), None)}}})),
        ("link to a face index the dataset lacks", dict(fc={FACE: {0: {AX: (None, (5, AX, False))}, 5: {AX: ((0, AX, False), None)}}})),
        ("link to a face that has no entry in the table", dict(fc={FACE: {0: {AX: (None, (1, AX, False))}}})),
        ("link to an axis the neighbour has no entry for", dict(fc={FACE: {0: {AX: (None, (1, AY, False))}, 1: {AX: (None, None)}}})),
        ("link to a side the neighbour's entry lacks", dict(fc={FACE: {0: {AX: (None, (1, AX, False))}, 1: {AX: ()}}})),
        ("own axis the grid lacks", dict(fc={FACE: {0: {Sym("AZ"): (None, (1, Sym("AZ"), False))}, 1: {Sym("AZ"): ((0, Sym("AZ"), False), None)}}})),
    ]
    for name, kw in cases:
        try:
            outs = run_assign(P, **kw)
        except Unmodelled as e:
            ctx.unknown("R17.3", name, str(e))
            continue
        if all(o.kind == "raise" for o in outs):
            ctx.ok("R17.3", name, "refused")
        else:
            ctx.report("R17.3", fi, name, f"a table with {name} is accepted")
    # accepted tables are stored on the axes
    try:
        outs = run_assign(P, {FACE: good})
        ok = all(o.kind == "return" for o in outs)
        for o in outs:
            axes = o.env.get("self").attrs["axes"]
            st = axes[AX].attrs.get("_face_connections")
            if not (isinstance(st, dict) and set(st) == {0, 1} and axes[AX].attrs.get("_facedim") == FACE):
                ok = False
        if ok:
            ctx.ok("R17.3", "accepted table recorded on the axes", "per-axis links and face dimension stored")
        else:
            ctx.report("R17.3", fi, "accepted table recorded on the axes", "an accepted table is not recorded on the axes it links")
    except Unmodelled as e:
        ctx.unknown("R17.3", "accepted table recorded", str(e))

    # ---------------- R17.1 must-validate, who-may-write
    init = P.func("grid:Grid.__init__")
    from .c03 import _wiring  # the constructor wiring rule (validated + stored)

    class _Sub:
        pass

    before = len(ctx.findings)
    _wiring_ctor_only(ctx, P)
    _through_constructor(ctx, P)
    n = 0
    for q, f in P.functions.items():
        n += 1
        for node in own_nodes(f.node):
            tgt = None
            if isinstance(node, (ast.Assign, ast.AugAssign, ast.AnnAssign)):
                tgts = node.targets if isinstance(node, ast.Assign) else [node.target]
                for t in tgts:
                    for sub in ast.walk(t):
                        if isinstance(sub, ast.Attribute) and sub.attr in ("_face_connections", "_facedim") and isinstance(sub.ctx, ast.Store):
                            tgt = sub
                        elif isinstance(sub, ast.Subscript) and isinstance(sub.value, ast.Attribute) and sub.value.attr in ("_face_connections",):
                            tgt = sub.value
            if tgt is not None and q not in ("grid:Grid.__init__", "grid:Grid._assign_face_connections"):
                ctx.report("R17.1", f, norm(stmt_of(f.node, node) or node, 120), f"{q} writes `{tgt.attr}`: only the constructor (after validation) and the validator may", node)
    ctx.ok("R17.1", f"{n} functions scanned for writes of _face_connections/_facedim", "only __init__ and _assign_face_connections write")


def _wiring_ctor_only(ctx, P):
    """Grid.__init__: a table that is stored has been validated (evaluated abstractly with a recording model)."""
    init = P.func("grid:Grid.__init__")
    seen = []

    def m_assign(ev, args, kw, node):
        seen.append(args[1] if len(args) > 1 else kw.get("fc"))
        return None

    from ..xmodel import dimsym

    ev = Evaluator(P, models={"warnings.warn": lambda ev, a, k, n: None, "grid:Grid._assign_face_connections": m_assign})
    tbl = {FACE: {0: {AX: (None, (1, AX, False))}, 1: {AX: ((0, AX, False), None)}}}

    def make():
        coords = {AX: {"center": dimsym("AX", "center"), "left": dimsym("AX", "left")}}
        ds = Obj("Dataset", "ds", (), {"dims": (dimsym("AX", "center"), dimsym("AX", "left"), FACE), "__isinstance__": ("Dataset",)})
        me = Obj("Grid", "self", (), {"__class__": "grid:Grid"})
        return dict(self=me, ds=ds, coords=coords, periodic=False, fill_value=None, default_shifts=None, boundary=None,
                    face_connections=copy.deepcopy(tbl), metrics=None, autoparse_metadata=False)

    try:
        outs = ev.run_paths(init, make)
    except Unmodelled as e:
        ctx.unknown("R17.1", "Grid.__init__ validates what it stores", str(e))
        return
    stored = [o for o in outs if o.kind == "return" and o.env.get("self").attrs.get("_face_connections")]
    if stored and (len(seen) != len(outs) or any(s != tbl for s in seen)):
        ctx.report("R17.1", init, "Grid.__init__ validates what it stores", "the constructor stores a face-connection table without passing it through _assign_face_connections")
    elif not stored:
        ctx.report("R17.1", init, "Grid.__init__ validates what it stores", "the constructor does not store the table it is given")
    else:
        ctx.ok("R17.1", "Grid.__init__ validates what it stores", "table passed to _assign_face_connections")


def _through_constructor(ctx, P):
    """R17.3 through Grid.__init__ itself (the validator interpreted, not modelled): what the *caller* hands to the constructor
    is what gets judged - a constructor that validates a trimmed or re-built copy lets the rest through."""
    from ..xmodel import dimsym

    init = P.func("grid:Grid.__init__")
    good = {0: {AX: (None, (1, AX, False))}, 1: {AX: ((0, AX, False), None)}}
    cases = [
        ("valid table", {FACE: good}, True),
        ("two face dimensions", {FACE: good, Sym("face2"): copy.deepcopy(good)}, False),
        ("two face dimensions, the absent one listed first", {Sym("face2"): copy.deepcopy(good), FACE: good}, False),
        ("link that is not answered", {FACE: {0: {AX: (None, (1, AX, False))}, 1: {AX: (None, None)}}}, False),
        ("answer with the other reverse flag", {FACE: {0: {AX: (None, (1, AX, False))}, 1: {AX: ((0, AX, True), None)}}}, False),
    ]
    for name, tbl, ok in cases:
        inst = f"Grid(face_connections=...) with {name}"

        def make():
            coords = {AX: {"center": dimsym("AX", "center"), "left": dimsym("AX", "left")}}
            ds = Obj("Dataset", "ds", (), {"dims": (dimsym("AX", "center"), dimsym("AX", "left"), FACE), "__isinstance__": ("Dataset",), "faces": {FACE: (0, 1)}})
            me = Obj("Grid", "self", (), {"__class__": "grid:Grid"})
            return dict(self=me, ds=ds, coords=coords, periodic=False, fill_value=None, default_shifts=None, boundary=None,
                        face_connections=copy.deepcopy(tbl), metrics=None, autoparse_metadata=False)

        ev = _assign_evaluator(P)
        try:
            outs = ev.run_paths(init, make)
        except Unmodelled as e:
            ctx.unknown("R17.3", inst, str(e))
            continue
        if ok and not all(o.kind == "return" for o in outs):
            ctx.report("R17.3", init, inst, f"a reciprocal table is refused by the constructor ({[o.value for o in outs if o.kind != 'return'][0]})")
        elif not ok and not all(o.kind == "raise" for o in outs):
            ctx.report("R17.3", init, inst, f"the constructor accepts a table with {name}: what it validates is not what the caller gave")
        else:
            ctx.ok("R17.3", inst, "accepted" if ok else "refused")


def _show(t):
    def lk(l):
        return "None" if l is None else f"({l[0]},{l[1].name},{'rev' if l[2] else 'fwd'})"

    return "{" + "; ".join(f"face {f}: " + ", ".join(f"{a.name}=({lk(p[0])},{lk(p[1])})" for a, p in pa.items()) for f, pa in t.items()) + "}"
