"""C06 - lazy (dask) execution equals in-memory execution (structural necessary conditions only).

  R06.1 no eager evaluation - no function reachable from the operation entry points (kernels excluded) applies
        an eager sink (.values, .to_numpy(), .compute(), .load(), .persist(), .item(), np.asarray/np.array of an
        argument, float/int/bool of an array expression) - call-graph reachability + sink scan, with a positive
        fixture that must be matched on every run;
  R06.2 refusal - with map_overlap, apply_as_grid_ufunc refuses every signature containing an inner or outer
        position (= the length-changing positions of the geometry model) and several outputs *before* mapping,
        padding or applying; otherwise the function handed to xr.apply_ufunc is the map_overlap wrapper built from
        the unpadded arguments;
  R06.3 dask-mode table of the 1-D dispatch (abstract evaluation, all forks): a lazy input never gets
        dask='forbidden', a chunked core dimension never gets 'parallelized', cumsum never gets map_overlap,
        in-memory data never gets map_overlap;
  R06.4 map_overlap wiring - depth = {numpy axis of the core dim: its boundary width}, boundary='none',
        trim=False, chunks = chunks of the unpadded transposed argument;
  R06.5 boundary-chunk merge - single chunk -> (lower + len + upper,), several -> (first + lower, *middle,
        last + upper) as linear forms;
  R06.6 vector inputs are unpacked before array-only attribute access on the lazy path.
Equality of computed values for every chunking / scheduler and laziness inside xarray/dask are runtime
behaviour and are not decided.
"""
from __future__ import annotations

import ast
import pathlib

from ..absint import TOP, Evaluator, Lin, Obj, Raised, Sym, Unmodelled
from ..callgraph import CallGraph
from ..core import norm, own_nodes
from ..geometry import POSITIONS, length_changing_positions
from ..harness import apply_attr_models, apply_models, da_attr_models, da_method_models, run_apply, run_dispatch
from ..xmodel import dimsym, make_da, make_grid

EXPLANATION = (
    "R06.1: call-graph reachability from the operation entry points + scan for eager sinks (0 expected, positive fixture "
    "matched). R06.2-R06.6: abstract evaluation of apply_as_grid_ufunc (25 position pairs with map_overlap), of the dispatch's "
    "dask-mode forks, of _map_func_over_core_dims and the closure it returns, of _get_chunk_pattern_for_merging_boundary with "
    "symbolic chunk sizes, and of the lazy-path helpers with vector-dictionary arguments."
)
ASSUMPTIONS = ["dask.array.map_overlap / xarray.apply_ufunc contracts", "numba/guvectorize kernels run per block", "values computed by dask equal numpy's (not decided here)"]
TECHNIQUE = "call-graph reachability + effect scan (eager sinks); decision-table extraction by abstract evaluation for the dask-mode, refusal, wiring and chunk-merge tables"
LEVEL_TEXT = (
    "Structural necessary conditions decided on the source: no eager-evaluation call on any path from the public operations (all reachable functions "
    "scanned); length-changing positions and multiple outputs are refused under map_overlap before any work; the dask mode chosen is never one xarray "
    "would reject for that input and cumsum is never mapped chunk-wise; map_overlap receives depth = boundary width on the right numpy axis, no "
    "boundary, no trim and the unpadded chunks; the boundary chunks created by padding are merged with exactly the pad widths; vector dictionaries are "
    "unpacked before array attributes are read; xarray.apply_ufunc is given what it needs to build a lazy result (dask mode, output dtypes, sizes of new core "
    "dimensions) by the grid-ufunc machinery and by both transform wrappers. Equality of computed values under every chunking/scheduler is runtime behaviour of dask and is not claimed."
)
LEVEL_TEXT += " Also decided: the refusal of length-changing positions covers every input and every axis of a signature; the per-axis dask mode is one of xarray's three words."
LEVEL_NOTE = "Trusted: dask/xarray contracts. Only the structural clauses are claimed; value equality under chunking is not applicable to static analysis."

ENTRY = [f"grid:Grid.{m}" for m in "diff interp min max cumsum derivative integrate average cumint apply_as_grid_ufunc transform interp_like get_metric diff_2d_vector interp_2d_vector".split()] + \
    ["grid_ufunc:apply_as_grid_ufunc", "grid_ufunc:GridUFunc.__call__", "padding:pad"]
EAGER_ATTRS = {"values"}
EAGER_CALLS = {"compute", "load", "persist", "item", "to_numpy", "tolist", "to_pandas", "to_series", "to_dataframe"}
EAGER_NP = {"asarray", "array", "asanyarray", "ascontiguousarray", "copyto"}
AX, AY = Sym("AX"), Sym("AY")


def eager_sinks(fn: ast.AST, params=None):
    """(node, description) for every eager-evaluation construct in one function body."""
    out = []
    pm = {}
    for p in ast.walk(fn):
        for c in ast.iter_child_nodes(p):
            pm[c] = p
    for n in own_nodes(fn):
        if isinstance(n, ast.Attribute) and n.attr in EAGER_ATTRS and isinstance(n.ctx, ast.Load):
            par = pm.get(n)
            if isinstance(par, ast.Call) and par.func is n:
                continue  # dict.values()
            out.append((n, f".{n.attr} materialises the array"))
        elif isinstance(n, ast.Call) and isinstance(n.func, ast.Attribute) and n.func.attr in EAGER_CALLS:
            out.append((n, f".{n.func.attr}() triggers a computation"))
        elif isinstance(n, ast.Call) and isinstance(n.func, ast.Attribute) and isinstance(n.func.value, ast.Name) and n.func.value.id in ("np", "numpy") and n.func.attr in EAGER_NP:
            if n.args and not isinstance(n.args[0], (ast.List, ast.Tuple, ast.Constant)):
                out.append((n, f"np.{n.func.attr}(...) of an array expression materialises it"))
        elif isinstance(n, ast.Call) and isinstance(n.func, ast.Name) and n.func.id in ("float", "int", "bool", "complex") and n.args:
            a = n.args[0]
            if isinstance(a, ast.Call) and isinstance(a.func, ast.Attribute) and a.func.attr in ("sum", "mean", "min", "max", "any", "all", "item", "prod"):
                out.append((n, f"{n.func.id}() of an array reduction triggers a computation"))
    return out


def check(ctx):
    P = ctx.project
    cg = CallGraph(P)
    # ---------------- R06.1
    reach = cg.reachable([q for q in ENTRY if q in P.functions])
    ctx.floor("R06.1", "functions reachable from the operation entry points", len(reach), 40)
    kernels = {q for q, f in P.functions.items() if any("guvectorize" in norm(d) for d in f.node.decorator_list)}
    kernels |= {q for q in P.functions if q.startswith("gridops:")} | {"transform:interp_1d_linear", "transform:interp_1d_conservative"}
    scanned = 0
    for q in sorted(reach - kernels):
        fi = P.functions[q]
        scanned += 1
        for node, why in eager_sinks(fi.node):
            path = None
            for root in ENTRY:
                pth = cg.path(root, q)
                if pth:
                    path = pth
                    break
            ctx.report("R06.1", fi, norm(node, 100), f"{why}; reachable from {path[0] if path else '?'}: a dask-backed input would be computed while the result is being built", node, path=path)
    ctx.ok("R06.1", f"{scanned} functions reachable from {len(ENTRY)} entry points scanned for eager sinks", "none found")
    fx = pathlib.Path(__file__).resolve().parent.parent / "fixtures" / "eager_example.py"
    try:
        t = ast.parse(fx.read_text())
        f0 = [n for n in t.body if isinstance(n, ast.FunctionDef)][0]
        nfx = len(eager_sinks(f0))
    except Exception as e:  # pragma: no cover
        nfx = 0
    ctx.floor("R06.1", "positive fixture sinks matched", nfx, 5)

    _refusal(ctx, P)
    _mode_table(ctx, P)
    _wiring(ctx, P)
    _chunk_merge(ctx, P)
    _merge_all_inputs(ctx, P)
    _chunked_test(ctx, P)
    _vector_lazy(ctx, P)
    _lazy_contract(ctx, P)
    _lazy_transform(ctx, P)
    _rechunk_decision(ctx, P)


def _lazy_contract(ctx, P):
    """R06.8: what xarray.apply_ufunc needs to build the lazy result without computing anything: `output_dtypes` (one per
    output) and, since the outputs have core dimensions the inputs lack, `dask_gufunc_kwargs['output_sizes']` naming every
    output core dimension with its length in the grid's dataset (documented contract of apply_ufunc(dask='parallelized'))."""
    fi = P.func("grid_ufunc:apply_as_grid_ufunc")
    cases = [
        ("(X:center)->(X:outer)", {"X": (1, 1)}, [dimsym("AX", "outer")], 1),
        ("(X:center)->(X:left),(X:right)", {"X": (1, 1)}, [dimsym("AX", "left"), dimsym("AX", "right")], 2),
        # the output keeps the input's core dimension: it is excluded (all core dimensions are), so its length must still be declared
        ("(X:center)->(X:center)", {"X": (1, 1)}, [dimsym("AX", "center")], 1),
        ("(X:center)->(X:center),(X:left)", {"X": (1, 1)}, [dimsym("AX", "center"), dimsym("AX", "left")], 2),
    ]
    for sig, bw, out_dims, nout in cases:
        inst = f"apply_ufunc arguments for lazy outputs, {sig}"
        try:
            outs = run_apply(P, sig, [(AX,)], boundary_width=bw, dask="parallelized")
        except Unmodelled as e:
            ctx.unknown("R06.8", inst, str(e))
            continue
        bad = None
        seen = 0
        for o in outs:
            if o.kind != "return":
                continue
            for e in o.events:
                if e[0] != "xr.apply_ufunc":
                    continue
                seen += 1
                kw = e[2]
                od = kw.get("output_dtypes")
                if not (isinstance(od, (list, tuple)) and len(od) == nout):
                    bad = bad or f"output_dtypes is {od!r}; one dtype per output ({nout}) is needed to build the lazy result"
                dg = kw.get("dask_gufunc_kwargs")
                sizes = dg.get("output_sizes") if isinstance(dg, dict) else None
                ex = kw.get("exclude_dims")
                icd = [d for arg in (kw.get("input_core_dims") or []) for d in arg]
                # apply_ufunc demands a declared length for an output core dimension that the inputs lack or that is excluded
                required = {d for d in out_dims if d not in icd or not isinstance(ex, (set, frozenset)) or d in ex}
                if not isinstance(sizes, dict) or not required <= set(sizes) or not set(sizes) <= set(out_dims):
                    bad = bad or f"dask_gufunc_kwargs['output_sizes'] names {sorted(map(repr, sizes)) if isinstance(sizes, dict) else sizes!r}; the output core dimensions {sorted(map(repr, required))} are new or excluded (their length changes) and must be given"
                elif not all(isinstance(v, Obj) and v.kind == "sizes" and v.eff and v.eff[-1][0] == "getitem" and v.eff[-1][1] == d for d, v in sizes.items()):
                    bad = bad or "an output size is not the length of that dimension in the grid's dataset"
                if kw.get("dask") != "parallelized":
                    bad = bad or f"the caller's dask mode does not reach apply_ufunc (dask={kw.get('dask')!r})"
        if not seen:
            bad = "xr.apply_ufunc is never reached"
        if bad:
            ctx.report("R06.8", fi, inst, bad)
        else:
            ctx.ok("R06.8", inst, "output_dtypes and output_sizes of every new core dimension, from the grid's dataset")


def _lazy_transform(ctx, P):
    """R06.8 for the two transform wrappers: their xarray.apply_ufunc call accepts lazy inputs (dask='parallelized'), names the
    output dtype, and - where a core dimension is created - its length."""
    from ..absint import FuncV

    if not P.has_func("transform:input_handling"):
        ctx.unknown("R06.8", "transform wrappers", "anchor transform:input_handling missing")
        return
    deco = P.func("transform:input_handling")
    for q, new_len in (("transform:linear_interpolation", None), ("transform:conservative_interpolation", Lin.sym("len_target") - Lin.of(1))):
        inst = f"apply_ufunc arguments of {q.split(':')[1]}"
        if not P.has_func(q):
            ctx.unknown("R06.8", inst, "anchor missing")
            continue
        raw = P.func(q)
        au = []

        def m_apply_ufunc(ev, args, kw, node, au=au):
            au.append((list(args), dict(kw)))
            ocd = kw.get("output_core_dims")
            return make_da("APPLIED", [Sym("t")] + list(ocd[0] if ocd else []))

        def rename(ev, recv, args, kw, node):
            m = dict(args[0]) if args and isinstance(args[0], dict) else {}
            return recv.with_eff(("rename", m), dims=tuple(m.get(d, d) for d in recv.attrs.get("dims", ())))

        mm = dict(da_method_models())
        mm[("DataArray", "rename")] = rename
        mm[("DataArray", "__len__")] = lambda ev, r, a, k, n: Lin.sym("len_target")
        am = dict(da_attr_models())
        am[("DataArray", "data")] = lambda ev, o, n: Obj("ndarray", o.name + ".data")
        am[("DataArray", "dtype")] = lambda ev, o, n: Sym("dtype_of_" + o.name)
        ev = Evaluator(P, models={"xarray.apply_ufunc": m_apply_ufunc}, method_models=mm, attr_models=am)
        try:
            wrapper = ev.call(FuncV(deco, deco.node, None, "transform"), [FuncV(raw, raw.node, None, "transform")], {}, None)
            ev.events, ev.decisions, ev._prefix, ev._pending = [], [], [], []
            ev.call(wrapper, [make_da("phi", [Sym("t"), Sym("zc")], name=Sym("phi_name")), make_da("theta", [Sym("t"), Sym("zo")]), make_da("levels", [Sym("lev")]), Sym("zc"), Sym("zo"), Sym("lev")], {}, None)
        except Unmodelled as e:
            ctx.unknown("R06.8", inst, str(e))
            continue
        except Raised as r:
            ctx.report("R06.8", raw, inst, f"a plain call of the wrapper raises {r.typ}" + (f" ({r.msg})" if r.msg else ""))
            continue
        except Exception as e:
            ctx.unknown("R06.8", inst, f"{type(e).__name__}: {e}")
            continue
        bad = None
        if len(au) != 1:
            bad = "xr.apply_ufunc is not called exactly once"
        else:
            kw = au[0][1]
            if kw.get("dask") != "parallelized":
                bad = f"dask={kw.get('dask', '<not given: forbidden>')!r}: a dask-backed input is refused instead of being transformed lazily"
            od = kw.get("output_dtypes")
            if not (isinstance(od, (list, tuple)) and len(od) == 1 and od[0] == Sym("dtype_of_phi")):
                bad = bad or f"output_dtypes={od!r}; the lazy result needs the dtype of the transformed data"
            ocd = kw.get("output_core_dims")
            icd = kw.get("input_core_dims")
            new_dims = [d for d in (ocd[0] if isinstance(ocd, (list, tuple)) and ocd else []) if not any(d in x for x in (icd or []))]
            if new_dims:
                dg = kw.get("dask_gufunc_kwargs")
                sizes = dg.get("output_sizes") if isinstance(dg, dict) else None
                if not isinstance(sizes, dict) or set(sizes) != set(new_dims):
                    bad = bad or f"the output gets the new core dimension {new_dims!r} but dask_gufunc_kwargs['output_sizes'] is {sizes!r}"
                elif new_len is not None and any(Lin.of(v) != new_len for v in sizes.values()):
                    bad = bad or f"declared length of the new dimension is {list(sizes.values())[0]!r}; the bins between len(target) bounds are len(target) - 1"
        if bad:
            ctx.report("R06.8", raw, inst, bad)
        else:
            ctx.ok("R06.8", inst, "dask='parallelized', output dtype of the data" + (", length of the new dimension" if new_len is not None else ""))


def _rechunk_decision(ctx, P):
    """R06.9: after padding, the lonely boundary chunks are merged exactly when a core dimension is chunked; every input
    reaches xarray.apply_ufunc (padded, in order), merged or not.  Observed through apply_as_grid_ufunc as a whole, so that
    how the work is divided among private helpers is immaterial."""
    fi = P.func("grid_ufunc:apply_as_grid_ufunc")
    dx, dy, t = dimsym("AX", "center"), dimsym("AY", "center"), Sym("t")
    one, two = (Lin.sym("n"),), (Lin.sym("n0"), Lin.sym("n1"))
    configs = [("in-memory", None, False), ("lazy, one chunk per dimension", {t: one, dy: one, dx: one}, False), ("lazy, chunked along the core dimension", {t: one, dy: one, dx: two}, True),
               ("lazy, chunked along a non-core dimension only", {t: two, dy: two, dx: one}, False)]
    for cname, chunks, want in configs:
        inst = f"pad then merge boundary chunks, {cname}"
        am = {}
        am[("DataArray", "chunks")] = (lambda ev, o, n, chunks=chunks: None if chunks is None else tuple(chunks[d] for d in (t, dy, dx)))
        am[("DataArray", "variable")] = (lambda ev, o, n, chunks=chunks: Obj("Variable", "variable", (), {"chunksizes": dict(chunks or {})}))
        am[("DataArray", "chunksizes")] = (lambda ev, o, n, chunks=chunks: dict(chunks or {}))
        try:
            outs = run_apply(P, "(X:center),(X:center)->(X:left)", [(AX,), (AX,)], args=lambda: (make_da("a", [t, dy, dx]), make_da("b", [t, dy, dx])),
                             boundary_width={"X": (1, 1)}, attr_models=am, dask="parallelized")
        except Unmodelled as e:
            ctx.unknown("R06.9", inst, str(e))
            continue
        bad = None
        seen = 0
        for o in outs:
            if o.kind != "return":
                bad = f"raises {o.value}"
                continue
            rc = [e for e in o.events if e[0] == "rechunk"]
            for e in o.events:
                if e[0] != "xr.apply_ufunc":
                    continue
                seen += 1
                v = list(e[1][1:])
                names = [x.name if isinstance(x, Obj) else x for x in v]
                ops = [[x_[0] for x_ in x.eff if x_[0] in ("PAD", "RECHUNK")] if isinstance(x, Obj) else None for x in v]
                if names != ["a", "b"]:
                    bad = f"xarray.apply_ufunc receives {v!r}; one padded array per input, in order, is expected"
                elif want and (not rc or not all(op == ["PAD", "RECHUNK"] for op in ops)):  # one merge call for all inputs, or one per input
                    bad = f"a chunked core dimension: the boundary chunks created by padding are not merged (operations {ops})"
                elif want and any(r[1].get("boundary_width_real_axes") != {AX: (1, 1)} for r in rc):
                    bad = "the merge is not told the widths that were padded"
                elif not want and (rc or not all(op == ["PAD"] for op in ops)):
                    bad = f"no core dimension is chunked, yet the arrays are re-chunked (operations {ops})"
        if not seen and not bad:
            bad = "xarray.apply_ufunc is never reached"
        if bad:
            ctx.report("R06.9", fi, inst, bad)
        else:
            ctx.ok("R06.9", inst, "merged" if want else "left as padded")
    # one lazy input chunked along the core dimension next to an in-memory one: the lazy one still needs the merge
    inst = "pad then merge boundary chunks, one lazy input chunked along the core dimension and one in-memory input"
    mixed = {"a": {t: one, dy: one, dx: two}, "b": None}
    am = {("DataArray", "chunks"): (lambda ev, o, n: None if mixed.get(o.name) is None else tuple(mixed[o.name][d] for d in (t, dy, dx))),
          ("DataArray", "variable"): (lambda ev, o, n: Obj("Variable", "variable", (), {"chunksizes": dict(mixed.get(o.name) or {})})),
          ("DataArray", "chunksizes"): (lambda ev, o, n: dict(mixed.get(o.name) or {}))}
    try:
        outs = run_apply(P, "(X:center),(X:center)->(X:left)", [(AX,), (AX,)], args=lambda: (make_da("a", [t, dy, dx]), make_da("b", [t, dy, dx])),
                         boundary_width={"X": (1, 1)}, attr_models=am, dask="parallelized")
        bad, seen = None, 0
        for o in outs:
            if o.kind != "return":
                bad = f"raises {o.value}"
                continue
            for e in o.events:
                if e[0] != "xr.apply_ufunc":
                    continue
                seen += 1
                lazy = [x for x in e[1][1:] if isinstance(x, Obj) and x.name == "a"]
                if len(lazy) != 1 or [x_[0] for x_ in lazy[0].eff if x_[0] in ("PAD", "RECHUNK")] != ["PAD", "RECHUNK"]:
                    bad = "the lazy input keeps the lonely boundary chunks created by padding: xarray.apply_ufunc refuses a core dimension in several chunks"
        if not seen and not bad:
            bad = "xarray.apply_ufunc is never reached"
        if bad:
            ctx.report("R06.9", fi, inst, bad)
        else:
            ctx.ok("R06.9", inst, "merged")
    except Unmodelled as e:
        ctx.unknown("R06.9", inst, str(e))
    # pad after the function (cumsum): the decision is taken on the *results*, whose core dimension is the output's
    dout = dimsym("AX", "outer")
    for cname, lazy, chunked in (("in-memory", False, False), ("lazy, result in one chunk per dimension", True, False), ("lazy, result chunked along its core dimension", True, True)):
        inst = f"pad after the function, then merge boundary chunks, {cname}"

        def sizes(o, lazy=lazy, chunked=chunked):
            return {d: (two if (chunked and d == dout) else one) for d in o.attrs.get("dims", ())} if lazy else {}

        am = {("DataArray", "chunks"): (lambda ev, o, n, lazy=lazy: tuple(sizes(o).values()) if lazy else None),
              ("DataArray", "variable"): (lambda ev, o, n: Obj("Variable", "variable", (), {"chunksizes": sizes(o)})),
              ("DataArray", "chunksizes"): (lambda ev, o, n: sizes(o))}
        try:
            outs = run_apply(P, "(X:center)->(X:outer)", [(AX,)], args=lambda: (make_da("a", [t, dy, dx]),), boundary_width={"X": (1, 0)}, pad_before_func=False,
                             attr_models=am, dask="parallelized")
        except Unmodelled as e:
            ctx.unknown("R06.9", inst, str(e))
            continue
        bad = None
        for o in outs:
            if o.kind != "return":
                bad = f"raises {o.value}" + (f" ({o.exc.msg})" if getattr(o.exc, "msg", None) else "") + ": the test for chunked core dimensions must look at the dimensions of the result"
                continue
            rc = [e for e in o.events if e[0] == "rechunk"]
            if chunked and not rc:
                bad = "the result is chunked along its core dimension, yet the boundary chunks created by padding it are not merged"
            elif not chunked and rc:
                bad = "no core dimension of the result is chunked, yet it is re-chunked"
        if bad:
            ctx.report("R06.9", fi, inst, bad)
        else:
            ctx.ok("R06.9", inst, "merged" if chunked else "left as padded")


def _refusal(ctx, P):
    fi = P.func("grid_ufunc:apply_as_grid_ufunc")
    changing = set(length_changing_positions())
    try:
        dis = P.const("grid_ufunc", "DISALLOWED_OVERLAP_POSITIONS")
    except Exception:
        dis = None
    for fr in POSITIONS:
        for to in POSITIONS:
            inst = f"map_overlap with ({fr})->({to})"
            try:
                outs = run_apply(P, f"(X:{fr})->(X:{to})", [(AX,)], args=lambda fr=fr: (make_da("da", [Sym("t"), dimsym("AX", fr)]),), boundary_width={"X": (1, 0)}, map_overlap=True)
            except Unmodelled as e:
                ctx.unknown("R06.2", inst, str(e))
                continue
            must_refuse = fr in changing or to in changing
            bad = None
            for o in outs:
                did_work = [e[0] for e in o.events if e[0] in ("pad", "xr.apply_ufunc", "map_func_over_core_dims")]
                if must_refuse:
                    if o.kind != "raise" or o.value != "NotImplementedError":
                        bad = f"a signature with a length-changing position is {'answered' if o.kind == 'return' else 'refused with ' + str(o.value)} under map_overlap; it must be refused with NotImplementedError"
                    elif did_work:
                        bad = f"refused only after {did_work}"
                else:
                    if o.kind != "return":
                        bad = f"refused ({o.value}) although neither position changes the length"
                        continue
                    mp = [e for e in o.events if e[0] == "map_func_over_core_dims"]
                    au = [e for e in o.events if e[0] == "xr.apply_ufunc"]
                    if len(mp) != 1 or len(au) != 1:
                        bad = "the function is not wrapped for map_overlap exactly once"
                        continue
                    b = mp[0][1]
                    fed = au[0][1][0]
                    if not (isinstance(fed, Obj) and fed.name == "mapped_func"):
                        bad = "xr.apply_ufunc is given the bare function instead of the map_overlap wrapper"
                    oa = b.get("original_args")
                    if not (isinstance(oa, (list, tuple)) and len(oa) == 1 and isinstance(oa[0], Obj) and oa[0].name == "da" and not any(e[0] == "PAD" for e in oa[0].eff)):
                        bad = bad or "the map_overlap wrapper is not built from the original (unpadded) arguments"
                    if b.get("boundary_width_real_axes") != {AX: (1, 0)}:
                        bad = bad or f"the wrapper receives widths {b.get('boundary_width_real_axes')!r}"
                    icd = b.get("in_core_dims")
                    if not (isinstance(icd, (list, tuple)) and [list(x) if isinstance(x, (list, tuple)) else x for x in icd] == [[dimsym("AX", fr)]]):
                        bad = bad or f"the wrapper is told the core dimensions {icd!r}; the blocks it maps over are the inputs', whose core dimension is {dimsym('AX', fr)!r}"
            if bad:
                ctx.report("R06.2", fi, inst, bad)
            else:
                ctx.ok("R06.2", inst, "refused before any work" if must_refuse else "mapped with the unpadded arguments")
    if dis is not None:
        if set(dis) != changing:
            ctx.report("R06.2", "grid_ufunc:_check_if_length_would_change", "DISALLOWED_OVERLAP_POSITIONS", f"the refused positions {sorted(dis)} differ from the length-changing positions of the geometry model {sorted(changing)}")
        else:
            ctx.ok("R06.2", "DISALLOWED_OVERLAP_POSITIONS", f"= length-changing positions {sorted(changing)}")
    # a length-changing position anywhere in the signature: on a later input, on the second axis of an input, with no output axis at all
    many = [("second of two inputs on outer", "(X:center),(X:outer)->(X:center)", [(AX,), (AX,)], lambda: (make_da("a", [Sym("t"), dimsym("AX", "center")]), make_da("b", [Sym("t"), dimsym("AX", "outer")])), {"X": (1, 0)}, True),
            ("third of three inputs on inner", "(X:center),(X:left),(X:inner)->(X:center)", [(AX,), (AX,), (AX,)],
             lambda: (make_da("a", [dimsym("AX", "center")]), make_da("b", [dimsym("AX", "left")]), make_da("c", [dimsym("AX", "inner")])), {"X": (1, 0)}, True),
            ("second axis of one input on outer", "(X:center,Y:outer)->(X:left,Y:center)", [(AX, AY)], lambda: (make_da("a", [dimsym("AX", "center"), dimsym("AY", "outer")]),), {"X": (1, 0), "Y": (0, 0)}, True),
            ("input on outer, output without axes", "(X:outer)->()", [(AX,)], lambda: (make_da("a", [Sym("t"), dimsym("AX", "outer")]),), {"X": (0, 0)}, True),
            ("two inputs on centre and left", "(X:center),(X:left)->(X:center)", [(AX,), (AX,)], lambda: (make_da("a", [Sym("t"), dimsym("AX", "center")]), make_da("b", [Sym("t"), dimsym("AX", "left")])), {"X": (1, 0)}, False)]
    for name, sig, axis, mk, bw, must_refuse in many:
        inst = f"map_overlap with {sig} ({name})"
        try:
            outs = run_apply(P, sig, axis, args=mk, boundary_width=bw, map_overlap=True)
        except Unmodelled as e:
            ctx.unknown("R06.2", inst, str(e))
            continue
        bad = None
        for o in outs:
            did_work = [e[0] for e in o.events if e[0] in ("pad", "xr.apply_ufunc", "map_func_over_core_dims")]
            if must_refuse and (o.kind != "raise" or o.value != "NotImplementedError"):
                bad = f"a signature with a length-changing position ({name}) is {'answered' if o.kind == 'return' else 'refused with ' + str(o.value)} under map_overlap; it must be refused with NotImplementedError"
            elif must_refuse and did_work:
                bad = f"refused only after {did_work}"
            elif not must_refuse and o.kind != "return":
                bad = f"refused ({o.value}) although no position changes the length"
        if bad:
            ctx.report("R06.2", fi, inst, bad)
        else:
            ctx.ok("R06.2", inst, "refused before any work" if must_refuse else "mapped")
    # several outputs
    try:
        outs = run_apply(P, "(X:center)->(X:left),(X:right)", [(AX,)], boundary_width={"X": (1, 1)}, map_overlap=True)
        if all(o.kind == "raise" for o in outs):
            ctx.ok("R06.2", "map_overlap with two outputs", "refused")
        else:
            ctx.report("R06.2", fi, "map_overlap with two outputs", "several outputs are mapped chunk-wise although dask.map_overlap returns one array")
    except Unmodelled as e:
        ctx.unknown("R06.2", "map_overlap with two outputs", str(e))


def _mode_table(ctx, P):
    """R06.3: the dispatch is evaluated on *concrete* modelled chunkings (nothing is read off the text of a condition):
    per axis call the dask mode and the map_overlap flag handed to the grid ufunc must fit that axis' own chunking."""
    fi = P.func("grid:Grid._1d_grid_ufunc_dispatch")
    dx, dy, t = dimsym("AX", "center"), dimsym("AY", "center"), Sym("t")
    one, two = (Lin.sym("n"),), (Lin.sym("n0"), Lin.sym("n1"))
    configs = [
        ("in-memory", None),
        ("lazy, one chunk per dimension", {t: one, dy: one, dx: one}),
        ("lazy, chunked along AX only", {t: one, dy: one, dx: two}),
        ("lazy, chunked along AY only", {t: one, dy: two, dx: one}),
        ("lazy, chunked along AX and AY", {t: one, dy: two, dx: two}),
        ("lazy, chunked along a non-core dimension only", {t: two, dy: one, dx: one}),
    ]
    from ..registry import gridufunc_attrs

    gu_defaults = gridufunc_attrs(P, {})
    for funcname in ("diff", "cumsum"):
        rows = set()
        bad = None
        for cname, chunks in configs:
            for order in ([AX, AY], [AY, AX]):
                lazy = chunks is not None
                am = {
                    ("DataArray", "chunks"): (lambda ev, o, n, chunks=chunks: None if chunks is None else tuple(chunks[d] for d in (t, dy, dx))),
                    ("DataArray", "data"): (lambda ev, o, n, lazy=lazy: Obj("array", "data", (), {"__isinstance__": ("Array",) if lazy else ("ndarray",)})),
                    ("DataArray", "variable"): (lambda ev, o, n, chunks=chunks: Obj("Variable", "variable", (), {"chunksizes": dict(chunks or {}), "chunks": None if chunks is None else tuple(chunks[d] for d in (t, dy, dx))})),
                    ("DataArray", "chunksizes"): (lambda ev, o, n, chunks=chunks: dict(chunks or {})),
                }
                inst = f"dask-mode table ({funcname}), {cname}, axes {[a.name for a in order]}"
                try:
                    outs = run_dispatch(P, funcname, {"AX": "center", "AY": "center"}, "left", axnames=("AX", "AY"), axis_arg=list(order),
                                        dims=[t, dy, dx], attr_models=am)
                except Unmodelled as e:
                    ctx.unknown("R06.3", inst, str(e))
                    continue
                for o in outs:
                    if o.kind != "return":
                        bad = bad or f"{cname}: the dispatch raises {o.value}"
                        continue
                    ufs = [e for e in o.events if e[0] == "ufunc"]
                    if len(ufs) != 2:
                        bad = bad or f"{cname}: {len(ufs)} grid-ufunc calls for two axes"
                        continue
                    for ax, u in zip(order, ufs):
                        # an option the dispatch does not pass takes the value the (predefined) grid ufunc has bound
                        kw = {**gu_defaults, **u[4]}
                        chunked = lazy and len(chunks[dx if ax == AX else dy]) > 1
                        rows.add((lazy, chunked, kw.get("dask"), kw.get("map_overlap")))
                        where = f"{cname}, axis {ax.name} of {[a.name for a in order]}: "
                        if kw.get("dask") not in ("forbidden", "allowed", "parallelized"):
                            bad = bad or where + f"the per-axis call is made with dask={kw.get('dask')!r}: xarray.apply_ufunc knows 'forbidden', 'allowed' and 'parallelized' only (it raises for anything else as soon as the input is dask-backed)"
                        if kw.get("map_overlap") not in (True, False, None):
                            bad = bad or where + f"the per-axis call is made with map_overlap={kw.get('map_overlap')!r}, which is not a truth value chosen by the dispatch"
                        if lazy and kw.get("dask") == "forbidden":
                            bad = bad or where + "a dask-backed input is applied with dask='forbidden' (xarray raises)"
                        if chunked and kw.get("dask") == "parallelized":
                            bad = bad or where + "a core dimension with several chunks is applied with dask='parallelized' (xarray refuses chunked core dimensions)"
                        if funcname == "cumsum" and kw.get("map_overlap"):
                            bad = bad or where + "cumsum is mapped chunk-wise with map_overlap (a running sum cannot be formed from a fixed overlap)"
                        if not chunked and kw.get("map_overlap"):
                            bad = bad or where + "an axis whose core dimension is not chunked is mapped with map_overlap (a decision made for another axis is carried over): inner/outer shifts along it are then refused although they are fine"
                        if not lazy and kw.get("map_overlap"):
                            bad = bad or where + "in-memory data is sent through dask.map_overlap"
                        if chunked and funcname != "cumsum" and not kw.get("map_overlap"):
                            bad = bad or where + "a chunked core dimension is neither mapped with map_overlap nor refused"
        ctx.note(f"dask_mode_rows[{funcname}]", sorted(map(repr, rows)))
        if bad:
            ctx.report("R06.3", fi, f"dask-mode table ({funcname})", bad)
        elif len(rows) < 3:
            ctx.unknown("R06.3", f"dask-mode table ({funcname})", f"only {len(rows)} table rows reconstructed")
        else:
            ctx.ok("R06.3", f"dask-mode table ({funcname})", f"{len(configs)} chunkings x 2 axis orders, {len(rows)} distinct rows: " + "; ".join(sorted(map(repr, rows))))


def _mentions(v, target, depth=0) -> bool:
    """Does the value (text parts, call lineages, containers) depend on the object `target`?"""
    from ..absint import Text

    if v is target:
        return True
    if depth > 6:
        return False
    if isinstance(v, Text):
        return any(_mentions(x, target, depth + 1) for x in v.parts)
    if isinstance(v, (list, tuple, set, frozenset)):
        return any(_mentions(x, target, depth + 1) for x in v)
    if isinstance(v, dict):
        return any(_mentions(x, target, depth + 1) for x in list(v.keys()) + list(v.values()))
    if isinstance(v, Obj):
        return any(_mentions(x, target, depth + 1) for e in v.eff for x in e[1:])
    return False


def _wiring(ctx, P):
    fi = P.func("grid_ufunc:_map_func_over_core_dims")
    calls = []

    def m_overlap(ev, args, kw, node):
        calls.append((list(args), dict(kw)))
        call_nodes.append(node)
        return Obj("dask", "mapped-array")

    call_nodes = []

    def name_depends_on_blocks(node):
        """Syntactic fallback for a `name=` / `token=` whose value the evaluator cannot follow: does the expression (through the
        plain assignments of the enclosing functions) use the wrapper's own arguments, i.e. the blocks?"""
        kwn = next((k.value for k in getattr(node, "keywords", []) if k.arg in ("name", "token")), None)
        if kwn is None:
            return True
        inner = [f for f in ast.walk(fi.node) if isinstance(f, (ast.FunctionDef, ast.Lambda)) and f is not fi.node and any(n is node for n in ast.walk(f))]
        params = set()
        for f in inner:
            a = f.args
            params |= {x.arg for x in a.posonlyargs + a.args + a.kwonlyargs} | ({a.vararg.arg} if a.vararg else set())
        assigns = {}
        for n in ast.walk(fi.node):
            if isinstance(n, ast.Assign) and len(n.targets) == 1 and isinstance(n.targets[0], ast.Name):
                assigns.setdefault(n.targets[0].id, []).append(n.value)
        seen, todo = set(), [kwn]
        while todo:
            ex = todo.pop()
            for n in ast.walk(ex):
                if isinstance(n, ast.Name) and n.id not in seen:
                    seen.add(n.id)
                    todo.extend(assigns.get(n.id, []))
        return bool(seen & params)

    def transpose(ev, recv, args, kw, node):
        dims = recv.attrs.get("dims")
        rest = [a for a in args if a is not Ellipsis]
        new = tuple(d for d in dims if d not in rest) + tuple(rest) if Ellipsis in args else tuple(rest)
        return recv.with_eff(("transpose", tuple(args)), dims=new)

    def get_axis_num(ev, recv, args, kw, node):
        return list(recv.attrs["dims"]).index(args[0])

    def variable(ev, o, n):
        return Obj("Variable", "variable", (), {"chunksizes": {d: Sym(f"chunks({o.name},{d.name})") for d in o.attrs["dims"]}, "of": o})

    mm = dict(da_method_models())
    mm[("DataArray", "transpose")] = transpose
    mm[("DataArray", "get_axis_num")] = get_axis_num
    am = dict(da_attr_models())
    am[("DataArray", "variable")] = variable
    for dims, core, widths in (([dimsym("AX", "center"), Sym("t"), dimsym("AY", "center")], [[dimsym("AX", "center")]], {AX: (1, 0)}),
                               ([Sym("t"), dimsym("AY", "center"), dimsym("AX", "center")], [[dimsym("AY", "center"), dimsym("AX", "center")]], {AX: (1, 2), AY: (0, 1)}),
                               # stored (y, x) while the signature lists (X, Y): apply_ufunc hands the blocks over as (..., x, y)
                               ([Sym("t"), dimsym("AY", "center"), dimsym("AX", "center")], [[dimsym("AX", "center"), dimsym("AY", "center")]], {AX: (1, 2), AY: (0, 1)})):
        inst = f"map_overlap wiring, dims {[d.name for d in dims]}, core {[d.name for d in core[0]]}"
        calls.clear()
        ev = Evaluator(P, models={"dask.array.map_overlap": m_overlap}, method_models=mm, attr_models=am)
        try:
            da = make_da("da", dims)
            outs = ev.run_paths(fi, lambda: dict(func=Obj("func", "userfunc"), original_args=[da], grid=make_grid(("AX", "AY")), in_core_dims=core,
                                                 boundary_width_real_axes=dict(widths), out_dtypes=[Sym("dtype")]))
            bad = None
            for o in outs:
                if o.kind != "return":
                    bad = f"raises {o.value}"
                    continue
                calls.clear()
                blk = Obj("dask", "block")
                ev.call(o.value, [blk], {"user_kw": Sym("KW")}, None)
                if len(calls) != 1:
                    bad = "the wrapper does not call dask.array.map_overlap exactly once"
                    continue
                a, kw = calls[0]
                tdims = [d for d in dims if d not in core[0]] + core[0]
                want_depth = {tdims.index(dimsym(ax.name, "center")): w for ax, w in widths.items()}
                if not (len(a) == 2 and isinstance(a[0], Obj) and a[0].name == "userfunc" and a[1] is blk) or kw.get("user_kw") != Sym("KW"):
                    bad = "the user function / block arguments / keyword arguments are not handed to map_overlap unchanged"
                elif kw.get("depth") != want_depth:
                    bad = f"depth={kw.get('depth')!r}; expected the boundary width on the numpy axis of each core dimension after moving core dims last: {want_depth!r}"
                elif kw.get("boundary") != "none":
                    bad = f"boundary={kw.get('boundary')!r}: dask would pad the chunks again (must be 'none', xgcm padded already)"
                elif kw.get("trim") is not False:
                    bad = f"trim={kw.get('trim')!r}: dask would cut the overlap off the result although the grid ufunc trims itself"
                elif any(k_ in kw for k_ in ("name", "token")) and not (_mentions(kw.get("name", kw.get("token")), blk) or (kw.get("name", kw.get("token")) is TOP and name_depends_on_blocks(call_nodes[-1]))):
                    # dask derives the keys of the mapped blocks from the function and the *input arrays*; a name given by hand
                    # that does not depend on the blocks makes two different fields with the same layout share their keys
                    bad = f"map_overlap is given a fixed name ({kw.get('name', kw.get('token'))!r}) that does not depend on the input blocks: lazy results of different fields with the same chunking collide in one graph"
                else:
                    ch = kw.get("chunks")
                    want = tuple(Sym(f"chunks(da,{d.name})") for d in tdims)
                    if ch != want:
                        bad = f"chunks={ch!r}; expected the chunks of the unpadded argument in transposed order {want!r}"
            if bad:
                ctx.report("R06.4", fi, inst, bad)
            else:
                ctx.ok("R06.4", inst, "depth on the core dims' numpy axes, boundary='none', trim=False, unpadded chunks")
        except Unmodelled as e:
            ctx.unknown("R06.4", inst, str(e))


def _chunk_merge(ctx, P):
    lo, hi = Lin.sym("lo"), Lin.sym("hi")
    c = [Lin.sym(f"c{i}") for i in range(4)]
    dim = dimsym("AX", "center")
    cases = [("one chunk", (c[0],), (lo + c[0] + hi,)), ("two chunks", (c[0], c[1]), (c[0] + lo, c[1] + hi)), ("four chunks", tuple(c), (c[0] + lo, c[1], c[2], c[3] + hi))]
    if not _takes(P, "grid_ufunc:_get_chunk_pattern_for_merging_boundary", ("grid", "da", "original_chunks", "boundary_width_real_axes")):
        # no such helper in this tree: the pattern is read off the arrays apply_as_grid_ufunc hands to xr.apply_ufunc
        for name, chunks, _ in cases:
            wl, wh = 1, 2
            want = (Lin.of(wl) + chunks[0] + Lin.of(wh),) if len(chunks) == 1 else (chunks[0] + Lin.of(wl),) + tuple(chunks[1:-1]) + (chunks[-1] + Lin.of(wh),)
            try:
                afi, outs = merge_through_apply(P, {"a": chunks, "b": (Lin.sym("b0"), Lin.sym("b1"))}, widths_x=(wl, wh))
                bad = None
                for o in outs:
                    ch = [e for e in o.value[0].eff if e[0] == "chunk"]
                    pat = ch[-1][1] if ch else None
                    got = tuple(pat.get(dim, ())) if isinstance(pat, dict) else None
                    if got is None or len(got) != len(want) or any(Lin.of(g) != Lin.of(w) for g, w in zip(got, want)):
                        bad = f"new chunks {got!r}; expected {want!r} (boundary chunks merged into the first and last chunk)"
                    elif Sym("t") in pat:
                        bad = "chunk pattern also given for an unpadded dimension (only padded dimensions are rechunked)"
                if bad:
                    ctx.report("R06.5", afi, f"chunk merge, {name}", bad)
                else:
                    ctx.ok("R06.5", f"chunk merge, {name}", f"{chunks} -> {want} (through apply_as_grid_ufunc)")
            except Unmodelled as e:
                ctx.unknown("R06.5", f"chunk merge, {name}", str(e))
        return
    fi = P.func("grid_ufunc:_get_chunk_pattern_for_merging_boundary")
    for name, chunks, want in cases:
        ev = Evaluator(P, attr_models=da_attr_models())
        try:
            outs = ev.run_paths(fi, lambda: dict(grid=make_grid(("AX", "AY")), da=make_da("padded", [Sym("t"), dim]), original_chunks={dim: chunks, Sym("t"): (Lin.sym("ct"),)},
                                                 boundary_width_real_axes={AX: (lo, hi)}))
            bad = None
            for o in outs:
                if o.kind != "return":
                    bad = f"raises {o.value}"
                elif not isinstance(o.value, dict) or dim not in o.value:
                    bad = f"returns {o.value!r}"
                else:
                    got = tuple(o.value[dim])
                    if len(got) != len(want) or any(Lin.of(g) != Lin.of(w) for g, w in zip(got, want)):
                        bad = f"new chunks {got!r}; expected {want!r} (boundary chunks merged into the first and last chunk)"
                    elif set(o.value) != {dim}:
                        bad = f"chunk pattern also given for {set(o.value) - {dim}} (only padded dimensions are rechunked)"
            if bad:
                ctx.report("R06.5", fi, f"chunk merge, {name}", bad)
            else:
                ctx.ok("R06.5", f"chunk merge, {name}", f"{chunks} -> {want}")
        except Unmodelled as e:
            ctx.unknown("R06.5", f"chunk merge, {name}", str(e))


def _takes(P, q, params):
    """Is `q` a function of the tree taking (at least) the named parameters?"""
    if not P.has_func(q):
        return False
    a = P.func(q).node.args
    return set(params) <= {x.arg for x in a.posonlyargs + a.args + a.kwonlyargs}


class _Out:
    kind = "return"

    def __init__(self, value):
        self.value = value


def merge_through_apply(P, chunks_x, widths_x=(1, 2), widths_y=(0, 3)):
    """The boundary-chunk merge as apply_as_grid_ufunc performs it, whatever private helpers it is divided into: two inputs
    `a`, `b` chunked as chunks_x = {"a": (...), "b": (...)} along the first padded dimension and in two chunks (y0, y1) along
    the second, padded by widths_x / widths_y.  Returns, per evaluated path on which the arrays are re-chunked, the lineage
    of [a, b] after the padding as arrays named `pa`, `pb` (the form run_merge_all returns)."""
    dim, dim_y = dimsym("AX", "center"), dimsym("AY", "center")
    chunks_y = (Lin.sym("y0"), Lin.sym("y1"))

    def variable(ev, o, n):
        if o.name in chunks_x and not o.eff:
            return Obj("Variable", "variable", (), {"chunksizes": {dim: chunks_x[o.name], dim_y: chunks_y, Sym("t"): (Lin.sym("ct"),)}})
        return Obj("Variable", o.name, o.eff + (("variable",),), dict(o.attrs))

    def chunk(ev, recv, args, kw, node):
        return recv.with_eff(("chunk", args[0] if args else kw.get("chunks", kw)))

    def m_new_da(ev, args, kw, node):
        src = args[0] if args else kw.get("data")
        if not (isinstance(src, Obj) and src.kind == "Variable" and src.eff):
            raise Unmodelled(f"xr.DataArray({src!r})", node)
        return Obj("DataArray", src.name, src.eff + (("new-DataArray", kw.get("name")),), dict(src.attrs))

    am = apply_attr_models()
    am[("DataArray", "variable")] = variable
    mm = dict(da_method_models())
    mm[("DataArray", "chunk")] = chunk
    mm[("Variable", "chunk")] = chunk
    models = apply_models(record_rechunk=False)
    models["xarray.DataArray"] = m_new_da
    ev = Evaluator(P, models=models, attr_models=am, method_models=mm)
    fi = P.func("grid_ufunc:apply_as_grid_ufunc")
    AY = Sym("AY")

    def make():
        return dict(func=Obj("func", "userfunc"), args=(make_da("a", [Sym("t"), dim_y, dim], name=Sym("name_of_pa")), make_da("b", [Sym("t"), dim_y, dim], name=Sym("name_of_pb"))),
                    axis=[(AY, AX), (AY, AX)], grid=make_grid(("AX", "AY")), signature="(Y:center,X:center),(Y:center,X:center)->(Y:center,X:center)",
                    boundary_width={"X": tuple(widths_x), "Y": tuple(widths_y)}, boundary=Sym("USER_BOUNDARY"), fill_value=Sym("USER_FILL"), keep_coords=Sym("USER_KEEP"),
                    dask=Sym("USER_DASK"), map_overlap=False, pad_before_func=True, other_component=None, kwargs={})

    res = []
    for o in ev.run_paths(fi, make):
        if o.kind != "return":
            continue
        for e in o.events:
            if e[0] != "xr.apply_ufunc":
                continue
            data = [v for v in e[1][1:] if isinstance(v, Obj)]
            if [v.name for v in data] != ["a", "b"] or not any(x[0] == "chunk" for v in data for x in v.eff):
                continue
            vals = []
            for v in data:
                k = max((i for i, x in enumerate(v.eff) if x[0] == "PAD"), default=-1)
                vals.append(Obj("DataArray", "p" + v.name, tuple(v.eff[k + 1:]), dict(v.attrs)))
            res.append(_Out(vals))
    if not res:
        raise Unmodelled("apply_as_grid_ufunc never re-chunks its padded inputs on the evaluated paths (no boundary-chunk merge found)", None)
    return fi, res


def run_merge_all(P):
    """Evaluate _rechunk_to_merge_in_boundary_chunks on two padded inputs `pa`, `pb` whose originals `a`, `b` are chunked
    differently.  A re-wrapped array (`xr.DataArray(x.variable ...)`) keeps its label and lineage, marked `new-DataArray`."""
    dim = dimsym("AX", "center")
    dim_y = dimsym("AY", "center")
    chunks = {"a": (Lin.sym("a0"), Lin.sym("a1")), "b": (Lin.sym("b0"), Lin.sym("b1"), Lin.sym("b2"))}
    if not _takes(P, "grid_ufunc:_rechunk_to_merge_in_boundary_chunks", ("padded_args", "original_args", "boundary_width_real_axes", "grid")):
        # the private helper is absent or divided differently in this tree: the merge is evaluated where the public entry performs it
        fi, outs = merge_through_apply(P, chunks)
        return fi, dim, chunks, outs
    fi = P.func("grid_ufunc:_rechunk_to_merge_in_boundary_chunks")
    chunks_y = (Lin.sym("y0"), Lin.sym("y1"))  # both inputs are chunked along the second padded axis as well

    def variable(ev, o, n):
        if o.name in chunks and not o.eff:
            return Obj("Variable", "variable", (), {"chunksizes": {dim: chunks[o.name], dim_y: chunks_y, Sym("t"): (Lin.sym("ct"),)}})
        return Obj("Variable", o.name, o.eff + (("variable",),), dict(o.attrs))

    def chunk(ev, recv, args, kw, node):
        return recv.with_eff(("chunk", args[0] if args else kw.get("chunks", kw)))  # .chunk(chunks={...}) or chunk(**{...})

    def m_new_da(ev, args, kw, node):
        src = args[0] if args else kw.get("data")
        if not (isinstance(src, Obj) and src.kind == "Variable" and src.eff):
            raise Unmodelled(f"xr.DataArray({src!r})", node)
        return Obj("DataArray", src.name, src.eff + (("new-DataArray", kw.get("name")),), dict(src.attrs))

    am = dict(da_attr_models())
    am[("DataArray", "variable")] = variable
    mm = dict(da_method_models())
    mm[("DataArray", "chunk")] = chunk
    mm[("Variable", "chunk")] = chunk
    ev = Evaluator(P, models={"xarray.DataArray": m_new_da}, attr_models=am, method_models=mm)
    outs = ev.run_paths(fi, lambda: dict(padded_args=[make_da("pa", [Sym("t"), dim_y, dim], name=Sym("name_of_pa")), make_da("pb", [Sym("t"), dim_y, dim], name=Sym("name_of_pb"))],
                                         original_args=[make_da("a", [Sym("t"), dim_y, dim]), make_da("b", [Sym("t"), dim_y, dim])],
                                         boundary_width_real_axes={AX: (1, 2), Sym("AY"): (0, 3)}, grid=make_grid(("AX", "AY"))))
    return fi, dim, chunks, outs


def _merge_all_inputs(ctx, P):
    """R06.5 (whole function): every padded input comes back, in order, re-chunked with the pattern computed from *its own*
    unpadded chunks - by the merge helper called on its own, and as apply_as_grid_ufunc calls it (the caller decides which
    original belongs to which padded array)."""
    direct = _takes(P, "grid_ufunc:_rechunk_to_merge_in_boundary_chunks", ("padded_args", "original_args", "boundary_width_real_axes", "grid"))
    for inst, through in (("merge for two inputs with different chunking", False), ("merge for two inputs with different chunking, as apply_as_grid_ufunc performs it", True)):
        if through and not direct:
            continue  # run_merge_all already went through the public entry
        try:
            if through:
                chunks = {"a": (Lin.sym("a0"), Lin.sym("a1")), "b": (Lin.sym("b0"), Lin.sym("b1"), Lin.sym("b2"))}
                dim = dimsym("AX", "center")
                fi, outs = merge_through_apply(P, chunks)
            else:
                fi, dim, chunks, outs = run_merge_all(P)
        except Unmodelled as e:
            ctx.unknown("R06.5", inst, str(e))
            continue
        bad = None
        want = {"pa": (chunks["a"][0] + Lin.of(1), chunks["a"][1] + Lin.of(2)), "pb": (chunks["b"][0] + Lin.of(1), chunks["b"][1], chunks["b"][2] + Lin.of(2))}
        for o in outs:
            v = o.value
            if o.kind != "return" or not isinstance(v, (list, tuple)) or [getattr(x, "name", None) for x in v] != ["pa", "pb"]:
                bad = f"{o.kind} {v!r}; one re-chunked array per padded input, in order, is expected"
                continue
            for x in v:
                ch = [e for e in x.eff if e[0] == "chunk"]
                pat = ch[0][1] if len(ch) == 1 else None
                got = tuple(pat.get(dim, ())) if isinstance(pat, dict) else None
                if got is None or len(got) != len(want[x.name]) or any(Lin.of(g) != Lin.of(w) for g, w in zip(got, want[x.name])):
                    bad = f"padded input {x.name} is re-chunked to {got!r} along the padded dimension; expected {want[x.name]!r} (from its own unpadded chunks)"
                # the second padded axis (widths (0, 3)) is merged too: its last chunk takes the three new cells
                dim_y = dimsym("AY", "center")
                got_y = tuple(pat.get(dim_y, ())) if isinstance(pat, dict) else None
                want_y = (Lin.sym("y0"), Lin.sym("y1") + Lin.of(3))
                if got_y is None or len(got_y) != 2 or any(Lin.of(g) != Lin.of(w) for g, w in zip(got_y, want_y)):
                    bad = bad or f"padded input {x.name} is re-chunked to {got_y!r} along the second padded dimension; expected {want_y!r}: the boundary chunks of every padded axis must be merged"
        if bad:
            ctx.report("R06.5", fi, inst, bad)
        else:
            ctx.ok("R06.5", inst, "each input re-chunked with the pattern of its own chunks")


def _callers_unpack(P, event):
    """Does apply_as_grid_ufunc hand only plain arrays (no {axis: component} dictionaries) to the helper recorded as `event`
    when its input is a vector dictionary?  (A helper that does not unpack is fine when every caller unpacks for it.)"""
    outs = run_apply(P, "(X:left)->(X:center)", [(AX,)], args=lambda: ({AX: make_da("u", [Sym("t"), dimsym("AX", "left"), dimsym("AY", "center")])},),
                     boundary_width={"X": (0, 1)}, map_overlap=True, other_component={Sym("AY"): make_da("v", [Sym("t"), dimsym("AX", "center"), dimsym("AY", "left")])})
    seen = False
    for o in outs:
        for e in o.events:
            if e[0] == event:
                seen = True
                oa = e[1].get("original_args")
                if not isinstance(oa, (list, tuple)) or any(isinstance(x, dict) for x in oa):
                    return False
    return seen


def _vector_merge_through_apply(P):
    """apply_as_grid_ufunc on a vector component {axis: u} chunked along its core dimension, with the boundary-chunk merge
    evaluated (not modelled).  Returns (function, None) when every path on which the arrays are re-chunked returns, else
    (function, the raising outcome)."""
    two = (Lin.sym("c0"), Lin.sym("c1"))

    def variable(ev, o, n):
        return Obj("Variable", "variable", (), {"chunksizes": {d: two for d in o.attrs["dims"]}})

    def chunk(ev, recv, args, kw, node):
        return recv.with_eff(("chunk", args[0] if args else kw.get("chunks", kw)))

    am = apply_attr_models()
    am[("DataArray", "variable")] = variable
    mm = dict(da_method_models())
    mm[("DataArray", "chunk")] = chunk
    mm[("Variable", "chunk")] = chunk
    models = apply_models(record_rechunk=False)
    models["xarray.DataArray"] = lambda ev, args, kw, node: Obj("DataArray", "rewrapped", (("chunk", None),) if args and isinstance(args[0], Obj) and any(x[0] == "chunk" for x in args[0].eff) else (), {"dims": ()})
    ev = Evaluator(P, models=models, attr_models=am, method_models=mm)
    fi = P.func("grid_ufunc:apply_as_grid_ufunc")

    def make():
        return dict(func=Obj("func", "userfunc"), args=({AX: make_da("u", [Sym("t"), dimsym("AX", "left"), dimsym("AY", "center")])},), axis=[(AX,)], grid=make_grid(("AX", "AY")),
                    signature="(X:left)->(X:center)", boundary_width={"X": (0, 1)}, boundary=Sym("USER_BOUNDARY"), fill_value=Sym("USER_FILL"), keep_coords=Sym("USER_KEEP"),
                    dask=Sym("USER_DASK"), map_overlap=False, pad_before_func=True,
                    other_component={Sym("AY"): make_da("v", [Sym("t"), dimsym("AX", "center"), dimsym("AY", "left")])}, kwargs={})

    outs = ev.run_paths(fi, make)
    merged = 0
    for o in outs:
        if o.kind != "return":
            return fi, o
        merged += any(isinstance(v, Obj) and any(x[0] == "chunk" for x in v.eff) for e in o.events if e[0] == "xr.apply_ufunc" for v in e[1][1:])
    if not merged:
        raise Unmodelled("apply_as_grid_ufunc never re-chunks a chunked vector component on the evaluated paths", None)
    return fi, None


def _vector_lazy(ctx, P):
    # _rechunk_to_merge_in_boundary_chunks and _map_func_over_core_dims with {axis: DataArray} originals
    def variable(ev, o, n):
        return Obj("Variable", "variable", (), {"chunksizes": {d: (Lin.sym("c0"), Lin.sym("c1")) for d in o.attrs["dims"]}})

    am = dict(da_attr_models())
    am[("DataArray", "variable")] = variable
    u = lambda: make_da("u", [Sym("t"), dimsym("AX", "left")])
    inst = "_rechunk_to_merge_in_boundary_chunks with a vector argument"
    try:
        if not _takes(P, "grid_ufunc:_rechunk_to_merge_in_boundary_chunks", ("padded_args", "original_args", "boundary_width_real_axes", "grid")):
            # the helper is absent or divided differently in this tree: the merge of a dask-backed vector component is evaluated
            # where apply_as_grid_ufunc performs it
            afi, raised = _vector_merge_through_apply(P)
            if raised is None:
                ctx.ok("R06.6", inst, "a chunked {axis: component} input is padded, merged and handed to xr.apply_ufunc (through apply_as_grid_ufunc)")
            else:
                ctx.report("R06.6", afi, inst, f"a dask-backed {{axis: component}} input raises {raised.value} ({getattr(raised.exc, 'msg', '')}): the dictionary reaches an array-only attribute")
        else:
            fi = P.func("grid_ufunc:_rechunk_to_merge_in_boundary_chunks")
            ev = Evaluator(P, attr_models=am, method_models=da_method_models())
            outs = ev.run_paths(fi, lambda: dict(padded_args=[make_da("padded", [Sym("t"), dimsym("AX", "left")])], original_args=[{AX: u()}], boundary_width_real_axes={AX: (0, 1)}, grid=make_grid(("AX", "AY"))))
            if all(o.kind == "return" for o in outs):
                ctx.ok("R06.6", inst, "unpacked before .variable")
            elif _callers_unpack(P, "rechunk"):
                ctx.ok("R06.6", inst, "the caller hands over unpacked components")
            else:
                o = [o for o in outs if o.kind != "return"][0]
                ctx.report("R06.6", fi, inst, f"a dask-backed {{axis: component}} input raises {o.value} ({getattr(o.exc, 'msg', '')}): the dictionary reaches an array-only attribute")
    except Unmodelled as e:
        ctx.unknown("R06.6", "_rechunk with vector", str(e))
    fi2 = P.func("grid_ufunc:_map_func_over_core_dims")
    mm = dict(da_method_models())
    mm[("DataArray", "get_axis_num")] = lambda ev, r, a, k, n: 1
    ev2 = Evaluator(P, attr_models=am, method_models=mm)
    try:
        outs = ev2.run_paths(fi2, lambda: dict(func=Obj("func", "f"), original_args=[{AX: u()}], grid=make_grid(("AX", "AY")), in_core_dims=[[dimsym("AX", "left")]],
                                               boundary_width_real_axes={AX: (0, 1)}, out_dtypes=[Sym("dt")]))
        if all(o.kind == "return" for o in outs):
            ctx.ok("R06.6", "_map_func_over_core_dims with a vector argument", "unpacked before .transpose")
        elif _callers_unpack(P, "map_func_over_core_dims"):
            ctx.ok("R06.6", "_map_func_over_core_dims with a vector argument", "the caller hands over unpacked components")
        else:
            o = [o for o in outs if o.kind != "return"][0]
            ctx.report("R06.6", fi2, "_map_func_over_core_dims with a vector argument", f"a dask-backed {{axis: component}} input raises {o.value} ({getattr(o.exc, 'msg', '')})")
    except Unmodelled as e:
        ctx.unknown("R06.6", "_map_func with vector", str(e))
    # _has_chunked_core_dims / the dispatch receive unpacked arrays
    try:
        outs = run_dispatch(P, "diff", {"AX": "left"}, "center", data_as_vector=True, dims=[Sym("t"), dimsym("AX", "left")])
        if all(o.kind == "return" for o in outs):
            ctx.ok("R06.6", "dispatch with a (possibly lazy) vector component", "accepted on every dask-mode fork")
        else:
            o = [o for o in outs if o.kind != "return"][0]
            ctx.report("R06.6", "grid:Grid._1d_grid_ufunc_dispatch", "dispatch with a (possibly lazy) vector component", f"raises {o.value} on the fork {[d[1:] for d in o.decisions]}")
    except Unmodelled as e:
        ctx.unknown("R06.6", "dispatch with vector", str(e))


def _chunked_test(ctx, P):
    """R06.7: a core dimension counts as chunked exactly when it has more than one chunk; any chunked core dim decides."""
    fi = P.func("grid_ufunc:_has_chunked_core_dims")
    dx, dy = dimsym("AX", "center"), dimsym("AY", "center")
    cases = [
        ("in-memory array", None, [dx], False),
        ("one chunk along the core dim", {dx: (Lin.sym("c0"),), dy: (Lin.sym("d0"), Lin.sym("d1"))}, [dx], False),
        ("two chunks along the core dim", {dx: (Lin.sym("c0"), Lin.sym("c1")), dy: (Lin.sym("d0"),)}, [dx], True),
        ("second of two core dims chunked", {dx: (Lin.sym("c0"),), dy: (Lin.sym("d0"), Lin.sym("d1"), Lin.sym("d2"))}, [dx, dy], True),
        ("only a non-core dim chunked", {dx: (Lin.sym("c0"),), dy: (Lin.sym("d0"), Lin.sym("d1"))}, [dx], False),
        ("size-1 chunks", {dx: (1, 1, 1), dy: (Lin.sym("d0"),)}, [dx], True),
    ]
    def inconsistent(ev, o, n):
        from ..absint import Raised

        raise Raised("ValueError", n, "Object has inconsistent chunks along dimension: a lazy coordinate is chunked differently from the data")

    cases2 = [(nm, ch, co, w, False) for nm, ch, co, w in cases]
    # the same array carrying a lazy non-index coordinate that is chunked differently: DataArray.chunksizes (which spans the
    # coordinates, unlike .variable.chunksizes / .chunks) raises for it - the data's own chunking must decide
    cases2.append(("two chunks along the core dim, a lazy coordinate chunked differently", {dx: (Lin.sym("c0"), Lin.sym("c1")), dy: (Lin.sym("d0"),)}, [dx], True, True))
    cases2.append(("one chunk along the core dim, a lazy coordinate chunked differently", {dx: (Lin.sym("c0"),), dy: (Lin.sym("d0"),)}, [dx], False, True))
    for name, chunks, core, want, odd_coord in cases2:
        am = dict(da_attr_models())
        am[("DataArray", "chunks")] = (lambda ev, o, n, chunks=chunks: None if chunks is None else tuple(chunks.values()))
        am[("DataArray", "variable")] = (lambda ev, o, n, chunks=chunks: Obj("Variable", "variable", (), {"chunksizes": dict(chunks or {}), "chunks": None if chunks is None else tuple(chunks.values())}))
        am[("DataArray", "chunksizes")] = inconsistent if odd_coord else (lambda ev, o, n, chunks=chunks: dict(chunks or {}))
        ev = Evaluator(P, attr_models=am)
        try:
            outs = ev.run_paths(fi, lambda: dict(obj=make_da("da", [Sym("t"), dx, dy]), core_dims=list(core)))
        except Unmodelled as e:
            ctx.unknown("R06.7", name, str(e))
            continue
        got = {(o.kind, o.value if o.kind == "return" else str(o.value)) for o in outs}
        if got != {("return", want)}:
            ctx.report("R06.7", fi, f"chunked-core-dimension test: {name}", f"_has_chunked_core_dims gives {sorted(map(str, got))}; expected {want} (a core dimension is chunked iff it has more than one chunk)")
        else:
            ctx.ok("R06.7", f"chunked-core-dimension test: {name}", str(want))
