"""C18 - operations never modify their arguments; results are history-independent.

  T1  ownership analysis (static, whole package): for every public entry point, no parameter (and, for
      operations, not the Grid itself) may reach an in-place writer - item/attribute stores, del, augmented
      assignment, pop/popitem/update/append/..., `out=` - along any call chain; flow-sensitive (a rebinding such as
      `data = _strip_all_coords(data)` ends the ownership), with per-function summaries iterated to a fixed point;
  R18.2 argument containers by abstract evaluation: the public operations are interpreted with the caller's
      dictionaries / lists as real containers (boundary, fill_value, to, metric_weighted, other_component, vector
      dictionaries, coords, metrics, axis lists ...) and these must be unchanged afterwards - on returning and on
      raising paths - and no attribute / item / in-place operation may hit an argument array or the Grid;
  R18.3 module state: no `global` statement and no store into a module-level container anywhere in the package.
"""
from __future__ import annotations

import ast
import copy

from ..absint import TOP, Evaluator, Obj, Sym, Unmodelled
from ..core import norm, own_nodes
from ..facepad import AX, AY, FACE, table_for
from ..harness import apply_attr_models, apply_models, da_attr_models, da_method_models, run_apply, run_dispatch
from ..own import Ownership
from ..xmodel import COMMON_MODELS, dimsym, make_da, make_grid

EXPLANATION = (
    "T1: flow-sensitive ownership (effect) analysis with interprocedural summaries over every function of the package, "
    "evaluated at the public entry points. R18.2: abstract evaluation of the public operations with the caller's containers "
    "as real mutable objects, compared with pristine copies after every path (returning or raising); attribute/item/in-place "
    "events on argument arrays and on the Grid. R18.3: scan for module-state writers."
)
ASSUMPTIONS = ["xarray/numpy methods used here return new objects (in-place ones are listed as mutators)", "guvectorize kernels write only their output parameter"]
TECHNIQUE = "ownership/effect analysis (flow-sensitive taint with summaries over the call graph) + abstract evaluation with mutable argument containers"
LEVEL_TEXT = (
    "Static effect analysis over the whole package: from no public entry point can an in-place writer reach an object owned by the caller (parameters, and the "
    "Grid itself for operations) along any call chain; additionally the public operations are interpreted abstractly with the caller's dictionaries and lists "
    "as live objects, which must be identical afterwards on every path, raising ones included. This decides non-mutation for every call sequence "
    "(history independence follows because no state is written); mutation inside xarray/numpy is covered only by the trusted summaries."
)
LEVEL_NOTE = "Trusted: library summaries (xarray/numpy methods return new objects). Reflection is out of scope."

PUBLIC_OPS = ["interp", "diff", "min", "max", "cumsum", "derivative", "integrate", "average", "cumint", "diff_2d_vector", "interp_2d_vector", "apply_as_grid_ufunc", "transform",
              "get_metric", "interp_like", "_1d_grid_ufunc_dispatch", "_apply_vector_function"]
PUBLIC_FUNCS = ["grid:Grid.__init__", "grid:Grid.set_metrics", "axis:Axis.__init__", "grid_ufunc:apply_as_grid_ufunc", "grid_ufunc:GridUFunc.__call__", "grid_ufunc:GridUFunc.__init__",
                "grid_ufunc:as_grid_ufunc", "padding:pad", "transform:transform", "transform:linear_interpolation", "transform:conservative_interpolation", "transform:interp_1d_linear",
                "transform:interp_1d_conservative", "metadata_parsers:parse_metadata", "metadata_parsers:parse_comodo", "metadata_parsers:parse_sgrid", "comodo:get_axis_positions_and_coords",
                "sgrid:get_axis_positions_and_coords", "metrics:iterate_axis_combinations"] + [f"grid:Grid.{m}" for m in PUBLIC_OPS]
SELF_MAY_CHANGE = {"grid:Grid.__init__", "grid:Grid.set_metrics", "axis:Axis.__init__", "grid_ufunc:GridUFunc.__init__", "grid:Grid._assign_face_connections"}


def check(ctx):
    P = ctx.project
    _t1(ctx, P)
    _module_state(ctx, P)
    _containers(ctx, P)


def _t1(ctx, P):
    own = Ownership(P)
    ctx.note("ownership_rounds", own.rounds)
    n = 0
    present = [q for q in PUBLIC_FUNCS if q in P.functions]
    ctx.floor("T1", "public entry points found", len(present), 30)
    for q in present:
        fi = P.functions[q]
        ps, va, ko, kw = fi.params
        mut = own.mutated_params(q)
        for p in ps + ko + ([va] if va else []):
            n += 1
            if p in ("self", "cls"):
                if q in SELF_MAY_CHANGE or p not in mut:
                    continue
                info = mut[p]
                ctx.report("T1", fi, f"{q}({p}) <- {info['where']}: {info['construct']}", f"the operation {q} modifies the Grid/Axis it is called on ({info['desc']} at {info['where']}:{info['line']}): later calls would depend on earlier ones",
                           path=[q] + (info.get("via") or []))
                continue
            if p in mut:
                info = mut[p]
                ctx.report("T1", fi, f"{q}({p}) <- {info['where']}: {info['construct']}",
                           f"argument `{p}` of {q} can be modified in place: {info['desc']} at {info['where']}:{info['line']} `{info['construct']}`", path=[q] + (info.get("via") or []))
    ctx.ok("T1", f"{n} parameters of {len(present)} public entry points", "no in-place writer reaches a caller-owned object")
    # the array kernels (the functions wrapped as grid ufuncs and the helpers they call): xarray.apply_ufunc hands them the
    # caller's buffer itself when nothing was padded (zero-width shifts), so a kernel that writes into a parameter - `out=` of a
    # numpy function, an item store, an augmented assignment - overwrites the user's data.  (numba kernels write their declared
    # output parameter only: that one is allocated by the wrapper.)
    k = 0
    for q, fi in P.functions.items():
        if fi.module != "gridops":
            continue
        k += 1
        mut = own.mutated_params(q)
        for pn, info in mut.items():
            ctx.report("T1", fi, f"kernel {q}({pn}): {info['construct']}", f"the kernel {q} writes into its parameter `{pn}` ({info['desc']} at line {info['line']}: `{info['construct']}`): for shifts that need no padding this is the caller's own array")
    ctx.ok("T1", f"{k} array kernels and kernel helpers in gridops", "none writes into a parameter")
    ctx.floor("T1", "kernels scanned", k, 30)
    # every mutator site of the package, for the record
    sites = 0
    for q, fi in P.functions.items():
        for node in own_nodes(fi.node):
            if isinstance(node, ast.Call) and isinstance(node.func, ast.Attribute) and node.func.attr in ("popitem", "pop", "update", "append", "extend", "remove", "clear", "setdefault", "sort", "insert"):
                sites += 1
            elif isinstance(node, (ast.Assign, ast.AugAssign)) and any(isinstance(t, (ast.Subscript, ast.Attribute)) for t in (node.targets if isinstance(node, ast.Assign) else [node.target])):
                sites += 1
    ctx.note("mutator_sites_in_package", sites)
    ctx.floor("T1", "mutator sites examined", sites, 60)


VALUE_TYPES = {"str", "int", "float", "bool", "bytes", "complex", "None"}


def _value_annotation(a) -> bool:
    """An annotation that admits only immutable values compared by value: str / int / ... / Tuple[...] / FrozenSet[...] of such."""
    if a is None:
        return False
    if isinstance(a, ast.Constant):
        return a.value is None or (isinstance(a.value, str) and a.value in VALUE_TYPES)
    if isinstance(a, ast.Name):
        return a.id in VALUE_TYPES or a.id.startswith("T_") and False
    if isinstance(a, ast.Subscript):
        base = a.value.id if isinstance(a.value, ast.Name) else getattr(a.value, "attr", "")
        if base in ("Tuple", "tuple", "FrozenSet", "frozenset", "Optional", "Union"):
            sl = a.slice
            elts = sl.elts if isinstance(sl, ast.Tuple) else [sl]
            return all(isinstance(e, ast.Constant) and e.value is Ellipsis or _value_annotation(e) for e in elts)
    return False


def _pure_value_function(cache_call, P) -> bool:
    """Is this `lru_cache(...)` / `cache` the decorator of a function all of whose parameters are annotated as immutable values
    (text, numbers, tuples of them) and that contains no store into anything but its own locals?  Such a memo keys on the
    values themselves and cannot go stale: no object of a caller, no Grid, no array can be a key (arrays and dictionaries
    are not hashable at all, a Grid would be keyed by identity - which is exactly what must not be remembered)."""
    for q, fi in P.functions.items():
        for d in fi.node.decorator_list:
            if d is cache_call or (isinstance(d, ast.Call) and d.func is cache_call) or d is getattr(cache_call, "func", None):
                a = fi.node.args
                params = a.posonlyargs + a.args + a.kwonlyargs
                if a.vararg or a.kwarg or not params:
                    return False
                if not all(_value_annotation(p.annotation) for p in params):
                    return False
                for n in ast.walk(fi.node):
                    if isinstance(n, (ast.Global, ast.Nonlocal)):
                        return False
                    if isinstance(n, (ast.Attribute, ast.Subscript)) and isinstance(n.ctx, (ast.Store, ast.Del)):
                        base = n.value
                        while isinstance(base, (ast.Attribute, ast.Subscript)):
                            base = base.value
                        if not (isinstance(base, ast.Name) and base.id not in {p.arg for p in params}):
                            return False
                return True
    return False


def _module_state(ctx, P):
    n = 0
    for q, fi in P.functions.items():
        mod = P.modules[fi.module]
        module_names = set(mod.const_nodes)
        for node in own_nodes(fi.node):
            n += 1
            if isinstance(node, (ast.Global, ast.Nonlocal)) and isinstance(node, ast.Global):
                ctx.report("R18.3", fi, norm(node), f"{q} declares module state `{', '.join(node.names)}` global: results would depend on earlier calls", node)
            tgt = None
            if isinstance(node, (ast.Assign, ast.AugAssign)):
                for t in (node.targets if isinstance(node, ast.Assign) else [node.target]):
                    if isinstance(t, ast.Subscript) and isinstance(t.value, ast.Name) and t.value.id in module_names and t.value.id not in {a for a in fi.all_param_names()}:
                        locals_ = {x.id for x in ast.walk(fi.node) if isinstance(x, ast.Name) and isinstance(x.ctx, ast.Store)}
                        if t.value.id not in locals_:
                            tgt = t
            elif isinstance(node, ast.Call) and isinstance(node.func, ast.Attribute) and node.func.attr in ("append", "update", "pop", "clear", "setdefault", "extend", "add") and isinstance(node.func.value, ast.Name) and node.func.value.id in module_names:
                locals_ = {x.id for x in ast.walk(fi.node) if isinstance(x, ast.Name) and isinstance(x.ctx, ast.Store)} | set(fi.all_param_names())
                if node.func.value.id not in locals_:
                    tgt = node
            if tgt is not None:
                ctx.report("R18.3", fi, norm(tgt, 100), f"{q} writes into the module-level object `{norm(tgt, 40)}`: module state survives between calls", tgt)
            if isinstance(node, ast.Call) and isinstance(node.func, (ast.Name, ast.Attribute)) and (getattr(node.func, "id", "") in ("lru_cache", "cache") or getattr(node.func, "attr", "") in ("lru_cache", "cache")):
                if not _pure_value_function(node, P):
                    ctx.report("R18.3", fi, norm(node, 80), "a memoising cache keeps results between calls", node)
        for d in fi.node.decorator_list:
            if ("lru_cache" in norm(d) or norm(d).endswith("cache")) and not _pure_value_function(d, P):
                ctx.report("R18.3", fi, norm(d, 80), f"{q} is memoised: its result depends on the call history", d)
    ctx.ok("R18.3", f"{len(P.functions)} functions scanned for module-state writers and caches", "none")


# ---------------------------------------------------------------------------------- evaluation with live containers
def _same(a, b):
    """Structural equality of argument containers (opaque objects compared by identity/name)."""
    if isinstance(a, dict) and isinstance(b, dict):
        return list(a.keys()) == list(b.keys()) and all(_same(a[k], b[k]) for k in a)
    if isinstance(a, (list, tuple)) and isinstance(b, (list, tuple)):
        return type(a) == type(b) and len(a) == len(b) and all(_same(x, y) for x, y in zip(a, b))
    if isinstance(a, Obj) and isinstance(b, Obj):
        return a.name == b.name and len(a.eff) == len(b.eff)
    return a == b


def _snapshot(v):
    if isinstance(v, dict):
        return {k: _snapshot(x) for k, x in v.items()}
    if isinstance(v, list):
        return [_snapshot(x) for x in v]
    if isinstance(v, tuple):
        return tuple(_snapshot(x) for x in v)
    return v


def _judge(ctx, fi, name, outs, args_of, pristine, arg_objs=(), grid_may_change=False):
    bad = None
    for o in outs:
        live = args_of(o)
        for k, before in pristine.items():
            if k in live and not _same(live[k], before):
                bad = f"argument `{k}` is {live[k]!r} after the call, it was {before!r} ({'raising' if o.kind == 'raise' else 'returning'} path)"
        for e in o.events:
            if e[0] in ("setattr", "setitem", "setitem-via-attr", "inplace-op") and isinstance(e[1], Obj):
                tgt = e[1]
                is_arg = any(tgt is a or (tgt.name == a.name and not tgt.eff and tgt.kind == a.kind) for a in arg_objs)
                is_grid = tgt.kind in ("Grid", "Axis") and not grid_may_change
                if is_arg or is_grid:
                    what = {"setattr": f"attribute `{e[2]}` is set", "setitem": "an item is stored", "setitem-via-attr": f"`.{e[2]}[...]` is written", "inplace-op": f"an in-place `{e[2]}=` is applied"}[e[0]]
                    bad = bad or f"{what} on {'the Grid' if is_grid else 'the argument `' + tgt.name + '`'} (line {getattr(e[-1], 'lineno', '?')})"
    if bad:
        ctx.report("R18.2", fi, name, bad)
    else:
        ctx.ok("R18.2", name, f"{len(pristine)} argument container(s) unchanged on {len(outs)} path(s)")


def _containers(ctx, P):
    # ---- Grid.__init__
    from .c02 import run_grid_init

    init = P.func("grid:Grid.__init__")
    for name, per, bnd, fv in (("mappings naming every axis", {AX: False, AY: True}, {AX: None, AY: "extend"}, {AX: 1.0, AY: 2.0}), ("partial mappings", {AX: False}, {AY: "fill"}, {AY: 3.0}), ("periodic list", [AX], None, None)):
        try:
            live = {}

            def run():
                fi = init
                ev = Evaluator(P, models={"warnings.warn": lambda ev, a, k, n: None})
                args = {}

                def make():
                    coords = {a: {"center": dimsym(a.name, "center"), "left": dimsym(a.name, "left")} for a in (AX, AY)}
                    dims = tuple(d for a in (AX, AY) for d in (dimsym(a.name, "center"), dimsym(a.name, "left")))
                    ds = Obj("Dataset", "ds", (), {"dims": dims, "__isinstance__": ("Dataset",)})
                    me = Obj("Grid", "self", (), {"__class__": "grid:Grid"})
                    a = dict(self=me, ds=ds, coords=coords, periodic=copy.deepcopy(per), fill_value=copy.deepcopy(fv), default_shifts={AX: {"center": "left"}},
                             boundary=copy.deepcopy(bnd), face_connections=None, metrics=None, autoparse_metadata=False)
                    return a

                return ev.run_paths(fi, make)

            outs = run()
            pristine = {"periodic": per, "fill_value": fv, "boundary": bnd, "default_shifts": {AX: {"center": "left"}},
                        "coords": {a: {"center": dimsym(a.name, "center"), "left": dimsym(a.name, "left")} for a in (AX, AY)}}
            _judge(ctx, init, f"Grid(...) with {name}", outs, lambda o: {k: o.args.get(k) for k in pristine if k in o.args}, pristine, grid_may_change=True)
        except Unmodelled as e:
            ctx.unknown("R18.2", f"Grid(...) with {name}", str(e))

    # ---- dispatch with option mappings
    disp = P.func("grid:Grid._1d_grid_ufunc_dispatch")
    try:
        to = {AX: "left", AY: "left"}
        mw = {AX: (AX,), AY: (AY,)}
        kws = {"boundary": {AX: "fill"}, "fill_value": {AX: 1.0, AY: 2.0}}
        oc = {AY: make_da("partner", [dimsym("AX", "center")])}
        outs = run_dispatch(P, "diff", {"AX": "center", "AY": "center"}, copy.deepcopy(to), axnames=("AX", "AY"), axis_arg=[AX, AY], metric_weighted=copy.deepcopy(mw), kwargs=copy.deepcopy(kws), other_component=oc)
        pristine = {"to": to, "metric_weighted": mw, "axis": [AX, AY], "other_component": oc}
        das = []
        _judge(ctx, disp, "diff/interp dispatch with per-axis mappings", outs, lambda o: {k: o.args.get(k) for k in pristine if k in o.args}, pristine, arg_objs=[make_da("da", [])])
    except Unmodelled as e:
        ctx.unknown("R18.2", "dispatch with per-axis mappings", str(e))

    # ---- cumsum
    cfi = P.func("grid:Grid.cumsum")
    try:
        from .c09 import cumsum_evaluator, _models

        ev = cumsum_evaluator(P)
        to, bnd, fv, mw = {AX: "left"}, {AX: "fill"}, {AX: 1.0}, {AX: (AX,)}
        da = make_da("da", [Sym("t"), dimsym("AX", "center")])
        outs = ev.run_paths(cfi, lambda: dict(self=make_grid(("AX", "AY")), da=da, axis=[AX], to=copy.deepcopy(to), boundary=copy.deepcopy(bnd), fill_value=copy.deepcopy(fv), metric_weighted=copy.deepcopy(mw), keep_coords=False))
        pristine = {"to": to, "boundary": bnd, "fill_value": fv, "metric_weighted": mw, "axis": [AX]}
        _judge(ctx, cfi, "cumsum with per-axis mappings", outs, lambda o: {k: o.args.get(k) for k in pristine if k in o.args}, pristine, arg_objs=[da])
    except Unmodelled as e:
        ctx.unknown("R18.2", "cumsum with per-axis mappings", str(e))

    # ---- apply_as_grid_ufunc
    app = P.func("grid_ufunc:apply_as_grid_ufunc")
    try:
        bw = {"X": (1, 0)}
        axis = [[AX], [AX]]
        oc = [{AY: make_da("p1", [dimsym("AY", "left")])}, {AY: make_da("p2", [dimsym("AY", "left")])}]
        outs = run_apply(P, "(X:left),(X:left)->(X:center)", copy.deepcopy(axis), args=lambda: ({AX: make_da("u1", [dimsym("AX", "left")])}, {AX: make_da("u2", [dimsym("AX", "left")])}),
                         boundary_width=copy.deepcopy(bw), other_component=copy.deepcopy(oc), boundary={AX: "fill"}, fill_value={AX: 0.0})
        pristine = {"boundary_width": bw, "axis": axis, "other_component": oc, "boundary": {AX: "fill"}, "fill_value": {AX: 0.0}}
        _judge(ctx, app, "apply_as_grid_ufunc with vector inputs", outs, lambda o: {k: o.args.get(k) for k in pristine if k in o.args}, pristine)
    except Unmodelled as e:
        ctx.unknown("R18.2", "apply_as_grid_ufunc", str(e))

    # ---- pad() on a face-connected grid with the real face padding (other_component, the vector dictionary)
    padfi = P.func("padding:pad")
    try:
        from ..facepad import attr_models as f_attr, m_concat, m_pad_basic, method_models as f_meth
        from ..affsel import FACTS
        from ..absint import Lin

        table = table_for(True, True, False)
        ev = Evaluator(P, models={"padding:_pad_basic": m_pad_basic, "xarray.concat": m_concat}, method_models=f_meth(), attr_models=f_attr(), facts=dict(FACTS))
        u = make_da("u", [Sym("t"), FACE, dimsym("AY", "center"), dimsym("AX", "left")], dims0=(Sym("t"), FACE, dimsym("AY", "center"), dimsym("AX", "left")), n_faces=2)
        v = make_da("v", [Sym("t"), FACE, dimsym("AY", "left"), dimsym("AX", "center")], dims0=(Sym("t"), FACE, dimsym("AY", "left"), dimsym("AX", "center")), n_faces=2)
        data, oc, bw = {AX: u}, {AY: v}, {AX: (Lin.sym("w"), Lin.sym("w"))}
        live = {}

        def make():
            live["data"], live["other_component"], live["boundary_width"] = dict(data), dict(oc), dict(bw)
            return dict(data=live["data"], grid=make_grid(("AX", "AY"), face_connections=copy.deepcopy(table), facedim=FACE, boundary="fill", fill_value=0.0),
                        boundary_width=live["boundary_width"], boundary={AX: "fill"}, fill_value=None, other_component=live["other_component"])

        outs = ev.run_paths(padfi, make)
        pristine = {"data": data, "other_component": oc, "boundary_width": bw, "boundary": {AX: "fill"}}
        _judge(ctx, padfi, "pad() of a vector component across face links", outs, lambda o: {"data": live["data"], "other_component": live["other_component"], "boundary_width": live["boundary_width"], "boundary": o.env.get("boundary") if False else {AX: "fill"}}, pristine, arg_objs=[u, v])
        # the same argument objects used twice (second axis of a multi-axis call / a repeated call)
        outs2 = ev.run_paths(padfi, lambda: dict(data=live["data"], grid=make_grid(("AX", "AY"), face_connections=copy.deepcopy(table), facedim=FACE, boundary="fill", fill_value=0.0),
                                                 boundary_width=live["boundary_width"], boundary=None, fill_value=None, other_component=live["other_component"]))
        if any(o.kind != "return" for o in outs2):
            ctx.report("R18.2", padfi, "repeated pad() with the same argument objects", f"the second call with the same argument objects fails ({outs2[0].value}): the first call consumed them")
        else:
            ctx.ok("R18.2", "repeated pad() with the same argument objects", "second call succeeds")
    except Unmodelled as e:
        ctx.unknown("R18.2", "pad() across face links", str(e))

    # ---- set_metrics / get_metric
    sm = P.func("grid:Grid.set_metrics")
    try:
        key, value = [AX, AY], [Sym("area"), Sym("area2")]

        def ds_get(ev, recv, args, kw, node):
            return make_da(f"var_{args[0]}", [dimsym("AX", "center")])

        ev = Evaluator(P, method_models={("Dataset", "__getitem__"): ds_get})
        k2, v2 = list(key), list(value)
        outs = ev.run_paths(sm, lambda: dict(self=_grid_with_ds(), key=k2, value=v2, overwrite=False))
        _judge(ctx, sm, "set_metrics with lists", outs, lambda o: {"key": k2, "value": v2}, {"key": key, "value": value}, grid_may_change=True)
    except Unmodelled as e:
        ctx.unknown("R18.2", "set_metrics", str(e))
    gm = P.func("grid:Grid.get_metric")
    try:
        from .c10 import mvar, run_get_metric

        fs = frozenset
        reg = {fs([AX]): [mvar("dxc", [dimsym("AX", "center")])], fs([AY]): [mvar("dyc", [dimsym("AY", "center")])]}
        axes = [AX, AY]
        outs = run_get_metric(P, reg, [dimsym("AX", "center"), dimsym("AY", "center")], axes, axnames=("AX", "AY"))
        bad = None
        for o in outs:
            if not _same(o.env.get("axes") if isinstance(o.env.get("axes"), list) else axes, axes):
                pass
            g = o.env.get("self")
            after = g.attrs.get("_metrics")
            if not (isinstance(after, dict) and list(after) == list(reg) and all(len(after[k]) == len(reg[k]) for k in reg)):
                bad = "get_metric changes the metric registry"
        if bad:
            ctx.report("R18.2", gm, "get_metric leaves the registry alone", bad)
        else:
            ctx.ok("R18.2", "get_metric leaves the registry alone", "registry identical afterwards")
    except Unmodelled as e:
        ctx.unknown("R18.2", "get_metric", str(e))

    # ---- transform: the caller's anonymous target_data
    if P.has_func("transform:transform"):
        tfi = P.func("transform:transform")
        try:
            from .c08 import run_transform

            bare = Obj("ndarray", "bare_levels", (), {"__isinstance__": ("ndarray",)})
            outs, calls = run_transform(P, "linear", target=bare, td_name=None)
            bad = None
            for o in outs:
                td = o.env.get("target_data") if "target_data" in o.env else None
                for e in o.events:
                    if e[0] == "setattr" and isinstance(e[1], Obj) and e[1].name == "td" and not e[1].eff:
                        bad = f"attribute `{e[2]}` of the caller's target_data is set to {e[3]!r}: after the call the user's array carries the name TRANSFORMED_DIMENSION"
            if bad:
                ctx.report("R18.2", tfi, "transform with an anonymous target_data", bad)
            else:
                ctx.ok("R18.2", "transform with an anonymous target_data", "the caller's array is not renamed in place")
        except Unmodelled as e:
            ctx.unknown("R18.2", "transform with an anonymous target_data", str(e))


def _grid_with_ds():
    g = make_grid(("AX", "AY"))
    g.attrs["_ds"] = Obj("Dataset", "ds", (), {"variables": [Sym("area"), Sym("area2")]})
    g.attrs["_metrics"] = {}
    return g
