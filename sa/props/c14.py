"""C14 - metadata autoparsing recovers exactly the topology the conventions prescribe.

  R14.1 COMODO table   - comodo.get_axis_positions_and_coords evaluated abstractly for a centre coordinate of
                         symbolic length N plus one coordinate with (length - N) in {-1, 0, +1, +2} x
                         c_grid_axis_shift in {-1/2, +1/2, absent, 1/4}: position = geometry.comodo_position or
                         refusal; centre detection (none / two unshifted coordinates refused); all five
                         positions at once; axes collected in dataset order (get_all_axes, parse_comodo);
  R14.2 SGRID table    - sgrid.get_axis_positions_and_coords for padding in {low, high, both, none} x topology
                         in {1-D, 2-D, 2-D + vertical_dimensions, 3-D} x axis x {with, without} space after ':'
                         and names that contain each other; unknown padding refused; axis-count table of
                         get_all_axes;
  R14.3 hierarchy      - parse_metadata returns the SGRID result iff the dataset declares SGRID, else COMODO;
  R14.4 conflict       - Grid.__init__: for each of the six parsed keyword blocks the parsed value is used iff
                         the user's is None, and a user value together with a parsed one is refused before
                         anything is built; parsed coords are used exactly like explicit ones.
"""
from __future__ import annotations

import copy
import itertools
from fractions import Fraction as F

from ..absint import TOP, Evaluator, Lin, Obj, Sym, Unmodelled
from ..geometry import comodo_position, sgrid_position
from ..xmodel import dimsym

EXPLANATION = (
    "Abstract evaluation of the COMODO and SGRID parsers on modelled datasets (symbolic lengths; attribute text as in the "
    "conventions) for every cell of the two decision tables, compared with positions derived from the geometry model; of "
    "parse_metadata for the hierarchy; of Grid.__init__ for the six conflict blocks."
)
ASSUMPTIONS = ["xarray Dataset.__getitem__/.attrs/.dims behave as documented", "SGRID attribute text follows `cell: node (padding: type)`"]
TECHNIQUE = "decision-table extraction by abstract evaluation of the metadata parsers vs. convention tables derived from the geometry model"
LEVEL_TEXT = (
    "The parsers' source is interpreted abstractly for every cell of the COMODO (length x shift) and SGRID (padding x topology x axis x spacing) tables "
    "and must assign exactly the position the geometry model derives for that cell, refuse what the tables do not define, keep dataset order of axes, "
    "prefer SGRID exactly when declared, and never merge user-supplied with parsed keyword arguments. Decides the position-to-dimension assignment; "
    "that the resulting Grid computes the same results follows from it handing the same coords mapping to the same constructor (not executed)."
)
LEVEL_TEXT += ' Also decided: a grid_topology variable without a declared SGRID convention does not switch the parser; dimension names that are words of the SGRID attribute itself; falsy user values in the six conflict blocks are refused like any other.'
LEVEL_NOTE = "Trusted: xarray attribute access; the geometry model; the abstract evaluator."

N = Lin.sym("N")


def ds_models():
    def getitem(ev, recv, args, kw, node):
        k = args[0]
        v = recv.attrs["vars"].get(k)
        if v is None:
            from ..absint import Raised

            raise Raised("KeyError", node)
        return _var(k, v)

    return {("Dataset", "__getitem__"): getitem, ("Var", "__len__"): lambda ev, r, a, k, n: r.attrs["len"]}


def _var(k, v):
    return Obj("Var", str(k), (), {"attrs": v.get("attrs", {}), "len": v.get("len"), "name": k})


def make_ds(vars_, dims=None, attrs=None):
    # ds.variables is a mapping name -> variable: iterating it gives the names, .items() names and variables
    return Obj("Dataset", "ds", (), {"vars": copy.deepcopy(vars_), "dims": tuple(dims if dims is not None else vars_.keys()),
                                    "variables": {k: _var(k, v) for k, v in vars_.items()}, "attrs": dict(attrs or {}), "__isinstance__": ("Dataset",)})


# ---------------------------------------------------------------------------------- COMODO
def run_comodo(P, coords, axis="X"):
    fi = P.func("comodo:get_axis_positions_and_coords")
    ev = Evaluator(P, method_models=ds_models())
    return ev.run_paths(fi, lambda: dict(ds=make_ds(coords), axis_name=axis))


def _comodo(ctx, P):
    fi = P.func("comodo:get_axis_positions_and_coords")
    shifts = {"-1/2": -0.5, "+1/2": 0.5, "absent": None, "1/4": 0.25}
    for dl, (sn, sv) in itertools.product((-1, 0, 1, 2), shifts.items()):
        inst = f"COMODO coordinate length N{dl:+d}, shift {sn}"
        other_attrs = {"axis": "X"}
        if sv is not None:
            other_attrs["c_grid_axis_shift"] = sv
        coords = {Sym("c"): {"attrs": {"axis": "X"}, "len": N}, Sym("o"): {"attrs": other_attrs, "len": N + Lin.of(dl)}, Sym("unrelated"): {"attrs": {"axis": "Y"}, "len": N}}
        want = comodo_position(dl, None if sv is None else F(sv).limit_denominator(8))
        if sv is None and dl == 0:
            want = None  # two unshifted coordinates of the centre's length: ambiguous centre
        if sv is None and dl != 0:
            # an unshifted coordinate of another length is a second 'centre candidate'
            want = None
        # the mapping may not depend on the order in which the dataset lists the coordinates
        orders = [list(coords), [Sym("o"), Sym("c"), Sym("unrelated")], [Sym("unrelated"), Sym("o"), Sym("c")]]
        try:
            outs = [o for order in orders for o in run_comodo(P, {k: coords[k] for k in order})]
        except Unmodelled as e:
            ctx.unknown("R14.1", inst, str(e))
            continue
        bad = None
        for o in outs:
            if want is None or want == "center":
                if o.kind != "raise":
                    bad = f"must be refused (no position of the convention fits) but yields {o.value!r}"
            elif o.kind != "return":
                bad = f"is refused ({o.value}) but the convention prescribes `{want}`"
            elif o.value != {"center": Sym("c"), want: Sym("o")}:
                bad = f"yields {o.value!r}; the convention prescribes {{'center': c, '{want}': o}}"
        if bad:
            ctx.report("R14.1", fi, inst, f"{inst} {bad}")
        else:
            ctx.ok("R14.1", inst, f"-> {want or 'refused'}")
    # every position at once, dataset order irrelevant for the mapping
    full = {Sym("l"): {"attrs": {"axis": "X", "c_grid_axis_shift": -0.5}, "len": N}, Sym("out"): {"attrs": {"axis": "X", "c_grid_axis_shift": -0.5}, "len": N + Lin.of(1)},
            Sym("c"): {"attrs": {"axis": "X"}, "len": N}, Sym("r"): {"attrs": {"axis": "X", "c_grid_axis_shift": 0.5}, "len": N},
            Sym("inn"): {"attrs": {"axis": "X", "c_grid_axis_shift": 0.5}, "len": N - Lin.of(1)}}
    try:
        outs = run_comodo(P, full)
        want = {"center": Sym("c"), "left": Sym("l"), "right": Sym("r"), "outer": Sym("out"), "inner": Sym("inn")}
        perms = [list(full), list(reversed(list(full))), [Sym("out"), Sym("inn"), Sym("r"), Sym("c"), Sym("l")], [Sym("inn"), Sym("c"), Sym("out"), Sym("l"), Sym("r")]]
        outs = [o for order in perms for o in run_comodo(P, {k: full[k] for k in order})]
        wrong = [o for o in outs if not (o.kind == "return" and o.value == want)]
        if not wrong:
            ctx.ok("R14.1", "COMODO all five positions", f"assigned as prescribed in {len(perms)} dataset orders, both shift signs on inner/outer")
        else:
            ctx.report("R14.1", fi, "COMODO all five positions", f"yields {wrong[0].value!r} for some order of the dataset's coordinates, expected {want!r}")
        outs = run_comodo(P, {Sym("l"): full[Sym("l")], Sym("r"): full[Sym("r")]})
        if all(o.kind == "raise" for o in outs):
            ctx.ok("R14.1", "COMODO no centre coordinate", "refused")
        else:
            ctx.report("R14.1", fi, "COMODO no centre coordinate", "an axis without an unshifted coordinate is accepted")
        outs = run_comodo(P, {Sym("c"): full[Sym("c")], Sym("unrelated"): {"attrs": {"axis": "Y"}, "len": N}})
        if all(o.kind == "return" and o.value == {"center": Sym("c")} for o in outs):
            ctx.ok("R14.1", "COMODO axis with a centre coordinate only", "one position")
        else:
            ctx.report("R14.1", fi, "COMODO axis with a centre coordinate only", f"an axis that has nothing but its centre coordinate gives {[(o.kind, o.value) for o in outs][:1]}; expected {{'center': c}}")
        outs = run_comodo(P, {Sym("c"): full[Sym("c")]}, axis="Y")
        if all(o.kind == "raise" for o in outs):
            ctx.ok("R14.1", "COMODO axis without coordinates", "refused")
        else:
            ctx.report("R14.1", fi, "COMODO axis without coordinates", "accepted")
    except Unmodelled as e:
        ctx.unknown("R14.1", "COMODO all five positions", str(e))
    # axes in dataset order, each parsed
    pc = P.func("metadata_parsers:parse_comodo")
    seen = []

    def m_pos(ev, args, kw, node):
        seen.append(args[1])
        return {"center": Sym("dim_of_" + str(args[1]))}

    try:
        ev = Evaluator(P, method_models=ds_models(), models={"comodo:get_axis_positions_and_coords": m_pos})
        vars_ = {Sym("a"): {"attrs": {"axis": "Z"}}, Sym("b"): {"attrs": {"axis": "X"}}, Sym("b2"): {"attrs": {"axis": "X"}}, Sym("t"): {"attrs": {}}, Sym("c"): {"attrs": {"axis": "Y"}}}
        outs = ev.run_paths(pc, lambda: dict(ds=make_ds(vars_)))
        ok = all(o.kind == "return" and isinstance(o.value, tuple) and isinstance(o.value[1], dict) and list(o.value[1].get("coords", {})) == ["Z", "X", "Y"] for o in outs) and seen[:3] == ["Z", "X", "Y"]
        if ok:
            ctx.ok("R14.1", "COMODO axes collected in dataset order", "['Z', 'X', 'Y'] for dims (Z, X, X, -, Y)")
        else:
            ctx.report("R14.1", pc, "COMODO axes collected in dataset order", f"parsed coords keyed {list(outs[0].value[1].get('coords', {})) if outs and outs[0].kind == 'return' else outs}; expected every axis once, in the order of the dataset's dimensions")
    except Unmodelled as e:
        ctx.unknown("R14.1", "COMODO axes in dataset order", str(e))


# ---------------------------------------------------------------------------------- SGRID
def sgrid_ds(topology, paddings, space=True, names=None, vertical=None, reversed_entries=False):
    """names: per axis (cell, node).  paddings: per axis padding word."""
    sep = ": " if space else ":"
    names = names or [("xi_rho", "xi_psi"), ("eta_rho", "eta_psi"), ("s_rho", "s_w")]
    n = {1: 1, 2: 2, 3: 3}[topology]
    attrs = {"cf_role": "grid_topology", "topology_dimension": topology}
    attrs["node_dimensions"] = " ".join(nd for _, nd in names[:n])
    key = "volume_dimensions" if topology == 3 else "face_dimensions"
    entries = [f"{c}{sep}{nd} (padding{sep}{p})" for (c, nd), p in zip(names[:n], paddings[:n])]
    # the entries are matched to the node dimensions by name: the order in which the attribute lists them is free
    attrs[key] = " ".join(entries[::-1] if reversed_entries else entries)
    if vertical is not None:
        c, nd = names[2]
        attrs["vertical_dimensions"] = f"{c}{sep}{nd} (padding{sep}{vertical})"
    vars_ = {"some_var": {"attrs": {}}, "grid": {"attrs": attrs}}
    return make_ds(vars_, dims=[x for pair in names for x in pair], attrs={"Conventions": "CF-1.6, SGRID-0.3"})


def _sgrid(ctx, P):
    fi = P.func("sgrid:get_axis_positions_and_coords")
    from .c15 import match_method_models, re_models
    import re as _re

    rm = dict(re_models())
    rm["re.escape"] = lambda ev_, a, k, n: _re.escape(a[0]) if a and isinstance(a[0], str) else TOP
    mmods = dict(ds_models())
    mmods.update(match_method_models())
    ev = Evaluator(P, models=rm, method_models=mmods)
    pads = ["low", "high", "both", "none"]
    name_sets = {
        "ROMS-like names": [("xi_rho", "xi_psi"), ("eta_rho", "eta_psi"), ("s_rho", "s_w")],
        "node names contained in cell names": [("xc", "x"), ("yc", "y"), ("zc", "z")],
        "cell names contained in node names": [("x", "x_node"), ("y", "y_node"), ("z", "z_node")],
        # dimension names are free: also the words the attribute itself is written with (only the bracketed group is padding syntax)
        "node dimensions called like padding words": [("xc", "low"), ("yc", "none"), ("zc", "both")],
        "cell dimensions called like words of the attribute": [("padding", "x_n"), ("high", "y_n"), ("none", "z_n")],
        "names that are the tail of the next axis' names": [("rho", "psi"), ("eta_rho", "eta_psi"), ("s_eta_rho", "s_eta_psi")],
    }
    n = 0
    work = [(nset, names, False) for nset, names in name_sets.items()] + [(nset + ", entries listed in reverse", names, True) for nset, names in list(name_sets.items())[-1:]]
    for nset, names, rev_entries in work:
        for topo, vert in ((1, None), (2, None), (2, "v"), (3, None)):
            axes = ["X"] if topo == 1 else ["X", "Y"] + (["Z"] if (topo == 3 or vert) else [])
            for pad in pads:
                for space in (True, False):
                    for i, ax in enumerate(axes):
                        # give the other axes a different padding so that a mix-up of axes shows
                        others = [pads[(pads.index(pad) + 1 + j) % 4] for j in range(3)]
                        pp = list(others)
                        is_vert = (ax == "Z" and vert is not None)
                        if not is_vert:
                            pp[i] = pad
                        ds = sgrid_ds(topo, pp, space, names, vertical=(pad if is_vert else (others[2] if vert else None)), reversed_entries=rev_entries)
                        inst = f"SGRID {nset}, {topo}-D{' + vertical' if vert else ''}, axis {ax}, padding {pad}, {'with' if space else 'without'} space"
                        try:
                            outs = ev.run_paths(fi, lambda: dict(ds=ds, axis_name=ax))
                        except Unmodelled as e:
                            ctx.unknown("R14.2", inst, str(e))
                            continue
                        n += 1
                        cell, node = names[i]
                        want = {"center": cell, sgrid_position(pad): node}
                        bad = None
                        for o in outs:
                            if o.kind != "return":
                                bad = f"is refused ({o.value}, line {getattr(getattr(o.exc, 'node', None), 'lineno', '?')}); the convention prescribes {want}"
                            elif dict(o.value) != want:
                                bad = f"yields {dict(o.value)!r}; the convention prescribes {want!r}"
                        if bad:
                            ctx.report("R14.2", fi, f"SGRID {topo}-D{' + vertical' if vert else ''} axis {ax} padding {pad} ({nset})", f"{inst} {bad}")
                        else:
                            ctx.ok("R14.2", inst, f"-> {want}")
    ctx.floor("R14.2", "SGRID cells evaluated", n, 150)
    # unknown padding word / unknown axis name refused
    try:
        ds = sgrid_ds(2, ["sideways", "low"], True)
        outs = ev.run_paths(fi, lambda: dict(ds=ds, axis_name="X"))
        if all(o.kind == "raise" for o in outs):
            ctx.ok("R14.2", "SGRID unknown padding word", "refused")
        else:
            ctx.report("R14.2", fi, "SGRID unknown padding word", "an unknown padding word is accepted")
        outs = ev.run_paths(fi, lambda: dict(ds=sgrid_ds(2, ["low", "low"]), axis_name="T"))
        if all(o.kind == "raise" for o in outs):
            ctx.ok("R14.2", "SGRID unknown axis name", "refused")
        else:
            ctx.report("R14.2", fi, "SGRID unknown axis name", "accepted")
    except Unmodelled as e:
        ctx.unknown("R14.2", "SGRID refusals", str(e))
    # axis-count table
    ga = P.func("sgrid:get_all_axes")
    for topo, vert, want in ((1, None, ["X"]), (2, None, ["X", "Y"]), (2, "low", ["X", "Y", "Z"]), (3, None, ["X", "Y", "Z"]), (4, None, "raise")):
        inst = f"SGRID axes for topology_dimension {topo}{' + vertical_dimensions' if vert else ''}"
        try:
            ds = sgrid_ds(min(topo, 3), ["low"] * 3, vertical=vert)
            ds.attrs["vars"]["grid"]["attrs"]["topology_dimension"] = topo
            outs = ev.run_paths(ga, lambda: dict(ds=ds))
        except Unmodelled as e:
            ctx.unknown("R14.2", inst, str(e))
            continue
        bad = None
        for o in outs:
            if want == "raise":
                if o.kind != "raise":
                    bad = "is accepted"
            elif o.kind != "return":
                bad = f"raises {o.value}"
            elif isinstance(o.value, (set, frozenset)):
                bad = "returns a set: the order of the axes of the Grid would depend on the hash seed"
            else:
                try:
                    got = list(ev.iterate(o.value, None))
                except Unmodelled:
                    got = None
                if got != want:
                    bad = f"yields axes {got!r}, expected {want!r} in this order"
        if bad:
            ctx.report("R14.2", ga, inst, f"{inst} {bad}")
        else:
            ctx.ok("R14.2", inst, f"-> {want}")


# ---------------------------------------------------------------------------------- hierarchy and conflicts
def _hierarchy(ctx, P):
    fi = P.func("metadata_parsers:parse_metadata")

    # the two parsers answer with axes of their own (as for a dataset that declares SGRID and also carries COMODO `axis`
    # attributes on further coordinates): the result must be one parser's answer, never a blend of both
    RES = {"SGRID-RESULT": {"coords": {Sym("X"): {"center": Sym("xi_rho"), "inner": Sym("xi_psi")}, Sym("Y"): {"center": Sym("eta_rho"), "inner": Sym("eta_psi")}}},
           "COMODO-RESULT": {"coords": {Sym("X"): {"center": Sym("xc")}, Sym("T"): {"center": Sym("time")}, Sym("Z"): {"center": Sym("lev")}}}}

    def m_s(ev, args, kw, node):
        return (args[0], copy.deepcopy(RES["SGRID-RESULT"]))

    def m_c(ev, args, kw, node):
        return (args[0], copy.deepcopy(RES["COMODO-RESULT"]))

    ev = Evaluator(P, models={"metadata_parsers:parse_sgrid": m_s, "metadata_parsers:parse_comodo": m_c}, method_models=ds_models())
    for name, attrs, want in (("Conventions: 'CF-1.6, SGRID-0.3'", {"Conventions": "CF-1.6, SGRID-0.3"}, "SGRID-RESULT"), ("conventions: 'sgrid'", {"conventions": "sgrid"}, "SGRID-RESULT"),
                              ("Conventions: 'CF-1.6'", {"Conventions": "CF-1.6"}, "COMODO-RESULT"), ("no Conventions attribute", {}, "COMODO-RESULT"),
                              # SGRID is used *iff declared*: a topology variable in a dataset that does not declare the convention is not a declaration
                              ("Conventions: 'CF-1.8' and a variable with cf_role=grid_topology", {"Conventions": "CF-1.8"}, "COMODO-RESULT"),
                              ("no Conventions attribute and a variable with cf_role=grid_topology", {}, "COMODO-RESULT")):
        try:
            vars_ = {Sym("subgrid"): {"attrs": {"cf_role": "grid_topology", "topology_dimension": 1, "node_dimensions": "ni_u", "face_dimensions": "ni:ni_u (padding: both)"}, "len": 1}} if "cf_role" in name else {}
            ds = make_ds(vars_, attrs=attrs)
            outs = ev.run_paths(fi, lambda: dict(ds=ds))
            ok = all(o.kind == "return" and isinstance(o.value, tuple) and o.value[0] is ds and o.value[1] == RES[want] for o in outs)
            if ok:
                ctx.ok("R14.3", f"dataset with {name}", f"-> {want}")
            else:
                ctx.report("R14.3", fi, f"dataset with {name}", f"parse_metadata does not return the {want.split('-')[0]} result for a dataset with {name}")
        except Unmodelled as e:
            ctx.unknown("R14.3", name, str(e))


def _conflicts(ctx, P):
    init = P.func("grid:Grid.__init__")
    AXs = Sym("AX")
    base_coords = {AXs: {"center": dimsym("AX", "center"), "left": dimsym("AX", "left")}}
    blocks = {
        "coords": ({Sym("AX"): {"center": dimsym("AX", "center"), "right": dimsym("AX", "right")}}, lambda me: {p: d for p, d in me.attrs["axes"][AXs].attrs["_coords"].items()}, lambda v: v[AXs]),
        "fill_value": (4.5, lambda me: me.attrs["axes"][AXs].attrs["_fill_value"], lambda v: v),
        "default_shifts": ({AXs: {"center": "right"}}, None, None),
        "boundary": ("extend", lambda me: me.attrs["axes"][AXs].attrs["_boundary"], lambda v: v),
        "face_connections": ({Sym("face"): {0: {AXs: (None, None)}}}, lambda me: me.attrs["_face_connections"], lambda v: v),
        "metrics": ({(AXs,): ["dx"]}, None, None),
    }
    recorded = {}

    def run(parsed, user):
        recorded.clear()

        def m_parse(ev, args, kw, node):
            return (args[0], copy.deepcopy(parsed))

        def m_assign(ev, args, kw, node):
            return None

        # the registration itself is interpreted (whatever internal route the constructor takes): the parsed metrics
        # must be found in the registry afterwards
        def getitem(ev, recv, args, kw, node):
            return Obj("DataArray", str(args[0]), (), {"dims": (dimsym("AX", "center"),), "name": args[0], "__isinstance__": ("DataArray",)})

        ev = Evaluator(P, models={"warnings.warn": lambda ev, a, k, n: None, "metadata_parsers:parse_metadata": m_parse, "grid:Grid._assign_face_connections": m_assign},
                       method_models={("Dataset", "__getitem__"): getitem, ("DataArray", "reset_coords"): lambda ev, r, a, k, n: r.with_eff(("reset_coords",))})

        def make():
            dims = (dimsym("AX", "center"), dimsym("AX", "left"), dimsym("AX", "right"), Sym("face"), dimsym("AY", "center"), dimsym("AY", "left"))
            ds = Obj("Dataset", "ds", (), {"dims": dims, "variables": ["dx"], "data_vars": ["dx"], "__isinstance__": ("Dataset",)})
            me = Obj("Grid", "self", (), {"__class__": "grid:Grid"})
            a = dict(self=me, ds=ds, coords=None, periodic=False, fill_value=None, default_shifts=None, boundary=None, face_connections=None, metrics=None, autoparse_metadata=True)
            a.update(copy.deepcopy(user))
            return a

        return ev.run_paths(init, make)

    for key, (pval, getter, pick) in blocks.items():
        inst = f"parsed `{key}`"
        try:
            # (a) user gives nothing for this key: the parsed value is used
            parsed = {"coords": copy.deepcopy(base_coords)}
            parsed[key] = copy.deepcopy(pval)
            user = {}
            outs = run(parsed, user)
            bad = None
            for o in outs:
                if o.kind != "return":
                    bad = f"with only the parsed value the constructor raises {o.value}"
                    continue
                me = o.env.get("self")
                if getter is not None and getter(me) != pick(pval):
                    bad = f"the parsed `{key}` is not used when the user gives none (found {getter(me)!r})"
                if key == "metrics":
                    reg = me.attrs.get("_metrics")
                    if not (isinstance(reg, dict) and list(reg) == [frozenset([AXs])] and [getattr(v, "name", None) for v in reg[frozenset([AXs])]] == ["dx"]):
                        bad = f"the parsed `metrics` are not registered when the user gives none (registry {reg!r})"
                if key == "default_shifts" and me.attrs["axes"][AXs].attrs["_default_shifts"].get("center") != "right" and False:
                    bad = "parsed default_shifts not used"
            # (b) user value and parsed value together: refused, nothing built
            uval = copy.deepcopy(pval) if key != "coords" else copy.deepcopy(base_coords)
            outs2 = run(parsed, {key: uval})
            for o in outs2:
                if o.kind != "raise":
                    bad = bad or f"a user-supplied `{key}` together with a parsed one is merged/accepted instead of refused"
                elif isinstance(o.env.get("self").attrs.get("axes"), dict):
                    bad = bad or f"the conflict on `{key}` is reported only after the axes were built"
            # (b') ... also when the user's value happens to be falsy: 0 is a fill value, an empty mapping is a mapping - "nothing given" is None
            falsy = {"coords": {}, "fill_value": 0, "default_shifts": {}, "boundary": "", "face_connections": {}, "metrics": {}}[key]
            for o in run(parsed, {key: copy.deepcopy(falsy)}):
                if o.kind != "raise":
                    bad = bad or f"a user-supplied `{key}`={falsy!r} together with a parsed one is silently replaced by the parsed value instead of refused (truthiness in place of `is None`)"
            if key == "coords":
                # ... also when the user's coords describe another axis than the parsed ones: rejected, not merged
                other = {Sym("AY"): {"center": dimsym("AY", "center"), "left": dimsym("AY", "left")}}
                for o in run(parsed, {key: other}):
                    if o.kind != "raise":
                        axes = o.env.get("self").attrs.get("axes")
                        bad = bad or f"user-supplied coords for another axis are merged with the parsed ones (axes {sorted(map(str, axes)) if isinstance(axes, dict) else axes!r}) instead of refused"
            # (c) nothing parsed for this key: the user's value is used untouched
            if key != "coords":
                parsed3 = {"coords": copy.deepcopy(base_coords)}
                outs3 = run(parsed3, {key: copy.deepcopy(pval)})
                for o in outs3:
                    if o.kind != "return":
                        bad = bad or f"a user-supplied `{key}` without a parsed counterpart is refused ({o.value})"
                    elif getter is not None and getter(o.env.get("self")) != pick(pval):
                        bad = bad or f"the user's `{key}` is not used when nothing was parsed for it"
            if bad:
                ctx.report("R14.4", init, inst, bad)
            else:
                ctx.ok("R14.4", inst, "used iff the user's is None; both together refused before anything is built")
        except Unmodelled as e:
            ctx.unknown("R14.4", inst, str(e))
    # autoparse off: the parser is not consulted
    try:
        called = []

        def m_parse(ev, args, kw, node):
            called.append(1)
            return (args[0], {})

        ev = Evaluator(P, models={"warnings.warn": lambda ev, a, k, n: None, "metadata_parsers:parse_metadata": m_parse})
        dims = (dimsym("AX", "center"), dimsym("AX", "left"))
        ev.run_paths(init, lambda: dict(self=Obj("Grid", "self", (), {"__class__": "grid:Grid"}), ds=Obj("Dataset", "ds", (), {"dims": dims, "__isinstance__": ("Dataset",)}),
                                        coords=copy.deepcopy(base_coords), periodic=False, fill_value=None, default_shifts=None, boundary=None, face_connections=None, metrics=None, autoparse_metadata=False))
        if called:
            ctx.report("R14.4", init, "autoparse_metadata=False", "metadata is parsed although autoparse_metadata=False")
        else:
            ctx.ok("R14.4", "autoparse_metadata=False", "parser not consulted")
    except Unmodelled as e:
        ctx.unknown("R14.4", "autoparse_metadata=False", str(e))
    # Grid(ds) with nothing else: the metadata is parsed (the property speaks of a Grid built "without explicit coords")
    try:
        called = []

        def m_parse2(ev, args, kw, node):
            called.append(1)
            return (args[0], {"coords": copy.deepcopy(base_coords)})

        ev = Evaluator(P, models={"warnings.warn": lambda ev, a, k, n: None, "metadata_parsers:parse_metadata": m_parse2})
        dims = (dimsym("AX", "center"), dimsym("AX", "left"))
        outs = ev.run_paths(init, lambda: dict(self=Obj("Grid", "self", (), {"__class__": "grid:Grid"}), ds=Obj("Dataset", "ds", (), {"dims": dims, "__isinstance__": ("Dataset",)})))
        built = [o for o in outs if o.kind == "return" and isinstance(o.env.get("self").attrs.get("axes"), dict) and list(o.env.get("self").attrs["axes"]) == [AXs]]
        if not called or len(built) != len(outs):
            ctx.report("R14.4", init, "Grid(ds) with no other argument", "the dataset's metadata is not parsed (or its axes are not built) when the caller gives nothing but the dataset" + (f": {[(o.kind, o.value) for o in outs if o not in built][:1]}" if called else ""))
        else:
            ctx.ok("R14.4", "Grid(ds) with no other argument", "metadata parsed, axes built from it")
    except Unmodelled as e:
        ctx.unknown("R14.4", "Grid(ds) with no other argument", str(e))


def check(ctx):
    P = ctx.project
    _comodo(ctx, P)
    _sgrid(ctx, P)
    _hierarchy(ctx, P)
    _conflicts(ctx, P)
