"""C07 - the conservative transform neither creates nor destroys the transformed quantity.

  R07.3/R07.5 kernel by order-type enumeration - _interp_1d_conservative is evaluated abstractly for a column of
        two cells and three bins a<b<c<d for *every* ordering of the cell's two bounds against the four edges
        (incl. equalities, either bound NaN): the contribution of the cell to each bin must be
        phi * overlap(cell interval, bin) / (cell interval length) as an identity of linear forms (hence the weights
        sum to one whenever the cell lies within [a, d], are non-negative, and merging bins adds contents); a
        homogeneous cell must go to exactly one bin (bins half-open, the last one closed); contributions accumulate
        over cells (+=);
  R07.1 flip discipline - decreasing bins are reversed, the kernel is fed the increasing ones, and the result is
        reversed back along its *last* axis (Ellipsis-led subscript); increasing bins are passed through untouched;
        the cell bounds are theta[..., :-1] / theta[..., 1:] and the bin bounds bins[:-1] / bins[1:];
  R07.2 guards - non-monotonic bins, periodic axis and a grid without outer positions are refused (shared with C20);
  R07.4 wrapper - core dims [[phi_dim], [theta_dim], [target_dim]], new dimension of len(target) - 1 points
        labelled with the bin mid-points, target_data not on the outer position is interpolated to it with
        boundary='extend' before the kernel is used.
"""
from __future__ import annotations

from fractions import Fraction as F

from ..absint import Raised, TOP, Evaluator, FuncV, Lin, Obj, SliceV, Sym, Unmodelled, simplify
from ..harness import applied_function, foreign_ops, da_attr_models, da_method_models
from ..kernel import KernelFault, Data, KernelEval, OrderType, Quot, SumV, Term, order_types_point_vs_edges
from ..xmodel import dimsym, make_da, make_grid

EXPLANATION = (
    "Order-type enumeration: the scalar kernel is interpreted abstractly for every ordering of a cell's bounds against four bin "
    "edges (values are symbols, comparisons come from the order type, arithmetic stays symbolic) and each bin's contribution is "
    "compared, as a linear-form identity, with overlap/length; wrapper, flip discipline and guards by abstract evaluation of "
    "interp_1d_conservative, conservative_interpolation and transform()."
)
ASSUMPTIONS = ["numba compiles the kernel with Python semantics for comparisons and arithmetic", "IEEE comparisons with NaN are false", "floating-point rounding is ignored (exact arithmetic)"]
TECHNIQUE = "abstract interpretation of the kernel over the finite domain of order types with linear forms; abstract evaluation of the wrappers"
LEVEL_TEXT = (
    "For every ordering of a cell's two bounds against four strictly increasing bin edges (all order types incl. ties and NaN) the kernel's source is "
    "interpreted symbolically and each bin receives exactly phi x overlap / length; so in exact arithmetic the bin contents sum to the cell content when the "
    "cell lies in the span, are non-negative for non-negative input and add up under merging; homogeneous cells land in exactly one bin; contributions "
    "accumulate over cells. Decreasing bins are reversed and the result reversed back along the last axis; the wrapper sizes and labels the new dimension as "
    "len(target)-1 mid-points; ill-posed requests are refused. Rounding, numba and dask behaviour are not decided."
)
LEVEL_TEXT += " Also decided: without target_data the cell bounds handed to the kernel are the grid's own coordinate on the outer position, as stored."
LEVEL_NOTE = "Trusted: numba = Python semantics for this kernel; exact arithmetic. numba is not installed here, so no test executes this module at all."

import os as _os

EDGES = ["a", "b", "c", "d", "e"] if _os.environ.get("SA_THOROUGH") else ["a", "b", "c", "d"]
NB = len(EDGES) - 1


def lin(s):
    return Lin.sym(s)


def run_kernel(P, order: OrderType, t1="t1", t2="t2"):
    fi = P.func("transform:_interp_1d_conservative")

    def m_isnan(ev, args, kw, node):
        x = args[0]
        if isinstance(x, Lin) and len(x.terms) == 1 and x.const == 0:
            return next(iter(x.terms)) in order.nan
        raise Unmodelled(f"np.isnan of {x!r}", node)

    def is_nan(x):
        return isinstance(x, Lin) and len(x.terms) == 1 and x.const == 0 and next(iter(x.terms)) in order.nan

    def extremum(which, nan_aware):
        """np.fmin / np.fmax (a missing operand is ignored) and np.minimum / np.maximum (it propagates) on two 1-D arrays or scalars,
        decided element by element through the order type."""
        def pick(a, b, node):
            if is_nan(a) or is_nan(b):
                if nan_aware:
                    return b if is_nan(a) else a  # both missing: missing
                return a if is_nan(a) else b
            la, lb = Lin.of(a), Lin.of(b)
            if la is None or lb is None:
                raise Unmodelled(f"np.{which} of {a!r} and {b!r}", node)
            sgn = order.sign_of_difference(la - lb)
            if sgn not in ("neg", "zero", "pos"):
                raise Unmodelled(f"np.{which}: order of {a!r} and {b!r} not decided", node)
            smaller, larger = (a, b) if sgn in ("neg", "zero") else (b, a)
            return smaller if which.endswith("min") or which == "minimum" else larger

        def m(ev_, args, kw, node):
            a, b = args[0], args[1]
            if isinstance(a, list) and isinstance(b, list) and len(a) == len(b):
                return [pick(x, y, node) for x, y in zip(a, b)]
            if not isinstance(a, list) and not isinstance(b, list):
                return pick(a, b, node)
            raise Unmodelled(f"np.{which} of operands of different shape", node)

        return m

    ev = KernelEval(P, order, models={"numpy.isnan": m_isnan, "numpy.fmin": extremum("fmin", True), "numpy.fmax": extremum("fmax", True),
                                      "numpy.minimum": extremum("minimum", False), "numpy.maximum": extremum("maximum", False)})
    # cell 0 is a fixed homogeneous cell strictly inside the last bin; cell 1 is the cell under study
    out = [0] * NB
    outs = ev.run_paths(fi, lambda: dict(phi=[Data("phi0"), Data("phi1")], theta_1=[lin("t3"), lin(t1)], theta_2=[lin("t3"), lin(t2)],
                                         theta_hat_1=[lin(e) for e in EDGES[:-1]], theta_hat_2=[lin(e) for e in EDGES[1:]], output=out))
    return outs, out


def expected_bins(order: OrderType):
    """Expected coefficient of phi1 per bin: 0, 1 or (num, den) linear forms - from the geometry of intervals."""
    r = order.rank
    nan = order.nan
    bounds = [x for x in ("t1", "t2") if x not in nan]
    if not bounds:
        return [0] * NB, "both bounds NaN: the cell is skipped"
    lo = min(bounds, key=lambda x: r[x])
    hi = max(bounds, key=lambda x: r[x])
    bins = list(zip(EDGES[:-1], EDGES[1:]))
    if r[lo] == r[hi]:
        # homogeneous cell: exactly one bin, bins half-open [lo, hi), the last one closed; nothing outside [a, d]
        th = r[lo]
        res = []
        for j, (x, y) in enumerate(bins):
            inside = (r[x] <= th < r[y]) or (j == len(bins) - 1 and th == r[y])
            res.append(1 if inside else 0)
        return res, "homogeneous cell"
    res = []
    for x, y in bins:
        top = hi if r[hi] <= r[y] else y
        bot = lo if r[lo] >= r[x] else x
        if r[top] > r[bot]:
            res.append((lin(top) - lin(bot), lin(hi) - lin(lo)))
        else:
            res.append(0)
    return res, "cell with a proper interval"


def canon(l, order):
    """Rewrite a linear form with one representative per class of equal-valued symbols."""
    l = Lin.of(l)
    if l is None:
        return l
    rep = {}
    for k, r in sorted(order.rank.items()):
        if k not in order.nan:
            rep.setdefault(r, k)
    out = Lin({}, l.const)
    for k, c in l.terms.items():
        kk = rep.get(order.rank.get(k), k) if k not in order.nan else k
        out = out + Lin({kk: c})
    return out


def coef_of(v, data_name):
    """(kind, value) of the coefficient of data symbol in an output entry."""
    terms = v.terms if isinstance(v, SumV) else [v] if isinstance(v, Term) else [Term(1, v)] if isinstance(v, Data) else []
    if v == 0 or (isinstance(v, Lin) and v.is_const() and v.const == 0):
        terms = []
    elif not terms:
        raise Unmodelled(f"output entry {v!r}")
    mine = [t for t in terms if t.data.name == data_name]
    return mine


def check(ctx):
    P = ctx.project
    if not P.has_func("transform:_interp_1d_conservative"):
        ctx.unknown("R07.3", "kernel", "anchor function missing")
        return
    kfi = P.func("transform:_interp_1d_conservative")
    from ..harness import guvectorize_contract

    lay, probs = guvectorize_contract(kfi)
    if probs:
        ctx.report("R07.5", kfi, "guvectorize decoration of the kernel", "; ".join(probs))
    elif lay != (["n", "n", "n", "m", "m"], ["m"]):
        ctx.report("R07.5", kfi, "guvectorize decoration of the kernel", f"core dimensions {lay}: cells (phi, both bounds) must share one dimension, the bin edges and the output another")
    else:
        ctx.ok("R07.5", "guvectorize decoration of the kernel", "type list first, layout second, one entry per parameter; cells on n, bins and output on m")
    ots = []
    T3 = F(4 * (NB - 1) + 2 + 4 * NB + 2, 2)
    for ot in order_types_point_vs_edges(["t1", "t2"], EDGES):
        ot.rank["t3"] = T3  # strictly inside the last bin
        ots.append(ot)
    # NaN cases: the other bound in each slot
    for ot in order_types_point_vs_edges(["t1"], EDGES):
        ot.rank["t3"] = T3
        o2 = OrderType(dict(ot.rank), nan={"t2"})
        o2.rank["t2"] = 0
        ots.append(o2)
        o3 = OrderType({**{k: v for k, v in ot.rank.items() if k != "t1"}, "t2": ot.rank["t1"], "t1": 0}, nan={"t1"})
        ots.append(o3)
    o4 = OrderType({**{e: 4 * i + 2 for i, e in enumerate(EDGES)}, "t1": 0, "t2": 0, "t3": T3}, nan={"t1", "t2"})
    ots.append(o4)
    n_ok = 0
    first_bad = {}
    for ot in ots:
        try:
            outs, out = run_kernel(P, ot)
        except KernelFault as e:
            first_bad.setdefault("R07.5", (ot, str(e)))
            continue
        except Unmodelled as e:
            ctx.unknown("R07.5", f"order type {ot.describe()}", str(e))
            continue
        if len(outs) != 1 or outs[0].kind != "return":
            first_bad.setdefault("R07.5", (ot, f"kernel path: {outs[0].kind} {outs[0].value}"))
            continue
        want, kind = expected_bins(ot)
        rule = "R07.3" if kind == "homogeneous cell" else "R07.5"
        problem = None
        try:
            for j in range(NB):
                mine = coef_of(out[j], "phi1")
                fixed = coef_of(out[j], "phi0")
                # the fixed first cell must stay in the last bin only (accumulation, not overwriting)
                if (j == NB - 1) != (len(fixed) == 1 and fixed[0].coef == 1) or (j != NB - 1 and fixed):
                    problem = f"bin {j}: the content of the preceding cell is {'lost' if j == NB - 1 else 'duplicated'} (contributions must accumulate with +=)"
                    break
                w = want[j]
                if w == 0:
                    if mine and not all(_is_zero(t.coef, ot) for t in mine):
                        problem = f"bin {j} receives {mine!r} although the cell does not overlap it"
                        break
                elif w == 1:
                    if len(mine) != 1 or not _is_one(mine[0].coef, ot):
                        problem = f"bin {j} must receive the whole content of the homogeneous cell exactly once; it receives {mine!r}"
                        break
                else:
                    num, den = w
                    if len(mine) != 1 or not isinstance(mine[0].coef, Quot) or canon(mine[0].coef.num, ot) != canon(num, ot) or canon(mine[0].coef.den, ot) != canon(den, ot):
                        problem = f"bin {j} must receive phi*({simplify(num)!r})/({simplify(den)!r}) [overlap/length]; it receives {mine!r}"
                        break
        except Unmodelled as e:
            ctx.unknown(rule, f"order type {ot.describe()}", str(e))
            continue
        if problem:
            first_bad.setdefault(rule, (ot, problem))
        else:
            n_ok += 1
    ctx.note("order_types_evaluated", len(ots))
    for rule, (ot, problem) in first_bad.items():
        ctx.report(rule, kfi, "homogeneous cell membership" if rule == "R07.3" else "overlap fraction", f"for the ordering {ot.describe()}: {problem}")
    if "R07.5" not in first_bad:
        ctx.ok("R07.5", f"overlap fraction over {len(ots)} order types", "every bin receives phi*overlap/length; contributions accumulate")
    if "R07.3" not in first_bad:
        ctx.ok("R07.3", "homogeneous cells", "exactly one bin (half-open bins, last one closed), also with one NaN bound")
    ctx.floor("R07.5", "order types evaluated", len(ots), 80)
    _flip(ctx, P)
    _wrapper(ctx, P)
    _guards(ctx, P)


def _is_zero(c, ot):
    if isinstance(c, Quot):
        n = canon(c.num, ot)
        return n.is_const() and n.const == 0
    l = canon(c, ot) if not isinstance(c, float) else Lin.of(F(c))
    return l is not None and l.is_const() and l.const == 0


def _is_one(c, ot):
    if isinstance(c, Quot):
        return canon(c.num, ot) == canon(c.den, ot)
    l = Lin.of(c) if not isinstance(c, float) else Lin.of(F(c))
    return l is not None and l.is_const() and l.const == 1


def _flip(ctx, P):
    fi = P.func("transform:interp_1d_conservative")
    calls = []

    def m_kernel(ev, args, kw, node):
        calls.append(list(args))
        nd = args[0].attrs.get("ndim") if args and isinstance(args[0], Obj) else None
        return Obj("ndarray", "KERNEL-OUT", (), {"ndim": nd} if nd is not None else {})

    # the bins are given as one representative per order class; whatever spelling the source uses to test monotonicity
    # is *evaluated* on it (sa.concrete), no condition text is matched
    from ..concrete import REPRESENTATIVES_ALL, truth_hook

    res = []
    # symbolic column shapes, and concrete ones (several columns, one cell, a single 1-D column) on which the shape
    # assertions of the source are decided
    shapes = [((Lin.sym("cols"), Lin.sym("n")), (Lin.sym("cols"), Lin.sym("n") + Lin.of(1))), ((3, 5), (3, 6)), ((2, 7, 1), (2, 7, 2)), ((4,), (5,))]
    for k, (cls, vec) in enumerate([(c, v) for c in ("increasing", "decreasing") for v in REPRESENTATIVES_ALL[c]]):
        for ps, ts in (shapes if k % 3 == 0 else shapes[:1]):
            ev = Evaluator(P, models={"transform:_interp_1d_conservative": m_kernel}, call_hook=truth_hook({"bins": vec}))
            try:
                outs = ev.run_paths(fi, lambda: dict(phi=Obj("ndarray", "phi", (), {"shape": ps, "ndim": len(ps)}), theta=Obj("ndarray", "theta", (), {"shape": ts, "ndim": len(ts)}), target_theta_bins=Obj("ndarray", "bins", (), {"ndim": 1, "shape": (4,)})))
            except Unmodelled as e:
                ctx.unknown("R07.1", f"flip discipline ({cls} bins)", str(e))
                return
            for o in outs:
                res.append((cls if ps is shapes[0][0] else f"{cls} (columns of shape {ps})", o))
    rev = SliceV(None, None, -1)

    def identity(k):
        """x[::1], x[:], x[..., ::1] select everything in the same order."""
        ks = k if isinstance(k, tuple) else (k,)
        return all(x is Ellipsis or (isinstance(x, SliceV) and x.lo is None and x.hi is None and x.step in (None, 1)) for x in ks)

    def gi(o):
        return [e[1] for e in o.eff if e[0] == "getitem" and not identity(e[1])] if isinstance(o, Obj) else None

    calls_iter = iter(calls)
    for cls, o in res:
        inst = f"{cls} bins"
        if o.kind != "return":
            ctx.report("R07.1", fi, inst, f"strictly {cls} bins are refused ({o.value}{': ' + str(getattr(o.exc, 'msg', '')) if getattr(o.exc, 'msg', None) else ''})")
            continue
        args = next(calls_iter, None)
        if args is None:
            ctx.report("R07.1", fi, "kernel call", "a returning path does not call the kernel")
            continue
        decreasing = cls.startswith("decreasing")
        phi, th1, th2, h1, h2 = args[:5]
        bad = None
        if gi(th1) != [(Ellipsis, SliceV(None, -1, None))] or gi(th2) != [(Ellipsis, SliceV(1, None, None))] or th1.name != "theta" or th2.name != "theta":
            bad = f"cell bounds are {th1!r}/{th2!r} with subscripts {gi(th1)}/{gi(th2)}; expected theta[..., :-1] and theta[..., 1:] (last axis)"
        want_pre = [rev] if decreasing else []
        if gi(h1) != want_pre + [SliceV(None, -1, None)] or gi(h2) != want_pre + [SliceV(1, None, None)] or h1.name != "bins" or h2.name != "bins":
            bad = bad or f"bin bounds have subscripts {gi(h1)}/{gi(h2)}; expected {'the reversed bins' if decreasing else 'the bins'}[:-1] and [1:]"
        if not (isinstance(phi, Obj) and phi.name == "phi" and not phi.eff):
            bad = bad or "phi is not passed to the kernel unchanged"
        v = o.value
        if not (isinstance(v, Obj) and v.name == "KERNEL-OUT"):
            bad = bad or f"returns {v!r} instead of the kernel's result"
        elif decreasing:
            g = gi(v)
            if g == [rev] or (g and g[0] == rev):
                bad = bad or "the result is reversed with out[::-1], i.e. along its FIRST axis: with several columns the columns are exchanged instead of the bins reversed"
            elif g != [(Ellipsis, rev)]:
                bad = bad or f"with decreasing bins the result must be reversed along its last axis (out[..., ::-1]); found subscripts {g}"
        elif [e for e in v.eff if not (e[0] == "getitem" and identity(e[1])) and e[0] not in ("copy",)]:
            bad = bad or f"with increasing bins the kernel's result must be returned untouched; found {v.eff!r}"
        if bad:
            ctx.report("R07.1", fi, inst, bad)
        else:
            ctx.ok("R07.1", inst, "bins " + ("reversed, result reversed back along the last axis" if decreasing else "and result passed through"))


def _wrapper(ctx, P):
    if not P.has_func("transform:conservative_interpolation") or not P.has_func("transform:input_handling"):
        ctx.unknown("R07.4", "wrapper", "anchor functions missing")
        return
    raw = P.func("transform:conservative_interpolation")
    deco = P.func("transform:input_handling")
    au = []

    def m_apply_ufunc(ev, args, kw, node):
        au.append((list(args), dict(kw)))
        ocd = kw.get("output_core_dims")
        return make_da("APPLIED", [Sym("t")] + list(ocd[0] if ocd else []))

    def rename(ev, recv, args, kw, node):
        m = dict(args[0]) if args and isinstance(args[0], dict) else {}
        dims = tuple(m.get(d, d) for d in recv.attrs.get("dims", ()))
        return recv.with_eff(("rename", m), dims=dims)

    mm = dict(da_method_models())
    mm[("DataArray", "rename")] = rename
    mm[("DataArray", "__len__")] = lambda ev, r, a, k, n: Lin.sym("len_target")
    am = dict(da_attr_models())
    am[("DataArray", "data")] = lambda ev, o, n: Obj("ndarray", o.name + ".data")
    ev = Evaluator(P, models={"xarray.apply_ufunc": m_apply_ufunc}, method_models=mm, attr_models=am)
    try:
        wrapper = ev.call(FuncV(deco, deco.node, None, "transform"), [FuncV(raw, raw.node, None, "transform")], {}, None)
        phi = make_da("phi", [Sym("t"), Sym("zc")], name=Sym("phi_name"))
        theta = make_da("theta", [Sym("t"), Sym("zo")])
        levels = make_da("levels", [Sym("lev")])
        ev.events = []
        ev.decisions = []
        ev._prefix = []
        ev._pending = []
        out = ev.call(wrapper, [phi, theta, levels, Sym("zc"), Sym("zo"), Sym("lev")], {"suffix": "_sfx"}, None)
    except Unmodelled as e:
        ctx.unknown("R07.4", "conservative_interpolation", str(e))
        return
    except Raised as r:
        ctx.report("R07.4", raw, "conservative_interpolation wrapper", f"a plain call of the wrapper raises {r.typ}" + (f" ({r.msg})" if r.msg else ""))
        return
    except Exception as e:
        ctx.unknown("R07.4", "conservative_interpolation", f"{type(e).__name__}: {e}")
        return
    bad = None
    if len(au) != 1:
        bad = "xr.apply_ufunc is not called exactly once"
    else:
        a, kw = au[0]
        icd, ocd = kw.get("input_core_dims"), kw.get("output_core_dims")
        k, _kernel_kwargs = applied_function(a[0], kw)
        if not (isinstance(k, FuncV) and k.name.endswith("interp_1d_conservative")):
            bad = f"apply_ufunc is not applied to interp_1d_conservative ({k!r})"
        names = [x.name if isinstance(x, Obj) else None for x in a[1:]]
        if names != ["phi", "theta", "levels"]:
            bad = bad or f"arguments {names}; expected (phi, theta, target levels)"
        if not (isinstance(icd, (list, tuple)) and len(icd) == 3 and all(len(x) == 1 for x in icd)):
            bad = bad or f"input_core_dims={icd!r}; expected one core dim for each of phi, theta, target"
        else:
            if not all(isinstance(x, Obj) and "dims" in x.attrs for x in a[1:4]) or len(a) < 4:
                bad = bad or f"apply_ufunc is applied to {a[:4]!r}; expected the kernel followed by the three data arrays"
                dims_of = None
            else:
                dims_of = [a[1].attrs["dims"], a[2].attrs["dims"], a[3].attrs["dims"]]
            if dims_of is not None and not (icd[0][0] in dims_of[0] and icd[1][0] in dims_of[1] and icd[2][0] in dims_of[2] and icd[0][0] != Sym("t")):
                bad = bad or f"input_core_dims={icd!r} are not the column dimensions of the respective arguments {dims_of}"
        if not (isinstance(ocd, (list, tuple)) and len(ocd) == 1 and len(ocd[0]) == 1):
            bad = bad or f"output_core_dims={ocd!r}"
        else:
            sizes = (kw.get("dask_gufunc_kwargs") or {}).get("output_sizes", {})
            if Lin.of(sizes.get(ocd[0][0])) != Lin.sym("len_target") - Lin.of(1):
                bad = bad or f"the new dimension is declared with size {sizes.get(ocd[0][0])!r}; n bin edges give n-1 bins"
        if kw.get("dask") != "parallelized":
            bad = bad or f"dask={kw.get('dask')!r}"
        # the kernel must see the caller's three arrays themselves (dimension renames aside): data, cell bounds, bin edges
        for pos, nm in ((1, "phi"), (2, "theta"), (3, "levels")):
            x = a[pos] if len(a) > pos else None
            ops = [e[0] for e in x.eff] if isinstance(x, Obj) else None
            if not (isinstance(x, Obj) and x.name == nm and all(op in ("rename", "transpose", "copy") for op in ops)):
                bad = bad or (f"argument {pos} of the kernel is {x!r} (operations {ops}); the caller's `{nm}` values must be passed as they are" +
                              (" - a subscript with the dimension name selects the dimension *coordinate*, not the array of bin edges" if ops and "getitem" in ops else ""))
    if not bad and isinstance(out, Obj):
        others, unknown_ops = foreign_ops(out.eff)
        if unknown_ops:
            ctx.unknown("R07.4", "conservative_interpolation wrapper", f"operation(s) {unknown_ops} on the wrapper's result")
            return
        if others:
            bad = f"the wrapper returns its result after {[e[0] for e in out.eff]}: the kernel's output is altered by {others}"
    if not bad:
        if not (isinstance(out, Obj) and out.name == "APPLIED" and out.attrs.get("dims", ())[-1] == Sym("lev")):
            bad = f"the result's new dimension is {getattr(out, 'attrs', {}).get('dims')}, expected the target's dimension `lev`"
        else:
            ac = [e for e in out.eff if e[0] == "assign_coords"]
            ok = False
            for e in ac:
                m = e[1][0] if e[1] else {}
                idx = out.eff.index(e)
                for key0, c in (m.items() if isinstance(m, dict) else []):
                    key = key0
                    for later in out.eff[idx + 1:]:
                        if later[0] == "rename" and isinstance(later[1], dict):
                            key = later[1].get(key, key)
                    if key != Sym("lev"):
                        continue
                    # (data[1:] + data[:-1]) / 2
                    if isinstance(c, Obj) and c.name == "levels.data" and [x[0] for x in c.eff] == ["getitem", "add", "div"] and c.eff[2][1] == 2:
                        s1, other = c.eff[0][1], c.eff[1][1]
                        s2 = other.eff[0][1] if isinstance(other, Obj) and other.eff and other.eff[0][0] == "getitem" else None
                        if {repr(s1), repr(s2)} == {repr(SliceV(1, None, None)), repr(SliceV(None, -1, None))}:
                            ok = True
            if not ok:
                ctx.note("coordinate_lineage", repr([(e[0], e[1:]) for e in ac]))
                bad = "the new coordinate is not the mid-points (t[1:] + t[:-1]) / 2 of consecutive bin edges"
    if bad:
        ctx.report("R07.4", raw, "conservative_interpolation wrapper", bad)
    else:
        ctx.ok("R07.4", "conservative_interpolation wrapper", "core dims per argument, n-1 output points, mid-point coordinate")


def _guards(ctx, P):
    from .c20 import Battery, _transform

    B = Battery(ctx)
    sub = _Sub(ctx)
    _transform(sub, P, Battery(sub))
    # target_data on centres is interpolated to the outer position with boundary='extend'
    tfi = P.func("transform:transform")
    seen = []

    def m_grid_interp(ev, args, kw, node):
        b = dict(zip(["self", "da", "axis"], args))  # Grid.interp(self, da, axis, **kwargs), by position or by keyword
        b.update(kw)
        seen.append(([b.get("self"), b.get("da"), b.get("axis")], {k: v for k, v in b.items() if k not in ("self", "da", "axis")}))
        return make_da("td_on_outer", [Sym("t"), dimsym("AZ", "outer")], name=Sym("tdn"))

    cons = []

    def m_cons(ev, args, kw, node):
        cons.append((list(args), dict(kw)))
        ev.events.append(("cons-call", list(args), dict(kw)))
        return Obj("DataArray", "RESULT")

    mm = dict(da_method_models())
    mm[("DataArray", "chunk")] = lambda ev, recv, a, k, n: recv.with_eff(("chunk", a[0] if a else dict(k)))
    ev = Evaluator(P, models={"warnings.warn": lambda ev, a, k, n: None, "transform:conservative_interpolation": m_cons, "grid:Grid.interp": m_grid_interp},
                   attr_models=da_attr_models(), method_models=mm)
    AZ = Sym("AZ")
    mm[("Dataset", "__getitem__")] = lambda ev, recv, a, k, n: make_da("grid_coordinate", [a[0]], name=a[0], key=a[0], of=recv.name)
    for on, must_interp in (("center", True), ("outer", False), ("omitted", False)):
        seen.clear()
        cons.clear()
        try:
            g = make_grid(("AZ",), boundary="fill", fill_value=0.0, ds=Obj("Dataset", "grid_ds"))
            da = make_da("da", [Sym("t"), dimsym("AZ", "center")], name=Sym("nm"))
            td = make_da("td", [Sym("t"), dimsym("AZ", on)], name=Sym("tdn")) if on != "omitted" else None
            outs = ev.run_paths(tfi, lambda: dict(grid=g, axis_name=AZ, da=da, target=make_da("target", [Sym("lev")], coords={Sym("lev"): (Sym("lev"),)}), target_data=td, target_dim=None, method="conservative",
                                                  mask_edges=True, bypass_checks=False, suffix="_t"))
        except Unmodelled as e:
            ctx.unknown("R07.4", f"target_data on {on}", str(e))
            continue
        bad = None
        per_path = [[e[1:] for e in o.events if e[0] == "cons-call"] for o in outs]
        if any(o.kind != "return" for o in outs):
            bad = f"a plain call raises {[o.value for o in outs if o.kind != 'return'][0]}"
        elif any(len(c) != 1 for c in per_path):
            bad = "the conservative interpolation is not reached exactly once on every path"
        else:
          for (a, kw), in per_path:
            theta = a[1]
            from ..harness import foreign_ops

            if isinstance(a[2], Obj) and a[2].name == "target" and foreign_ops(a[2].eff)[0]:
                sel = a[2].eff[0]
                bad = bad or (f"the interpolation receives target[{sel[1]!r}] (the labels of the dimension coordinate) instead of the caller's bin edges" if sel[0] == "getitem"
                              else f"the bin edges are altered by {foreign_ops(a[2].eff)[0]} before the interpolation")
            if must_interp:
                if len(seen) != 1 or seen[0][1].get("boundary") != "extend" or seen[0][0][1].name != "td" or seen[0][0][2] != AZ:
                    bad = "target_data on cell centres is not interpolated to the cell bounds with boundary='extend' along the transform axis"
                elif theta.name != "td_on_outer":
                    bad = "the interpolated target_data is not what the kernel receives"
                else:
                    # interp leaves chunks along the axis; apply_ufunc(dask='parallelized') needs the core dimension in one chunk
                    ch = [e[1] for e in theta.eff if e[0] == "chunk"]
                    if ch and not (isinstance(ch[-1], dict) and ch[-1].get(dimsym("AZ", "outer")) == -1):
                        bad = f"the interpolated target_data is re-chunked to {ch[-1]!r}; its cell-bound dimension must be one chunk (-1) for the column-wise kernel"
            elif on == "omitted":
                # regridding along the axis' own coordinate: the cell bounds are the grid's coordinate on the outer position, as stored
                if not (isinstance(theta, Obj) and theta.name == "grid_coordinate" and theta.attrs.get("of") == "grid_ds" and theta.attrs.get("key") == dimsym("AZ", "outer")) or seen:
                    what = (f"the grid's coordinate {theta.attrs.get('key')!r}" if isinstance(theta, Obj) and theta.name == "grid_coordinate" else f"{theta!r}") + (" interpolated to the bounds" if seen else "")
                    bad = f"without target_data the cell bounds handed to the kernel are {what}; they must be the grid's own coordinate on the outer position, as stored"
                elif foreign_ops(theta.eff)[0]:
                    bad = f"the grid's outer coordinate is altered by {foreign_ops(theta.eff)[0]} before use"
            else:
                if seen or theta.name != "td":
                    bad = "target_data already on the cell bounds is altered before use"
            if a[0].name != "da" or a[3] != dimsym("AZ", "center") or a[4] != dimsym("AZ", "outer") or a[5] != Sym("lev"):
                bad = bad or f"dimensions handed to the interpolation are {a[3:6]!r}; expected (data dim, outer dim, target dim)"
        if bad:
            ctx.report("R07.4", tfi, f"transform(method='conservative'), target_data on {on}", bad)
        else:
            ctx.ok("R07.4", f"transform(method='conservative'), target_data on {on}", "interpolated to the bounds with 'extend'" if must_interp else "the grid's outer coordinate, as stored" if on == "omitted" else "used as given")


class _Sub:
    """Adapter: re-labels the C20 transform guards as R07.2 findings of C07."""

    def __init__(self, ctx):
        self.ctx = ctx
        self.project = ctx.project

    def ok(self, rule, inst, detail=""):
        if rule in ("G7", "G8", "G9") and ("conservative" in inst or rule != "G7"):
            self.ctx.ok("R07.2", inst, detail)

    def report(self, rule, fi, construct, message, node=None, path=None):
        if rule in ("G7", "G8", "G9") and ("conservative" in construct or rule != "G7"):
            self.ctx.report("R07.2", fi, construct, message, node, path)

    def unknown(self, rule, inst, reason):
        if rule in ("G7", "G8", "G9"):
            self.ctx.unknown("R07.2", inst, reason)
