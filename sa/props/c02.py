"""C02 - boundary rule resolution and padding widths (structural necessary conditions).

All rules are decided by whole-function abstract evaluation (absint) on every spelling:
  R02.1 per-call resolution in pad(): rule/fill value handed to the basic padding = the caller's value for an
        axis it names (scalar, total or partial mapping), else the Axis default - for both arguments;
  R02.3 constructor resolution in Grid.__init__ / Axis.__init__: periodic as bool / list / mapping x boundary
        and fill_value as None / scalar / total / partial mapping -> per-axis rule and fill value
        (explicit setting, else periodic wrap for a periodic axis and fill with 0 for a non-periodic one;
        a list makes every axis it does not name non-periodic);
  R02.4 _pad_basic: one xarray.pad per requested axis, (lower, upper) unchanged, rule -> mode table;
  R02.5 zero-width short-circuit exactly when every pair is (0, 0); widths passed through unchanged.
"""
from __future__ import annotations

import itertools

from ..absint import TOP, Evaluator, Lin, Obj, Sym, Unmodelled
from ..harness import foreign_ops, da_attr_models, da_method_models
from ..xmodel import COMMON_MODELS, bind_by_position, dimsym, make_axis, make_da, make_grid
from .c01 import check_pad_basic

EXPLANATION = (
    "Whole-function abstract evaluation of padding.pad (with Grid._complete_user_kwargs_using_axis_defaults and "
    "_map_kwargs_over_axes inlined) for every spelling {None, scalar, total mapping, partial mapping} of boundary and "
    "fill_value on a two-axis grid; of Grid.__init__ + Axis.__init__ for periodic in {True, False, list, empty list, mapping} "
    "x boundary/fill_value spellings; of _pad_basic for the three rules with symbolic widths; and of the zero-width "
    "short-circuit. The per-axis settings extracted are compared with the resolution order stated in the property."
)
ASSUMPTIONS = ["xarray.pad leaves original values in place and fills as numpy.pad documents", "a Grid with two axes is representative for the per-axis resolution (the code treats axes uniformly in loops over grid.axes)"]
TECHNIQUE = "decision-table extraction by abstract evaluation of pad / Grid.__init__ / Axis.__init__ / _pad_basic over all argument spellings"
LEVEL_TEXT = (
    "Abstract interpretation of the source for every spelling of the arguments: the rule and fill value that reach the basic padding are the "
    "per-call value for the axes it names, else the axis default; the constructor turns periodic (bool/list/mapping) and boundary/fill_value "
    "(None/scalar/total/partial mapping) into exactly the per-axis settings the property states; _pad_basic's xarray.pad calls (however grouped) give every requested "
    "dimension its own (lower, upper) pair and the mode wrap/constant(+that axis' fill value)/edge, and nothing else touches the values; arguments not "
    "given at all resolve like None; pad returns the input only when every width is (0, 0). This decides "
    "the resolution table and widths for all shapes and values structurally; xarray.pad itself is trusted."
    " Also decided: a zero-width entry anywhere in the widths mapping leaves the other axes' widths intact, and (two calls interpreted as one sequence on one modelled Grid) the options of one call do not outlive it."
)
LEVEL_NOTE = "Trusted: xarray.pad semantics. One recorded known finding (periodic given as a list leaves unlisted axes periodic) - see known_findings.json."

AXES = ("AX", "AY")


def _grid_with_defaults():
    g = make_grid(AXES)
    g.attrs["axes"][Sym("AX")].attrs["_boundary"] = "periodic"
    g.attrs["axes"][Sym("AX")].attrs["_fill_value"] = 1.5
    g.attrs["axes"][Sym("AY")].attrs["_boundary"] = "extend"
    g.attrs["axes"][Sym("AY")].attrs["_fill_value"] = 2.5
    return g


DEFAULTS = {"boundary": {"AX": "periodic", "AY": "extend"}, "fill_value": {"AX": 1.5, "AY": 2.5}}
OMIT = object()  # the caller does not mention the argument at all: the default of pad()'s own signature applies
SPELLINGS = {
    "boundary": {
        "not given": (OMIT, {}),
        "None": (None, {}),
        "scalar": ("fill", {"AX": "fill", "AY": "fill"}),
        "empty mapping": ({}, {}),
        "total mapping": ({Sym("AX"): "fill", Sym("AY"): "periodic"}, {"AX": "fill", "AY": "periodic"}),
        "partial mapping (AX)": ({Sym("AX"): "extend"}, {"AX": "extend"}),
        "partial mapping (AY)": ({Sym("AY"): "fill"}, {"AY": "fill"}),
    },
    "fill_value": {
        "not given": (OMIT, {}),
        "None": (None, {}),
        "scalar": (9.0, {"AX": 9.0, "AY": 9.0}),
        "scalar zero": (0, {"AX": 0, "AY": 0}),
        "scalar 0.0": (0.0, {"AX": 0.0, "AY": 0.0}),
        "mapping with a zero": ({Sym("AX"): 0.0}, {"AX": 0.0}),
        "empty mapping": ({}, {}),
        "total mapping": ({Sym("AX"): 3.0, Sym("AY"): 4.0}, {"AX": 3.0, "AY": 4.0}),
        "partial mapping (AX)": ({Sym("AX"): 3.0}, {"AX": 3.0}),
        "partial mapping (AY)": ({Sym("AY"): 4.0}, {"AY": 4.0}),
    },
}


def run_pad(P, boundary, fill_value, widths, data=None, grid=None, other=None):
    calls = []

    def m_pad_basic(ev, args, kw, node):
        b = bind_by_position(ev, "padding:_pad_basic", ["da", "grid", "padding_width", "padding", "fill_value"], args, kw)
        calls.append(b)
        d = b.get("da")
        return d.with_eff(("PAD_BASIC",)) if isinstance(d, Obj) else TOP

    def m_pad_fc(ev, args, kw, node):
        b = bind_by_position(ev, "padding:_pad_face_connections", ["da", "grid", "padding_width", "padding", "fill_value", "other_component"], args, kw)
        b["__face__"] = True
        calls.append(b)
        d = b.get("da")
        if isinstance(d, dict) and len(d) == 1:
            (d,) = d.values()
        return d.with_eff(("PAD_FACE",)) if isinstance(d, Obj) else TOP

    ev = Evaluator(P, models={"padding:_pad_basic": m_pad_basic, "padding:_pad_face_connections": m_pad_fc},
                   attr_models=da_attr_models(), method_models=da_method_models())
    fi = P.func("padding:pad")
    import copy

    def make():
        g = grid() if grid is not None else _grid_with_defaults()
        d = data() if data is not None else make_da("da", [Sym("t"), dimsym("AX", "center"), dimsym("AY", "center")])
        a = dict(data=d, grid=g, boundary_width=copy.deepcopy(widths), boundary=boundary if boundary is OMIT else copy.deepcopy(boundary),
                 fill_value=fill_value if fill_value is OMIT else copy.deepcopy(fill_value), other_component=other)
        return {k: v for k, v in a.items() if v is not OMIT}

    calls.clear()
    outs = []
    # run_paths resets events per path; we collect calls per path ourselves
    res = []
    fi_paths = ev.run_paths(fi, make)
    return fi_paths, calls


def in_force(P, boundary, fill_value, axnames=("AX",)):
    """The (rule, fill value) mappings that pad() itself puts in force for the given per-call values on a grid with the
    given axes: two spellings of an option are the same request iff these agree.  The opaque tokens $USER_BOUNDARY /
    $USER_FILL of the harnesses stand for a rule word and a number different from the grid's defaults.  None if pad() refuses."""
    from ..xmodel import make_grid

    def subst(v):
        if isinstance(v, dict):
            return {k: subst(x) for k, x in v.items()}
        if isinstance(v, (list, tuple)):
            return type(v)(subst(x) for x in v)
        if v == Sym("USER_BOUNDARY"):
            return "extend"
        if v == Sym("USER_FILL"):
            return 7.25
        # the opaque Grid-level defaults of the harness grids (xmodel.make_axis) stand for this grid's defaults
        if isinstance(v, Sym) and v.name.startswith("boundary_default_"):
            return "fill"
        if isinstance(v, Sym) and v.name.startswith("fill_default_"):
            return 0.5
        return v

    paths, calls = run_pad(P, subst(boundary), subst(fill_value), {Sym(a): (1, 1) for a in axnames}, grid=lambda: make_grid(axnames, boundary="fill", fill_value=0.5),
                           data=lambda: make_da("da", [Sym("t")] + [dimsym(a, "center") for a in axnames]))
    if not paths or any(o.kind != "return" for o in paths) or not calls:
        return None
    got = [(c.get("padding"), c.get("fill_value")) for c in calls]
    return got[0] if all(g == got[0] for g in got) else None


def same_option(P, name, arrived, wanted, axnames=("AX",)):
    """Is `arrived` the same request for the option `name` ('boundary' / 'fill_value') as `wanted`: identical, or resolved by
    pad() to the same mapping in force (e.g. the caller's value already completed with the axis defaults)?"""
    if arrived == wanted:
        return True
    if name not in ("boundary", "fill_value"):
        return False
    try:
        if name == "boundary":
            a, w = in_force(P, arrived, None, axnames), in_force(P, wanted, None, axnames)
            return a is not None and w is not None and a[0] == w[0]
        a, w = in_force(P, "fill", arrived, axnames), in_force(P, "fill", wanted, axnames)
        return a is not None and w is not None and a[1] == w[1]
    except Unmodelled:
        return False


def _sequence(ctx, P):
    """R02.4: the options of one call do not outlive it - a later pad() on the same Grid that leaves an option out gets the
    axis defaults, exactly as on a fresh Grid (two calls interpreted as one sequence on one modelled Grid)."""
    from ..harness import driver
    from ..xmodel import make_grid

    padfi = P.func("padding:pad")
    fi = driver("padding", "def _two_pads(data, grid, widths, b1, f1, b2, f2):\n    pad(data, grid, widths, b1, f1)\n    return pad(data, grid, widths, b2, f2)\n")
    AX, AY = Sym("AX"), Sym("AY")
    cases = [
        ("partial mappings, then nothing", {AX: "fill"}, {AX: -3.0}, None, None),
        ("total mappings, then nothing", {AX: "fill", AY: "periodic"}, {AX: -3.0, AY: 2.0}, None, None),
        ("scalars, then nothing", "fill", -3.0, None, None),
        ("partial mappings, then a scalar rule only", {AY: "fill"}, {AY: 9.0}, "fill", None),
        ("partial mapping, then the other axis", {AX: "periodic"}, {AX: 4.0}, {AY: "fill"}, None),
    ]
    for name, b1, f1, b2, f2 in cases:
        inst = f"two pad() calls on one Grid: {name}"

        def run(first):
            seen = []

            def m_pad_basic(ev, args, kw, node):
                b = bind_by_position(ev, "padding:_pad_basic", ["da", "grid", "padding_width", "padding", "fill_value"], args, kw)
                ev.events.append(("pad-basic", dict(b.get("padding") or {}), dict(b.get("fill_value") or {})))
                d = b.get("da")
                return d.with_eff(("PAD_BASIC",)) if isinstance(d, Obj) else TOP

            ev = Evaluator(P, models={"padding:_pad_basic": m_pad_basic}, attr_models=da_attr_models(), method_models=da_method_models())
            import copy

            outs = ev.run_paths(fi, lambda: dict(data=make_da("da", [Sym("t"), dimsym("AX", "center"), dimsym("AY", "center")]), grid=make_grid(("AX", "AY"), boundary="extend", fill_value=0.5),
                                                 widths={AX: (1, 1), AY: (1, 1)}, b1=copy.deepcopy(b1) if first else copy.deepcopy(b2), f1=copy.deepcopy(f1) if first else copy.deepcopy(f2),
                                                 b2=copy.deepcopy(b2), f2=copy.deepcopy(f2)))
            res = set()
            for o in outs:
                if o.kind != "return":
                    return None
                pb = [e for e in o.events if e[0] == "pad-basic"]
                if len(pb) != 2:
                    return None
                res.add((tuple(sorted(pb[1][1].items(), key=repr)), tuple(sorted(pb[1][2].items(), key=repr))))
            return res

        try:
            after, fresh = run(True), run(False)  # second call after the first one / after an identical call (= a fresh Grid's answer)
        except Unmodelled as e:
            ctx.unknown("R02.6", inst, str(e))
            continue
        if after is None or fresh is None or len(fresh) != 1:
            ctx.unknown("R02.6", inst, "the sequence does not evaluate to two basic paddings on every path")
        elif after != fresh:
            a, f = sorted(after)[0], sorted(fresh)[0]
            ctx.report("R02.6", padfi, inst, f"the second call is padded with rule {dict(a[0])!r} / fill {dict(a[1])!r}; on a Grid that has not seen the first call it is {dict(f[0])!r} / {dict(f[1])!r}: per-call options leak into the Grid's defaults")
        else:
            ctx.ok("R02.6", inst, "the second call is answered as on a fresh Grid")


def check(ctx):
    P = ctx.project
    _sequence(ctx, P)
    padfi = P.func("padding:pad")
    W = {Sym("AX"): (1, 0), Sym("AY"): (0, 2)}

    # ---------------- R02.1 per-call resolution, both arguments, every spelling
    def same_where_it_matters(got, exp, rules, partial):
        """Fill values compared on every axis - or, when the tree hands the padding a table of xarray.pad arguments (which carries
        a fill value only for the axes that are filled), on the axes whose rule is 'fill'."""
        if not isinstance(got, dict):
            return False
        axes = [k for k in exp if not partial or (isinstance(rules, dict) and rules.get(k) == "fill")]
        return {k: got.get(k) for k in axes} == {k: exp[k] for k in axes}

    for arg, fixed_rule in (("boundary", None), ("fill_value", None), ("fill_value", "fill")):
        for name, (value, named) in SPELLINGS[arg].items():
            inst = f"pad({arg}={name})" + (f" with boundary={fixed_rule!r}" if fixed_rule else "")
            kw = {"boundary": fixed_rule, "fill_value": None}
            kw[arg] = value
            try:
                outs, calls = run_pad(P, kw["boundary"], kw["fill_value"], W)
            except Unmodelled as e:
                ctx.unknown("R02.1", inst, str(e))
                continue
            bad = None
            if any(o.kind != "return" for o in outs):
                o = [o for o in outs if o.kind != "return"][0]
                bad = f"raises {o.value} (a mapping may name only some axes)"
            elif len(calls) != len(outs) or not calls:
                bad = "the basic padding is not called exactly once"
            else:
                exp = {Sym(a): named.get(a, DEFAULTS[arg][a]) for a in AXES}
                key = "padding" if arg == "boundary" else "fill_value"
                for c in calls:
                    partial = bool(c.get("__fill_only_where_constant__"))
                    got = c.get(key)
                    ok = ({k: got.get(k) for k in exp} == exp) if (isinstance(got, dict) and key == "padding") else same_where_it_matters(got, exp, c.get("padding"), partial)
                    if not ok:
                        bad = f"rule in force reaching the padding is {got!r}; expected {exp!r} (the caller's value for named axes, else the axis default)"
                    other_key = "fill_value" if arg == "boundary" else "padding"
                    oexp = {Sym(a): (fixed_rule if (fixed_rule and arg == "fill_value") else DEFAULTS["fill_value" if arg == "boundary" else "boundary"][a]) for a in AXES}
                    ogot = c.get(other_key)
                    ook = ({k: ogot.get(k) for k in oexp} == oexp) if (isinstance(ogot, dict) and other_key == "padding") else same_where_it_matters(ogot, oexp, c.get("padding"), partial)
                    if not ook:
                        bad = bad or f"the argument that was not given resolves to {ogot!r} instead of the axis defaults {oexp!r}"
                    if c.get("padding_width") != W:
                        bad = bad or f"widths {c.get('padding_width')!r} reach the padding instead of the requested {W!r}"
            if bad:
                ctx.report("R02.1", padfi, inst, bad)
            else:
                ctx.ok("R02.1", inst, "caller's value for named axes, axis default otherwise; widths unchanged")

    # ---------------- R02.5 zero-width short-circuit
    cases = [
        ("all zero", {Sym("AX"): (0, 0), Sym("AY"): (0, 0)}, False),
        ("None", None, False),
        ("one lower", {Sym("AX"): (1, 0), Sym("AY"): (0, 0)}, True),
        ("one upper on second axis", {Sym("AX"): (0, 0), Sym("AY"): (0, 1)}, True),
        ("single axis upper", {Sym("AY"): (0, 3)}, True),
        ("zero-width axis listed first", {Sym("AY"): (0, 0), Sym("AX"): (1, 2)}, True),
        ("zero-width axis listed last", {Sym("AX"): (1, 2), Sym("AY"): (0, 0)}, True),
    ]
    for name, w, must_pad in cases:
        inst = f"widths {name}"
        try:
            outs, calls = run_pad(P, None, None, w)
        except Unmodelled as e:
            ctx.unknown("R02.5", inst, str(e))
            continue
        bad = None
        for o in outs:
            if o.kind != "return":
                bad = f"raises {o.value}"
            elif must_pad and not calls:
                bad = "non-zero widths requested but nothing is padded"
            elif must_pad and any({k: tuple(v) for k, v in (c.get("padding_width") or {}).items() if tuple(v) != (0, 0)} != {k: tuple(v) for k, v in w.items() if tuple(v) != (0, 0)} for c in calls):
                got = [c.get("padding_width") for c in calls][0]
                bad = f"the widths reaching the padding are {got!r}; every axis with a non-zero pair in {w!r} must be padded by exactly that pair (wherever a zero-width axis stands in the mapping)"
            elif not must_pad and (calls or not (isinstance(o.value, Obj) and o.value.name == "da" and not [e for e in o.value.eff if e[0].startswith("PAD")])):
                bad = "all widths are zero but the array is padded / not returned as given"
            elif isinstance(o.value, Obj):
                # what pad() returns is the (coordinate-stripped) input, padded - nothing else may touch the values
                others, unknown_ops = foreign_ops(o.value.eff, expected=("PAD_BASIC", "PAD_FACE"))
                if unknown_ops:
                    raise Unmodelled(f"operation(s) {unknown_ops} on the array pad() returns")
                if o.value.name != "da" or others:
                    bad = f"pad() returns {o.value.name!r} after {[e[0] for e in o.value.eff]}: besides stripping coordinates and padding, the values go through {others or 'another array'}"
        if bad:
            ctx.report("R02.5", padfi, inst, bad)
        else:
            ctx.ok("R02.5", inst, "pads" if must_pad else "returns the input")

    # ---------------- R02.4 / R01.5
    check_pad_basic(ctx, P, "R02.4")

    # ---------------- R02.3 constructor resolution
    _check_constructor(ctx, P)


def run_grid_init(P, periodic, boundary, fill_value, axes=AXES):
    import copy

    fi = P.func("grid:Grid.__init__")

    def m_warn(ev, args, kw, node):
        return None

    ev = Evaluator(P, models={"warnings.warn": m_warn})

    def make():
        coords = {Sym(a): {"center": dimsym(a, "center"), "left": dimsym(a, "left")} for a in axes}
        dims = tuple(d for a in axes for d in (dimsym(a, "center"), dimsym(a, "left")))
        ds = Obj("Dataset", "ds", (), {"dims": dims, "__isinstance__": ("Dataset",)})
        me = Obj("Grid", "self", (), {"__class__": "grid:Grid"})
        return dict(self=me, ds=ds, coords=coords, periodic=copy.deepcopy(periodic), fill_value=copy.deepcopy(fill_value), default_shifts=None,
                    boundary=copy.deepcopy(boundary), face_connections=None, metrics=None, autoparse_metadata=False)

    return ev.run_paths(fi, make)


def _check_constructor(ctx, P):
    fi = P.func("grid:Grid.__init__")
    periodics = {
        "True": (True, {"AX": True, "AY": True}),
        "False": (False, {"AX": False, "AY": False}),
        "['AX']": ([Sym("AX")], {"AX": True, "AY": False}),
        "['AY']": ([Sym("AY")], {"AX": False, "AY": True}),
        "['AX','AY']": ([Sym("AX"), Sym("AY")], {"AX": True, "AY": True}),
        "[]": ([], {"AX": False, "AY": False}),
        "{'AX': False}": ({Sym("AX"): False}, {"AX": False, "AY": True}),
        "{'AX': True, 'AY': False}": ({Sym("AX"): True, Sym("AY"): False}, {"AX": True, "AY": False}),
    }
    boundaries = {
        "None": (None, {}),
        "'extend'": ("extend", {"AX": "extend", "AY": "extend"}),
        "{'AX': 'extend'}": ({Sym("AX"): "extend"}, {"AX": "extend"}),
        "{'AY': 'fill'}": ({Sym("AY"): "fill"}, {"AY": "fill"}),
        "{'AX': 'fill', 'AY': 'periodic'}": ({Sym("AX"): "fill", Sym("AY"): "periodic"}, {"AX": "fill", "AY": "periodic"}),
        "{'AX': None, 'AY': 'extend'}": ({Sym("AX"): None, Sym("AY"): "extend"}, {"AY": "extend"}),
    }
    fills = {
        "None": (None, {}),
        "7.5": (7.5, {"AX": 7.5, "AY": 7.5}),
        "{'AY': 3.0}": ({Sym("AY"): 3.0}, {"AY": 3.0}),
    }
    for (pn, (pv, pexp)), (bn, (bv, bexp)) in itertools.product(periodics.items(), boundaries.items()):
        fn, (fv, fexp) = ("None", fills["None"]) if (pn, bn) != ("False", "None") else ("None", fills["None"])
        _one_ctor(ctx, P, fi, pn, pv, pexp, bn, bv, bexp, "None", None, {})
    for fn, (fv, fexp) in fills.items():
        if fn != "None":
            _one_ctor(ctx, P, fi, "False", False, periodics["False"][1], "None", None, {}, fn, fv, fexp)
    # the Grid-level fill value is kept whatever the rule of the axis is at construction (a per-call boundary='fill' on a
    # periodic axis uses it)
    for fn, (fv, fexp) in fills.items():
        if fn == "None":
            continue
        for pn in ("True", "['AX']", "{'AX': False}"):
            for bn in ("None", "{'AY': 'fill'}"):
                _one_ctor(ctx, P, fi, pn, periodics[pn][0], periodics[pn][1], bn, boundaries[bn][0], boundaries[bn][1], fn, fv, fexp)


def _one_ctor(ctx, P, fi, pn, pv, pexp, bn, bv, bexp, fn, fv, fexp):
    inst = f"Grid(periodic={pn}, boundary={bn}, fill_value={fn})"
    try:
        outs = run_grid_init(P, pv, bv, fv)
    except Unmodelled as e:
        ctx.unknown("R02.3", inst, str(e))
        return
    want_b = {a: bexp.get(a) or ("periodic" if pexp[a] else "fill") for a in AXES}
    want_f = {a: fexp.get(a, 0) for a in AXES}
    for o in outs:
        if o.kind != "return":
            ctx.report("R02.3", fi, inst, f"the constructor raises {o.value} (line {getattr(getattr(o.exc, 'node', None), 'lineno', '?')}); every spelling, including mappings that name only some axes, must be accepted")
            return
        axes = o.env.get("self").attrs.get("axes")
        if not isinstance(axes, dict):
            ctx.unknown("R02.3", inst, "self.axes not built")
            return
        got_b = {a: axes[Sym(a)].attrs.get("_boundary") for a in AXES}
        got_f = {a: axes[Sym(a)].attrs.get("_fill_value") for a in AXES}
        if got_b != want_b:
            wrong = [a for a in AXES if got_b[a] != want_b[a]]
            listed = isinstance(pv, list)
            construct = "periodic list: unlisted axis stays periodic" if listed and all(got_b[a] == "periodic" and want_b[a] == "fill" and not pexp[a] for a in wrong) and bexp.get(wrong[0]) is None else inst
            ctx.report("R02.3", fi, construct, f"{inst}: rule in force {got_b}, expected {want_b} (explicit setting, else periodic wrap for a periodic axis, fill for a non-periodic one; a list makes the axes it does not name non-periodic)")
            return
        if got_f != want_f:
            ctx.report("R02.3", fi, inst + " [fill]", f"fill value in force {got_f}, expected {want_f} (explicit setting, else 0)")
            return
    ctx.ok("R02.3", inst, f"rules {want_b}, fill values {want_f}")
