"""C08 - linear and log transforms are exact piecewise-linear interpolation per column (structural part).

  R08.1 option threading  - transform() hands mask_edges, bypass_checks, logarithmic=(method=='log') and suffix to
        linear_interpolation, which hands everything but suffix to the kernel through xr.apply_ufunc(kwargs=...);
        no public parameter of transform is dead;
  R08.2 paired transformations - in _interp_1d_linear the direction flip is applied to theta and phi together (or to
        neither), never under bypass_checks; np.interp is called with (query=target levels, xp=theta, fp=phi) and
        its result fills the whole output; the logarithm is applied to theta and the levels together, only when
        `logarithmic`;
  R08.3 edge masking (order types of a level against min/max of theta): NaN exactly for levels strictly outside
        [min, max], only under mask_edges;
  R08.4 naming - result name = phi.name + suffix; new dimension = the target's own dimension for a DataArray target
        and target_data.name for a bare array; temporary dimension names are renamed back;
  R08.5 guards - periodic-axis refusal before interpolating (shared with C20); target_data with dimensions that da
        lacks is refused.
That np.interp is the piecewise-linear interpolant and column independence under dask are library behaviour.
"""
from __future__ import annotations

from ..absint import Raised, TOP, Evaluator, FuncV, Lin, Obj, SliceV, Sym, Unmodelled
from ..harness import applied_function, foreign_ops, da_attr_models, da_method_models
from ..kernel import KernelEval, OrderType
from ..xmodel import dimsym, make_da, make_grid

EXPLANATION = (
    "Abstract evaluation of transform(), linear_interpolation (through the input_handling decorator), interp_1d_linear and the "
    "_interp_1d_linear kernel: which options arrive where, which arrays are flipped/logged together, the argument roles of "
    "np.interp, the mask by order types of a level against the range, the names given to result and dimension."
)
ASSUMPTIONS = ["np.interp(x, xp, fp) is the piecewise-linear interpolant for increasing xp", "numba compiles the kernel with Python semantics"]
TECHNIQUE = "abstract evaluation of the transform call chain + order-type enumeration of the edge mask"
LEVEL_TEXT = (
    "Decided on the source: every documented option of transform reaches the code that consumes it (suffix included); theta and phi are reversed together "
    "or not at all and never under bypass_checks; np.interp receives (levels, theta, phi) in these roles and fills the whole output; log is taken of theta "
    "and of the levels together; levels are masked exactly when strictly outside [min, max] and only under mask_edges; the result is named input+suffix "
    "and the new dimension after the target (or target_data for a bare array). The interpolant itself (np.interp) and dask column independence are trusted."
    " Target levels re-arranged on the way into / out of the kernel are decided on representative level vectors; the shortest profiles (two valid values) and the empty suffix are cases."
)
LEVEL_TEXT += " Also decided: with target_data omitted the caller's bypass_checks / mask_edges / suffix still reach the interpolation; a mask range initialised with infinities is read as such."
LEVEL_NOTE = "Trusted: np.interp; numba = Python semantics. numba is absent here, so no pinned test executes transform.py at all."


def check(ctx):
    P = ctx.project
    for q in ("transform:transform", "transform:linear_interpolation", "transform:interp_1d_linear", "transform:_interp_1d_linear", "transform:input_handling"):
        if not P.has_func(q):
            ctx.unknown("R08.1", q, "anchor function missing")
            return
    _threading(ctx, P)
    _method_wrapper(ctx, P)
    _kernel(ctx, P)
    _mask_many(ctx, P)
    _log(ctx, P)
    _naming(ctx, P)
    _guards(ctx, P)


def _method_wrapper(ctx, P):
    """R08.1: Grid.transform hands its own arguments to transform.transform, each to the parameter of that meaning, and
    every keyword option of the caller unchanged."""
    gfi = P.func("grid:Grid.transform")
    tfi = P.func("transform:transform")
    got = []

    def m_transform(ev, args, kw, node):
        names = [a.arg for a in tfi.node.args.posonlyargs + tfi.node.args.args]
        b = dict(zip(names, args))
        b.update(kw)
        got.append(b)
        return Obj("DataArray", "TRANSFORMED")

    opts = {"target_data": Sym("U_TD"), "target_dim": Sym("U_TDIM"), "method": Sym("U_METHOD"), "mask_edges": Sym("U_MASK"), "bypass_checks": Sym("U_BYPASS"), "suffix": Sym("U_SUFFIX")}
    ev = Evaluator(P, models={"transform:transform": m_transform})
    g = make_grid(("AZ",))
    kwname = gfi.params[3]
    try:
        outs = ev.run_paths(gfi, lambda: {"self": g, "da": Sym("U_DA"), "axis": Sym("U_AXIS"), "target": Sym("U_TARGET"), **({kwname: dict(opts)} if kwname else dict(opts))})
    except Unmodelled as e:
        ctx.unknown("R08.1", "Grid.transform -> transform", str(e))
        return
    rets = [o for o in outs if o.kind == "return"]
    bad = None
    if not rets or len(got) < 1:
        bad = f"Grid.transform never reaches transform.transform ({[(o.kind, o.value) for o in outs]})"
    else:
        b = got[-1]
        want = {"grid": g, "axis_name": Sym("U_AXIS"), "da": Sym("U_DA"), "target": Sym("U_TARGET"), **opts}
        for k, v in want.items():
            if k not in b or (b[k] is not v and b[k] != v):
                bad = f"transform() receives {k}={b.get(k, '<nothing>')!r}; the caller's {'grid' if k == 'grid' else 'value ' + repr(v)} must arrive there"
                break
        if not bad and not all(isinstance(o.value, Obj) and o.value.name == "TRANSFORMED" for o in rets):
            bad = "the result of transform() is not what Grid.transform returns"
    if bad:
        ctx.report("R08.1", gfi, "Grid.transform -> transform", bad)
    else:
        ctx.ok("R08.1", "Grid.transform -> transform", "grid, axis, data, target and all six options arrive at the parameter of that meaning")


OMIT = object()


def run_transform(P, method="linear", target=None, target_data="given", target_dim=None, da_dims=None, td_dims=None, td_name=Sym("tdn"), **opts):
    tfi = P.func("transform:transform")
    calls = []

    def m_lin(ev, args, kw, node):
        calls.append(("linear", list(args), dict(kw)))
        ev.events.append(("interp-call", "linear", list(args), dict(kw)))
        return Obj("DataArray", "LINEAR-RESULT")

    def m_cons(ev, args, kw, node):
        calls.append(("conservative", list(args), dict(kw)))
        ev.events.append(("interp-call", "conservative", list(args), dict(kw)))
        return Obj("DataArray", "CONSERVATIVE-RESULT")

    def m_xr_da(ev, args, kw, node):
        b = dict(zip(["data", "coords", "dims"], args))
        b.update(kw)
        return make_da("WRAPPED", list(b.get("dims") or []), wrapped=b.get("data"), coords_arg=b.get("coords"))

    def rename(ev, recv, args, kw, node):
        if args and not isinstance(args[0], dict):
            return recv.with_eff(("rename-name", args[0]), name=args[0])
        return recv.with_eff(("rename", dict(args[0]) if args else dict(kw)))

    mm = dict(da_method_models())
    mm[("DataArray", "rename")] = rename
    mm[("DataArray", "chunk")] = lambda ev, recv, a, k, n: recv
    mm[("Dataset", "__getitem__")] = lambda ev, recv, a, k, n: make_da("grid_coordinate", [a[0]], name=a[0], key=a[0], of=recv.name)
    ev = Evaluator(P, models={"warnings.warn": lambda ev, a, k, n: None, "transform:linear_interpolation": m_lin, "transform:conservative_interpolation": m_cons,
                              "xarray.DataArray": m_xr_da, "grid:Grid.interp": lambda ev, a, k, n: make_da("td_outer", [Sym("t"), dimsym("AZ", "outer")], name=Sym("tdn"))},
                   attr_models=da_attr_models(), method_models=mm)

    def mk():
        g = make_grid(("AZ",), boundary="fill", fill_value=0.0, ds=Obj("Dataset", "grid_ds"))
        da = make_da("da", da_dims or [Sym("t"), dimsym("AZ", "center")], name=Sym("nm"))
        td = None
        if target_data == "given":
            td = make_da("td", td_dims or [Sym("t"), dimsym("AZ", "center")], name=td_name)
        # the target carries a dimension coordinate whose labels are not its values (level numbers, say)
        tg = target if target is not None else make_da("target", [Sym("lev")], coords={Sym("lev"): (Sym("lev"),)})
        b = dict(grid=g, axis_name=Sym("AZ"), da=da, target=tg, target_data=td, target_dim=target_dim, method=method, mask_edges=Sym("U_MASK"), bypass_checks=Sym("U_BYPASS"), suffix=Sym("U_SUFFIX"))
        b.update(opts)
        for k in [k for k, v in b.items() if v is OMIT]:
            del b[k]  # left out by the caller: the default of the source applies
        return b

    outs = ev.run_paths(tfi, mk)
    return outs, calls


def _threading(ctx, P):
    tfi = P.func("transform:transform")
    # a caller that does not mention bypass_checks gets the direction handling: strictly decreasing target_data is part of
    # the property for the plain call
    try:
        outs, calls = run_transform(P, "linear", bypass_checks=OMIT)
        got = [kw.get("bypass_checks") for kind, a, kw in calls]
        if len(calls) != 1 or got != [False]:
            ctx.report("R08.1", tfi, "transform() without bypass_checks", f"the kernel receives bypass_checks={got!r}: the direction of target_data is not examined unless the caller asks for it")
        else:
            ctx.ok("R08.1", "transform() without bypass_checks", "direction handling on by default")
    except Unmodelled as e:
        ctx.unknown("R08.1", "transform() without bypass_checks", str(e))
    for method in ("linear", "log", "conservative"):
        inst = f"transform(method='{method}') option threading"
        try:
            outs, calls = run_transform(P, method, td_dims=[Sym("t"), dimsym("AZ", "outer")] if method == "conservative" else None)
        except Unmodelled as e:
            ctx.unknown("R08.1", inst, str(e))
            continue
        bad = None
        per_path = [[e[1:] for e in o.events if e[0] == "interp-call"] for o in outs]
        if any(o.kind != "return" for o in outs):
            o = [o for o in outs if o.kind != "return"][0]
            bad = f"a plain call raises {o.value}"
        elif any(len(c) != 1 for c in per_path):
            bad = "the interpolation wrapper is not called exactly once on every path"
        elif any(isinstance(o.value, Obj) and foreign_ops(o.value.eff)[1] for o in outs):
            ctx.unknown("R08.1", inst, f"operation(s) {foreign_ops(outs[0].value.eff)[1]} on what transform() returns")
            continue
        elif any(not (isinstance(o.value, Obj) and o.value.name.endswith("-RESULT") and not foreign_ops(o.value.eff)[0]) for o in outs):
            o = outs[0]
            bad = f"transform() returns {o.value!r} (operations {[e[0] for e in o.value.eff] if isinstance(o.value, Obj) else '?'}): the interpolated values are altered after the interpolation"
        else:
          for (kind, a, kw), in per_path:
            if kw.get("suffix") != Sym("U_SUFFIX"):
                bad = bad or "the `suffix` option never reaches the wrapper that names the result (the result keeps the bare input name)"
            if method != "conservative":
                if kind != "linear":
                    bad = bad or "linear/log method does not use the linear interpolation"
                if kw.get("mask_edges") != Sym("U_MASK"):
                    bad = bad or "`mask_edges` is not forwarded"
                if kw.get("bypass_checks") != Sym("U_BYPASS"):
                    bad = bad or "`bypass_checks` is not forwarded"
                if kw.get("logarithmic") is not (method == "log"):
                    bad = bad or f"logarithmic={kw.get('logarithmic')!r} for method '{method}'"
                names = [x.name if isinstance(x, Obj) else x for x in a[:3]]
                if names != ["da", "td", "target"] or a[3] != dimsym("AZ", "center") or a[4] != dimsym("AZ", "center") or a[5] != Sym("lev"):
                    bad = bad or f"arguments {names}, dims {a[3:6]!r}; expected (da, target_data, target, axis dim, axis dim, target dim)"
            elif kind != "conservative":
                bad = bad or "conservative method does not use the conservative interpolation"
            # data, target_data and target reach the interpolation as the caller gave them: a selection / cast / arithmetic on
            # the way hands over other values (target[<its dimension>] is the coordinate's labels, not the target)
            for role, x in zip(("da", "target_data", "target"), a[:3]):
                if isinstance(x, Obj) and x.name in ("da", "td", "target"):
                    changing, unknown_ops = foreign_ops(x.eff)
                    if changing:
                        what = f"{role}[{x.eff[0][1]!r}]" if x.eff and x.eff[0][0] == "getitem" else f"{role} after {changing}"
                        bad = bad or f"the interpolation receives {what} instead of the caller's `{role}`: other values are interpolated" + (" (the labels of the dimension coordinate instead of the target levels)" if role == "target" and x.eff[0][0] == "getitem" else "")
        if bad:
            ctx.report("R08.1", tfi, inst, bad)
        else:
            ctx.ok("R08.1", inst, "options forwarded")
    # linear_interpolation -> apply_ufunc(kwargs=...) ; suffix consumed by the decorator
    raw = P.func("transform:linear_interpolation")
    deco = P.func("transform:input_handling")
    au = []

    def m_apply_ufunc(ev, args, kw, node):
        au.append((list(args), dict(kw)))
        ocd = kw.get("output_core_dims")
        return make_da("APPLIED", [Sym("t")] + list(ocd[0] if ocd else []))

    def rename(ev, recv, args, kw, node):
        first = args[0] if args else kw.get("new_name_or_name_dict")
        if first is not None and not isinstance(first, dict):  # xarray: a non-mapping argument renames the array itself
            return recv.with_eff(("rename", (first,)), name=first)
        m = dict(first) if isinstance(first, dict) else {}
        return recv.with_eff(("rename", m), dims=tuple(m.get(d, d) for d in recv.attrs.get("dims", ())))

    mm = dict(da_method_models())
    mm[("DataArray", "rename")] = rename
    ev = Evaluator(P, models={"xarray.apply_ufunc": m_apply_ufunc}, method_models=mm, attr_models=da_attr_models())
    try:
        wrapper = ev.call(FuncV(deco, deco.node, None, "transform"), [FuncV(raw, raw.node, None, "transform")], {}, None)
        phi = make_da("phi", [Sym("t"), Sym("zc")], name=Sym("phi_name"))
        theta = make_da("theta", [Sym("t"), Sym("zc")])
        levels = make_da("levels", [Sym("lev")])
        ev.events, ev.decisions, ev._prefix, ev._pending = [], [], [], []
        out = ev.call(wrapper, [phi, theta, levels, Sym("zc"), Sym("zc"), Sym("lev")], {"suffix": Sym("U_SUFFIX"), "mask_edges": Sym("U_MASK"), "bypass_checks": Sym("U_BYPASS"), "logarithmic": Sym("U_LOG")}, None)
        bad = None
        if len(au) != 1:
            bad = "xr.apply_ufunc not called exactly once"
        else:
            a, kw = au[0]
            fn0, kk = applied_function(a[0], kw)
            if not (isinstance(fn0, FuncV) and fn0.name.endswith("interp_1d_linear")):
                bad = f"apply_ufunc is not applied to interp_1d_linear ({a[0]!r})"
            elif [x.name for x in a[1:]] != ["phi", "theta", "levels"]:
                bad = f"arguments {[x.name for x in a[1:]]}; expected (phi, theta, target levels)"
            elif any(not all(e[0] in ("rename", "transpose", "copy") for e in x.eff) for x in a[1:]):
                bad = f"the kernel does not receive the caller's arrays as they are (operations {[[e[0] for e in x.eff] for x in a[1:]]}; only dimension renames are expected)"
            elif kk != {"mask_edges": Sym("U_MASK"), "bypass_checks": Sym("U_BYPASS"), "logarithmic": Sym("U_LOG")}:
                bad = f"kernel keyword arguments {kk!r}; expected mask_edges, bypass_checks, logarithmic as given (and not the suffix)"
            else:
                icd, ocd = kw.get("input_core_dims"), kw.get("output_core_dims")
                if not (isinstance(icd, (list, tuple)) and len(icd) == 3 and isinstance(ocd, (list, tuple)) and len(ocd) == 1 and icd[2] == ocd[0] and icd[0][0] in a[1].attrs["dims"] and icd[1][0] in a[2].attrs["dims"]):
                    bad = f"core dims {icd!r} -> {ocd!r}; expected the column dims of phi/theta, and the target dimension in and out"
        # R08.4 naming inside the wrapper
        nm = out.attrs.get("name") if isinstance(out, Obj) else None
        sets = [e for e in ev.events if e[0] == "setattr" and e[2] == "name"]
        name_val = _renamed_to(out) or (sets[-1][3] if sets else nm)
        from ..absint import Text

        want = Text([Sym("phi_name"), Sym("U_SUFFIX")])
        if not (isinstance(name_val, Text) and name_val.parts == want.parts):
            ctx.report("R08.4", deco, "result name", f"the result is named {name_val!r}; expected the input's name followed by the suffix")
        else:
            ctx.ok("R08.4", "result name", "phi.name + suffix")
        # the empty suffix is a suffix like any other: the result is then named exactly like the input
        ev.events, ev.decisions, ev._prefix, ev._pending = [], [], [], []
        au.clear()
        out2 = ev.call(wrapper, [make_da("phi", [Sym("t"), Sym("zc")], name=Sym("phi_name")), make_da("theta", [Sym("t"), Sym("zc")]), make_da("levels", [Sym("lev")]), Sym("zc"), Sym("zc"), Sym("lev")],
                       {"suffix": "", "mask_edges": Sym("U_MASK"), "bypass_checks": Sym("U_BYPASS"), "logarithmic": Sym("U_LOG")}, None)
        sets2 = [e for e in ev.events if e[0] == "setattr" and e[2] == "name"]
        nv2 = _renamed_to(out2) or (sets2[-1][3] if sets2 else (out2.attrs.get("name") if isinstance(out2, Obj) else None))
        parts2 = [x for x in nv2.parts if x != ""] if isinstance(nv2, Text) else [nv2]
        if parts2 != [Sym("phi_name")]:
            ctx.report("R08.4", deco, "result name with suffix=''", f"with an empty suffix the result is named {nv2!r}; expected exactly the input's name")
        else:
            ctx.ok("R08.4", "result name with suffix=''", "the input's name")
        if isinstance(out, Obj):
            others, unknown_ops = foreign_ops(out.eff)
            if unknown_ops:
                raise Unmodelled(f"operation(s) {unknown_ops} on the wrapper's result")
            if out.name != "APPLIED" or others:
                bad = bad or f"the wrapper returns {out.name!r} after {[e[0] for e in out.eff]}: the kernel's output is altered by {others or 'something else'}"
        if not (isinstance(out, Obj) and out.attrs.get("dims", ())[-1:] == (Sym("lev"),)):
            ctx.report("R08.4", deco, "temporary dimension renamed back", f"the result's dimensions are {getattr(out, 'attrs', {}).get('dims')}; the temporary target dimension must be renamed back to the target's")
        else:
            ctx.ok("R08.4", "temporary dimension renamed back", "result carries the target dimension")
        if bad:
            ctx.report("R08.1", raw, "linear_interpolation -> kernel", bad)
        else:
            ctx.ok("R08.1", "linear_interpolation -> kernel", "kernel options via apply_ufunc(kwargs=...), suffix consumed by the naming wrapper")
    except Unmodelled as e:
        ctx.unknown("R08.1", "linear_interpolation -> kernel", str(e))
    except Raised as r:
        ctx.report("R08.1", raw, "linear_interpolation -> kernel", f"a plain call of the wrapper raises {r.typ}" + (f" ({r.msg})" if r.msg else ""))
    # dead parameters of transform
    import ast

    from ..core import own_nodes

    tnode = tfi.node
    ps = tfi.all_param_names()
    used = {n.id for n in ast.walk(tnode) if isinstance(n, ast.Name) and isinstance(n.ctx, ast.Load)}
    for p in ps:
        if p not in used:
            ctx.report("R08.1", tfi, f"dead parameter `{p}`", f"the public parameter `{p}` of transform is never read")
    ctx.ok("R08.1", f"{len(ps)} parameters of transform", "all read")


def _kernel(ctx, P):
    kfi = P.func("transform:_interp_1d_linear")
    from ..harness import guvectorize_contract

    lay, probs = guvectorize_contract(kfi)
    if probs:
        ctx.report("R08.2", kfi, "guvectorize decoration of the kernel", "; ".join(probs))
    elif lay != (["n", "n", "m", "", ""], ["m"]):
        ctx.report("R08.2", kfi, "guvectorize decoration of the kernel", f"core dimensions {lay}: data and coordinate must share one dimension, the levels and the output another, the two flags none")
    else:
        ctx.ok("R08.2", "guvectorize decoration of the kernel", "type list first, layout second, one entry per parameter; data/coordinate on n, levels and output on m, scalar flags")
    rev = SliceV(None, None, -1)
    from ..concrete import REPRESENTATIVES, cond_hook

    nan = float("nan")
    # theta as one representative per direction (with a missing value at either end): the direction test of the source,
    # however it is spelled, is evaluated on it
    directions = {"increasing": [nan] + REPRESENTATIVES["increasing"], "decreasing": REPRESENTATIVES["decreasing"] + [nan],
                  # the shortest profiles that have a direction: two valid values (with and without missing ones around them)
                  "increasing (two valid values)": [nan, 1.0, 2.0, nan], "decreasing (two valid values)": [7.0, 4.0], "decreasing (two valid values, missing one between)": [7.0, nan, 4.0, nan]}
    for mask in (True, False):
      for direction, theta_rep in directions.items():
        if mask and "two" in direction:
            continue
        for bypass in (True, False):
            # order types of the level against min/max
            for slot, rank_lev, outside in (("below", 0, True), ("=min", 2, False), ("inside", 4, False), ("=max", 6, False), ("above", 8, True)):
                inst = f"kernel mask_edges={mask} bypass_checks={bypass} {direction} theta, level {slot}"
                order = OrderType({"tmin": 2, "tmax": 6, "lev": rank_lev})
                interp_calls = []

                def m_interp(ev, args, kw, node):
                    interp_calls.append(list(args))
                    return Obj("ndarray", "INTERP-RESULT")

                def m_nanmax(ev, args, kw, node):
                    return Lin.sym("tmax")

                def m_nanmin(ev, args, kw, node):
                    return Lin.sym("tmin")

                ev = KernelEval(P, order, models={"numpy.interp": m_interp, "numpy.nanmax": m_nanmax, "numpy.nanmin": m_nanmin},
                                cond_hook=cond_hook({"theta": theta_rep, "phi": [float(i) for i in range(len(theta_rep))]}))
                out = Obj("ndarray", "output")
                try:
                    outs = ev.run_paths(kfi, lambda: dict(phi=Obj("ndarray", "phi", (), {"ndim": 1}), theta=Obj("ndarray", "theta", (), {"ndim": 1}), target_theta_levels=[Lin.sym("lev")], mask_edges=mask, bypass_checks=bypass, output=out))
                except Unmodelled as e:
                    ctx.unknown("R08.2", inst, str(e))
                    continue
                calls_iter = iter(interp_calls)
                bad2 = bad3 = None
                for o in outs:
                    a = next(calls_iter, None)
                    if o.kind != "return" or a is None:
                        bad2 = f"{o.kind} {o.value}; np.interp not called"
                        continue
                    flip_dec = [d for d in o.decisions]
                    q, xp, fp = a[0], a[1], a[2]
                    g = lambda x: [e[1] for e in x.eff if e[0] == "getitem"] if isinstance(x, Obj) else None
                    if q != [Lin.sym("lev")]:
                        bad2 = "np.interp is not queried at the target levels (first argument)"
                    elif not (isinstance(xp, Obj) and xp.name == "theta" and isinstance(fp, Obj) and fp.name == "phi"):
                        bad2 = f"np.interp(levels, {getattr(xp, 'name', xp)}, {getattr(fp, 'name', fp)}): sample points must be theta and sample values phi"
                    else:
                        fx, ff = rev in (g(xp) or []), rev in (g(fp) or [])
                        if fx != ff:
                            bad2 = "theta and phi are not reversed together: " + ("only theta" if fx else "only phi") + " is flipped"
                        if bypass and (fx or ff or flip_dec):
                            bad2 = bad2 or "the direction check / flip is executed although bypass_checks is set"
                        if not bypass and not flip_dec:
                            # the direction test was decided on the representative theta: the flip must follow it
                            if direction.startswith("decreasing") and not (fx and ff):
                                bad2 = bad2 or "theta decreasing along the axis (bypass_checks off): theta and phi must be reversed before np.interp, which needs increasing sample points"
                            if direction.startswith("increasing") and (fx or ff):
                                bad2 = bad2 or "theta increasing along the axis: theta/phi are reversed although they are already in the order np.interp needs"
                    sets = [e for e in o.events if e[0] == "setitem" and isinstance(e[1], Obj) and e[1].name == "output"]
                    whole = [e for e in sets if isinstance(e[2], SliceV) and e[2].key() == (None, None, None)]
                    if not whole or not (isinstance(whole[0][3], Obj) and whole[0][3].name == "INTERP-RESULT"):
                        bad2 = bad2 or "the result of np.interp is not stored into the whole output"
                    masked = [e for e in sets if e[2] == 0]
                    is_nan = lambda v: isinstance(v, float) and v != v or (hasattr(v, "path") and str(getattr(v, "path", "")).endswith("nan"))
                    want_mask = mask and outside
                    if want_mask and not (masked and all(is_nan(e[3]) for e in masked)):
                        bad3 = f"a level {slot} the range of theta is not set to NaN although mask_edges is on"
                    if not want_mask and masked:
                        bad3 = f"a level {slot} is masked" + ("" if mask else " although mask_edges is off")
                if bad2:
                    ctx.report("R08.2", kfi, f"flip / np.interp roles (bypass_checks={bypass})", bad2)
                else:
                    ctx.ok("R08.2", inst, "theta and phi flipped together or not at all; np.interp(levels, theta, phi) fills the output")
                if bad3:
                    ctx.report("R08.3", kfi, f"edge mask, level {slot}, mask_edges={mask}", bad3)
                else:
                    ctx.ok("R08.3", inst + " [mask]", "masked" if (mask and outside) else "kept")


def _mask_many(ctx, P):
    """R08.3 on three levels in arbitrary order: every level is masked iff it lies strictly outside [min, max],
    wherever it stands in the level array (target levels may come in any order)."""
    import itertools

    kfi = P.func("transform:_interp_1d_linear")
    slots = {"below": 0, "=min": 2, "inside": 4, "=max": 6, "above": 8}
    n = 0
    first = None
    for mask in (True, False):
        for combo in itertools.product(slots, repeat=3):
            order = OrderType({"tmin": 2, "tmax": 6, "l0": slots[combo[0]], "l1": slots[combo[1]], "l2": slots[combo[2]]})
            ev = KernelEval(P, order, models={"numpy.interp": lambda ev, a, k, n_: Obj("ndarray", "INTERP-RESULT"), "numpy.nanmax": lambda ev, a, k, n_: Lin.sym("tmax"),
                                              "numpy.nanmin": lambda ev, a, k, n_: Lin.sym("tmin")})
            out = Obj("ndarray", "output")
            try:
                outs = ev.run_paths(kfi, lambda: dict(phi=Obj("ndarray", "phi", (), {"ndim": 1}), theta=Obj("ndarray", "theta", (), {"ndim": 1}), target_theta_levels=[Lin.sym("l0"), Lin.sym("l1"), Lin.sym("l2")],
                                                      mask_edges=mask, bypass_checks=True, output=out))
            except Unmodelled as e:
                ctx.unknown("R08.3", f"levels {combo}", str(e))
                return
            n += 1
            want = {i for i, c in enumerate(combo) if mask and c in ("below", "above")}
            for o in outs:
                if o.kind != "return":
                    first = first or (combo, mask, f"{o.kind} {o.value}")
                    continue
                got = set()
                for e in o.events:
                    if e[0] == "setitem" and isinstance(e[1], Obj) and e[1].name == "output" and isinstance(e[2], int) and not isinstance(e[2], bool):
                        v = e[3]
                        if isinstance(v, float) and v != v or str(getattr(v, "path", "")).endswith("nan"):
                            got.add(e[2])
                        else:
                            got.add(("non-nan", e[2]))
                if got != want:
                    first = first or (combo, mask, f"levels masked: {sorted(map(str, got))}, expected {sorted(want)}")
    ctx.note("mask_level_orderings", n)
    if first:
        combo, mask, why = first
        ctx.report("R08.3", kfi, "edge mask on three levels in arbitrary order", f"levels {list(combo)} (relative to [min, max]) with mask_edges={mask}: {why}; every level strictly outside the range must be NaN wherever it stands among the levels")
    else:
        ctx.ok("R08.3", f"edge mask on three levels, {n} orderings", "each level masked iff strictly outside, independent of its place in the array")


def _log(ctx, P):
    fi = P.func("transform:interp_1d_linear")
    for logarithmic, bypass in ((True, Sym("B")), (False, Sym("B")), (False, False), (False, True), (True, False)):
        calls = []

        def m_k(ev, args, kw, node):
            calls.append(list(args))
            return Obj("ndarray", "OUT")

        ev = Evaluator(P, models={"transform:_interp_1d_linear": m_k}, attr_models={("ndarray", "shape"): lambda ev_, o_, n_: Sym("shape_of_" + o_.name)})
        inst = f"interp_1d_linear(logarithmic={logarithmic}, bypass_checks={bypass!r})"
        try:
            outs = ev.run_paths(fi, lambda: dict(phi=Obj("ndarray", "phi"), theta=Obj("ndarray", "theta"), target_theta_levels=Obj("ndarray", "levels"), mask_edges=Sym("M"), bypass_checks=bypass, logarithmic=logarithmic))
        except Unmodelled as e:
            ctx.unknown("R08.2", inst, str(e))
            continue
        bad = None
        if len(calls) != len(outs) or any(o.kind != "return" for o in outs) or not calls:
            bad = "the kernel is not called exactly once per path"
        for call, o in zip(calls, outs):
            phi, theta, lev, m, b = call[:5]

            def strip(x):
                """np.asarray(x) and friends hand the same values on."""
                while isinstance(x, Obj) and x.kind == "ext" and x.name in ("numpy.asarray", "numpy.asanyarray", "numpy.ascontiguousarray", "numpy.atleast_1d") and len(x.eff) == 1 and len(x.eff[0][1]) == 1:
                    x = x.eff[0][1][0]
                return x

            def logged(x, name):
                x = strip(x)
                if isinstance(x, Obj) and x.kind == "ext" and x.name == "numpy.log":
                    a = x.eff[0][1]
                    return len(a) == 1 and plain(a[0], name) and len(x.eff) == 1
                return False

            def plain(x, name):
                x = strip(x)
                return isinstance(x, Obj) and x.name == name and not x.eff

            lev_ok = (logged(lev, "levels") if logarithmic else plain(lev, "levels"))
            out_ok = isinstance(o.value, Obj) and o.value.name == "OUT" and not o.value.eff
            order_problem = None
            if not (lev_ok and out_ok):
                # the levels are re-arranged on the way in and / or the result on the way out: decide on representative level
                # vectors (every order of distinct levels, ties) whether each result ends up at the place of its level
                try:
                    order_problem = _levels_in_any_order(lev, o.value, logarithmic)
                    if order_problem is None:
                        lev_ok = out_ok = True
                    elif order_problem.startswith("LEVELS:"):
                        order_problem = None if not lev_ok else order_problem[7:]  # other levels: the messages below say which transformation is missing / extra
                except Unmodelled:
                    order_problem = None  # not a re-arrangement this evaluation can follow: judged by the lineage alone
            if not plain(phi, "phi"):
                bad = "phi is transformed before interpolation"
            elif order_problem:
                bad = order_problem
            elif logarithmic and not (logged(theta, "theta") and lev_ok):
                bad = "with method 'log' the logarithm must be applied to theta AND to the target levels (" + ("theta only" if logged(theta, "theta") else "levels only" if logged(lev, "levels") else "neither") + " is)"
            elif not logarithmic and not (plain(theta, "theta") and lev_ok):
                bad = "without `logarithmic` theta / levels are transformed"
            elif not out_ok:
                bad = f"the kernel's result is not returned as it is ({o.value!r})"
            elif m != Sym("M") or b is not bypass and b != bypass or type(b) is not type(bypass):
                bad = f"mask_edges / bypass_checks are not handed to the per-column kernel unchanged (bypass_checks={b!r} for {bypass!r}): the direction of each column must be tested inside the kernel, column by column"
        if bad:
            ctx.report("R08.2", fi, inst, bad)
        else:
            ctx.ok("R08.2", inst, "log of theta and levels together" if logarithmic else "no transformation")


LEVEL_VECTORS = [[11.0, 4.5, 19.0, 30.0, 8.75], [1.0, 2.0, 3.0], [3.0, 2.0, 1.0], [2.0, 3.0, 1.0], [3.0, 1.0, 2.0], [1.0, 3.0, 2.0], [2.0, 1.0, 3.0], [2.0, 2.0, 1.0], [5.0]]


def _renamed_to(out):
    """The name given by the last `.rename(<name>)` in the lineage of a modelled array (xarray: a non-mapping first argument
    renames the array itself), or None."""
    if not isinstance(out, Obj):
        return None
    for e in reversed(out.eff):
        if e[0] != "rename" or len(e) < 2:
            continue
        a = e[1][0] if isinstance(e[1], (list, tuple)) and e[1] else e[1]
        if a is not None and not isinstance(a, (dict, list, tuple)) and not (isinstance(a, Obj) and a.kind == "dict"):
            return a
    return None


def _levels_in_any_order(lev_arg, result, logarithmic):
    """Concrete evaluation (sa.concrete) of what the kernel is asked for and of what is returned, on representative level
    vectors: the kernel stands for any function of the level alone, so result i must be the kernel's answer for level i."""
    import math

    from ..concrete import value

    for levels in LEVEL_VECTORS:
        want_levels = [math.log(x) for x in levels] if logarithmic else list(levels)
        try:
            asked = value(lev_arg, {"levels": levels})
            if not isinstance(asked, list) or sorted(asked) != sorted(want_levels):
                return f"LEVELS:for the levels {levels} the kernel is asked for {asked!r}" + (" (logarithms expected)" if logarithmic else "") + ": other levels than the caller's are interpolated"
            answer = lambda x: 1000.0 * x + 7.0  # stands for any injective function of the level
            got = value(result, {"levels": levels, "OUT": [answer(x) for x in asked]})
        except Unmodelled as e:
            raise Unmodelled(f"order of the levels: {e}")
        except (IndexError, TypeError, ValueError) as e:
            return f"for the levels {levels} re-arranging the result fails ({type(e).__name__})"
        if got != [answer(x) for x in want_levels]:
            where = [i for i, (g, w) in enumerate(zip(got, [answer(x) for x in want_levels])) if g != w] if isinstance(got, list) and len(got) == len(levels) else "all"
            return (f"target levels in arbitrary order: for the levels {levels} the kernel is asked for {asked} and its answers are returned in an order in which position(s) {where} "
                    "hold the value of another level (the permutation is not undone)")
    return None


def _no_call(ctx, tfi, inst, outs):
    """A valid request that never reaches the interpolation: a refusal is a finding, anything else no verdict."""
    if outs and all(o.kind == "raise" for o in outs):
        ctx.report("R08.4", tfi, inst, f"a valid request is refused with {outs[0].value}" + (f" ({outs[0].exc.msg})" if getattr(outs[0].exc, "msg", None) else "") + " before the interpolation is reached")
    else:
        ctx.unknown("R08.4", inst, "the interpolation is never reached")


def _naming(ctx, P):
    tfi = P.func("transform:transform")
    # DataArray target: new dimension = the target's own single dimension
    try:
        outs, calls = run_transform(P, "linear")
        if not calls:
            _no_call(ctx, tfi, "new dimension for a DataArray target", outs)
            return
        a = calls[0][1]
        if a[5] != Sym("lev") or not (isinstance(a[2], Obj) and a[2].name == "target"):
            ctx.report("R08.4", tfi, "new dimension for a DataArray target", f"target dimension {a[5]!r}; expected the target's own dimension")
        else:
            ctx.ok("R08.4", "new dimension for a DataArray target", "the target's dimension")
        # bare array target: named after target_data
        bare = Obj("ndarray", "bare_levels", (), {"__isinstance__": ("ndarray",)})
        outs, calls = run_transform(P, "linear", target=bare)
        if not calls:
            _no_call(ctx, tfi, "new dimension for a bare-array target", outs)
            return
        a = calls[0][1]
        tg = a[2]
        if a[5] != Sym("tdn") or not (isinstance(tg, Obj) and tg.name == "WRAPPED" and tg.attrs.get("dims") == (Sym("tdn"),) and tg.attrs.get("wrapped") is not None):
            ctx.report("R08.4", tfi, "new dimension for a bare-array target", f"target dimension {a[5]!r}; expected target_data.name, with the levels wrapped on that dimension")
        else:
            ctx.ok("R08.4", "new dimension for a bare-array target", "named after target_data")
        # anonymous target_data: default name, caller's object untouched (C18)
        outs, calls = run_transform(P, "linear", target=bare, td_name=None)
        if not calls:
            _no_call(ctx, tfi, "anonymous target_data", outs)
            return
        a = calls[0][1]
        if a[5] != "TRANSFORMED_DIMENSION":
            ctx.report("R08.4", tfi, "anonymous target_data", f"new dimension {a[5]!r}; the documented default is TRANSFORMED_DIMENSION")
        else:
            ctx.ok("R08.4", "anonymous target_data", "documented default name")
        # target_data omitted: the grid dataset's coordinate along the axis
        outs, calls = run_transform(P, "linear", target_data=None)
        if not calls:
            _no_call(ctx, tfi, "target_data omitted", outs)
            return
        a = calls[0][1]
        th = a[1]
        # the defaulted target_data is a column like any other: the caller's options reach the kernel unchanged (its direction is
        # examined unless the *caller* said otherwise - a coordinate may well decrease along the axis)
        for kind, a_, kw in calls:
            for opt, tok in (("bypass_checks", Sym("U_BYPASS")), ("mask_edges", Sym("U_MASK")), ("suffix", Sym("U_SUFFIX"))):
                if kw.get(opt) != tok:
                    ctx.report("R08.1", tfi, f"target_data omitted: `{opt}`", f"with target_data omitted the interpolation receives {opt}={kw.get(opt)!r} instead of the caller's value")
                    break
            else:
                continue
            break
        else:
            ctx.ok("R08.1", "target_data omitted: options", "the caller's options reach the interpolation unchanged")
        if not (isinstance(th, Obj) and th.name == "grid_coordinate" and th.attrs.get("of") == "grid_ds" and th.attrs.get("key") == dimsym("AZ", "center")):
            ctx.report("R08.4", tfi, "target_data omitted", f"theta is {th!r}; expected the grid dataset's coordinate of the data's dimension along the axis")
        else:
            ctx.ok("R08.4", "target_data omitted", "grid coordinate along the axis")
    except (Unmodelled, IndexError) as e:
        ctx.unknown("R08.4", "naming", str(e))


def _guards(ctx, P):
    tfi = P.func("transform:transform")
    try:
        outs, calls = run_transform(P, "linear", td_dims=[Sym("t"), Sym("member"), dimsym("AZ", "center")])
        if all(o.kind == "raise" for o in outs) and not calls:
            ctx.ok("R08.5", "target_data with a dimension da lacks", "refused before interpolating")
        else:
            ctx.report("R08.5", tfi, "target_data with a dimension da lacks", "target_data carrying a dimension that da does not have is interpolated (columns would be broadcast silently)")
        outs, calls = run_transform(P, "linear", da_dims=[Sym("t"), Sym("member"), dimsym("AZ", "center")])
        if all(o.kind == "return" for o in outs):
            ctx.ok("R08.5", "da with extra dimensions", "accepted")
        else:
            ctx.report("R08.5", tfi, "da with extra dimensions", "da with more dimensions than target_data is refused")
        from .c20 import Battery, _transform
        from .c07 import _Sub

        class S(_Sub):
            def ok(self, rule, inst, detail=""):
                if rule == "G7" and "conservative" not in inst:
                    self.ctx.ok("R08.5", inst, detail)

            def report(self, rule, fi, construct, message, node=None, path=None):
                if rule == "G7" and "conservative" not in construct:
                    self.ctx.report("R08.5", fi, construct, message, node, path)

            def unknown(self, rule, inst, reason):
                if rule == "G7":
                    self.ctx.unknown("R08.5", inst, reason)

        s = S(ctx)
        _transform(s, P, Battery(s))
    except Unmodelled as e:
        ctx.unknown("R08.5", "guards", str(e))
