"""C13 - axis, dimension and variable names are opaque labels.

Renaming invariance is a parametricity statement: if no operation ever looks inside a label, renaming cannot
matter.  Decided by abstract interpretation with an equality-only label domain:
  R13.1 every public operation is interpreted with *opaque* labels (axis, dimension, coordinate, variable names;
        bare and in lists).  Any operation that inspects or manufactures label content - len(), iteration over the
        characters, substring tests, str methods, ordering / sorted, `label + text`, a label used as a keyword name
        through `**{label: ...}`, a dimension renamed to a manufactured or literal name - is recorded by the
        evaluator and reported; an evaluation that cannot proceed without the content of a label is reported too;
  R13.2 text-level code that must handle names inside text (signature strings, SGRID attributes) is interpreted on
        adversarial concrete names: single letters occurring in position words, names containing position words,
        names that are prefixes / substrings of each other, upper/lower-case variants: the names come back intact;
  R13.3 static census over all functions: string-inspecting operations applied to names that are bound from label
        sources (iteration over .axes/.dims/.coords, results of _get_position_name, label parameters).
"""
from __future__ import annotations

import ast
import copy

from ..absint import Raised, TOP, Evaluator, FuncV, Lin, Obj, Sym, Text, Unmodelled
from ..core import norm, own_nodes
from ..harness import da_attr_models, da_method_models, run_apply, run_dispatch
from ..xmodel import COMMON_MODELS, dimsym, make_da, make_grid

EXPLANATION = (
    "Abstract interpretation of the public operations with labels as opaque symbols that support equality only; every "
    "content-inspecting or name-manufacturing operation on a label is an event and a finding. Text-level parsers are "
    "interpreted on adversarial concrete names. A static census lists string-inspecting operations on label-typed names."
)
ASSUMPTIONS = ["xarray treats names as opaque", "identifiers contain none of the separator characters ( ) , : - > space"]
TECHNIQUE = "parametricity check by abstract interpretation over an equality-only label domain + census of label-inspecting sites"
LEVEL_TEXT = (
    "The public operations are interpreted with names as opaque symbols: no evaluated path needs the length, characters, substrings, order or case of a "
    "name, uses a name as a keyword, or renames a dimension to a manufactured name - so consistent renaming cannot change acceptance or numbers on those "
    "paths; signature and SGRID text handling returns adversarial names (letters of position words, names containing them, prefixes of each other) "
    "intact. The transform wrappers are additionally interpreted with operands that already carry dimensions called like each temporary name the source manufactures: none may collide."
)
LEVEL_NOTE = "Trusted: xarray's handling of names. Coverage = the paths of the evaluated operation battery (listed in the evidence) plus the static census."

LABEL_EVENTS = {
    "label-len": "the length of a name is taken",
    "label-iterated": "a bare name is iterated over (split into its characters)",
    "label-substring": "a substring test involves a name",
    "label-method": "a string method is applied to a name",
    "label-ordered": "names are compared by alphabetical order / sorted",
    "label-as-keyword": "a name is used as a keyword argument name through **{name: ...}",
    "label-concat": "a new name is manufactured by concatenating text to a name",
}
AX, AY, AZ = Sym("AX"), Sym("AY"), Sym("AZ")
REVIEWED = {
    "value.name = phi.name + suffix": "the documented name of the result (input name + suffix); it is a label of the output, never used as a key",
}


class Battery:
    def __init__(self, ctx):
        self.ctx = ctx
        self.n = 0

    def run(self, name, fi, thunk, evs):
        """thunk() runs one or more evaluations; every Evaluator created meanwhile is recorded (sticky events)."""
        import sa.absint as A

        self.n += 1
        created = []
        orig_init = A.Evaluator.__init__

        def rec_init(this, *a, **k):
            orig_init(this, *a, **k)
            created.append(this)

        A.Evaluator.__init__ = rec_init
        aborted = None
        try:
            thunk()
        except Unmodelled as e:
            aborted = str(e)
        finally:
            A.Evaluator.__init__ = orig_init
        evaluators = created
        if aborted is not None and not any(ev.sticky for ev in evaluators):
            if "label" in aborted:
                self.ctx.report("R13.1", fi, f"{name}: needs the content of a label", f"{name}: the operation cannot be carried out with an opaque name: {aborted}")
            else:
                self.ctx.unknown("R13.1", name, aborted)
            return
        found = False
        for ev in evaluators or []:
            for e in ev.sticky:
                node = e[-1]
                text = norm(node, 100) if isinstance(node, ast.AST) else str(node)
                owner = _owner(self.ctx.project, node)
                stmt_text = _stmt_text(self.ctx.project, node)
                if stmt_text in REVIEWED:
                    continue
                found = True
                self.ctx.report("R13.1", owner or fi, f"{e[0]}: {text}", f"{LABEL_EVENTS.get(e[0], e[0])} (`{text}`, reached from {name}): behaviour depends on what a name looks like", node if isinstance(node, ast.AST) else None)
        if not found:
            self.ctx.ok("R13.1", name, "no operation looked inside a label")


_OWNER_CACHE = {}


def _owner(P, node):
    if not isinstance(node, ast.AST):
        return None
    key = id(P)
    if key not in _OWNER_CACHE:
        m = {}
        for q, fi in P.functions.items():
            for n in ast.walk(fi.node):
                m.setdefault(id(n), fi)  # outermost first is fine: nested functions are walked later and override below
        for q, fi in sorted(P.functions.items(), key=lambda kv: kv[0].count(".")):
            for n in own_nodes(fi.node):
                m[id(n)] = fi
        _OWNER_CACHE[key] = m
    return _OWNER_CACHE[key].get(id(node))


def _stmt_text(P, node):
    fi = _owner(P, node)
    if fi is None:
        return ""
    from ..flow import stmt_of

    st = stmt_of(fi.node, node)
    return norm(st, 200) if st is not None else ""


def check(ctx):
    P = ctx.project
    B = Battery(ctx)
    disp = P.func("grid:Grid._1d_grid_ufunc_dispatch")

    # ---------------- R13.1 battery with opaque labels
    def dispatch_case(**kw):
        def thunk():
            from ..harness import dispatch_models

            ev = Evaluator(P, models=dispatch_models(), attr_models=da_attr_models(), method_models=da_method_models(), assume_false=("Dask_Array", ".chunks", "_is_dim_chunked"))
            fi = disp
            axn = kw.get("axnames", ("AX",))
            pos = kw.get("pos", {a: "center" for a in axn})

            def make():
                g = make_grid(axn)
                da = make_da("da", [Sym("t")] + [dimsym(a, pos[a]) for a in axn], name=Sym("da_name"))
                data = {Sym(axn[0]): da} if kw.get("vector") else da
                return dict(self=g, funcname="diff", data=data, axis=kw.get("axis", Sym(axn[0])), to=kw.get("to", "left"), keep_coords=False,
                            metric_weighted=copy.deepcopy(kw.get("mw")), other_component=None, kwargs={"boundary": kw.get("boundary", "fill")})

            ev.run_paths(fi, make)
            return [ev]

        return thunk

    B.run("diff along an axis given as a bare name", disp, dispatch_case(), [])
    B.run("diff along axes given as a list", disp, dispatch_case(axnames=("AX", "AY"), axis=[AX, AY], to={AX: "left", AY: "outer"}), [])
    B.run("diff with metric_weighted given as a bare name", disp, dispatch_case(mw=AX), [])
    B.run("diff with metric_weighted given as a tuple and per-axis boundary", disp, dispatch_case(mw=(AX, AY), axnames=("AX", "AY"), boundary={AX: "fill"}), [])
    B.run("diff of a vector component", disp, dispatch_case(vector=True, pos={"AX": "left"}, to="center"), [])

    # the full chain (selection, GridUFunc.__call__, apply_as_grid_ufunc, pad)
    from .c20 import full_dispatch

    holder = []

    def full():
        import sa.props.c20 as c20

        evs = []
        orig = c20.Evaluator

        class Rec(orig):
            def __init__(self, *a, **k):
                super().__init__(*a, **k)
                evs.append(self)

        c20.Evaluator = Rec
        try:
            full_dispatch(P, "interp", "center", "outer", axnames=("AX", "AY"), axis_arg=[AX, AY])
            full_dispatch(P, "diff", "left", None)
        finally:
            c20.Evaluator = orig
        return evs

    B.run("interp/diff through selection, GridUFunc call, apply_as_grid_ufunc and pad", disp, full, [])

    # cumsum
    cfi = P.func("grid:Grid.cumsum")

    def cumsum_case(axis, mw=None):
        def thunk():
            from .c09 import cumsum_evaluator, _models

            ev = cumsum_evaluator(P)
            ev.run_paths(cfi, lambda: dict(self=make_grid(("AX", "AY")), da=make_da("da", [Sym("t"), dimsym("AX", "center"), dimsym("AY", "center")]), axis=axis, to=None, boundary=None,
                                           fill_value=None, metric_weighted=mw, keep_coords=False))
            return [ev]

        return thunk

    B.run("cumsum along a bare name", cfi, cumsum_case(AX), [])
    B.run("cumsum along a list of names with metric_weighted", cfi, cumsum_case([AX, AY], mw=AX), [])

    # metrics
    gm = P.func("grid:Grid.get_metric")

    def get_metric_case(axes):
        def thunk():
            from .c10 import mvar

            fs = frozenset
            reg = {fs([AX]): [mvar("dxc", [dimsym("AX", "center")])], fs([AY]): [mvar("dyc", [dimsym("AY", "center")])]}
            ev = Evaluator(P, models={"warnings.warn": lambda ev, a, k, n: None})

            def make():
                g = make_grid(("AX", "AY"))
                g.attrs["_metrics"] = copy.deepcopy(reg)
                return dict(self=g, array=make_da("arr", [dimsym("AX", "center"), dimsym("AY", "center")]), axes=copy.deepcopy(axes))

            ev.run_paths(gm, make)
            return [ev]

        return thunk

    B.run("get_metric / integrate along a bare name", gm, get_metric_case(AX), [])
    B.run("get_metric for a tuple of names", gm, get_metric_case((AX, AY)), [])
    B.run("get_metric for a list of names in the other order", gm, get_metric_case([AY, AX]), [])
    for meth in ("integrate", "average", "derivative", "cumint"):
        mfi = P.func(f"grid:Grid.{meth}")

        def thunk(meth=meth, mfi=mfi):
            ev = Evaluator(P, models=dict(COMMON_MODELS, **{"grid:Grid.diff": lambda ev, a, k, n: make_da("DIFF", [dimsym("AX", "left")]), "grid:Grid.cumsum": lambda ev, a, k, n: Obj("Result", "r")}))
            ev.run_paths(mfi, lambda: dict(self=make_grid(("AX", "AY")), da=make_da("da", [Sym("t"), dimsym("AX", "center")]), axis=AX, kwargs={}))
            return [ev]

        B.run(f"{meth} along a bare name", mfi, thunk, [])
    sm = P.func("grid:Grid.set_metrics")

    def set_metrics_case(key, value):
        def thunk():
            ev = Evaluator(P, method_models={("Dataset", "__getitem__"): lambda ev, r, a, k, n: make_da(f"var", [dimsym("AX", "center")])})

            def make():
                g = make_grid(("AX", "AY"))
                g.attrs["_ds"] = Obj("Dataset", "ds", (), {"variables": [Sym("area"), Sym("dx")]})
                g.attrs["_metrics"] = {}
                return dict(self=g, key=copy.deepcopy(key), value=copy.deepcopy(value), overwrite=False)

            ev.run_paths(sm, make)
            return [ev]

        return thunk

    B.run("set_metrics with a bare axis name and a bare variable name", sm, set_metrics_case(AX, Sym("dx")), [])
    B.run("set_metrics with tuples", sm, set_metrics_case((AX, AY), [Sym("area")]), [])

    # constructor
    init = P.func("grid:Grid.__init__")

    def ctor():
        ev = Evaluator(P, models={"warnings.warn": lambda ev, a, k, n: None, "grid:Grid.set_metrics": lambda ev, a, k, n: None})

        def make():
            coords = {a: {"center": dimsym(a.name, "center"), "left": dimsym(a.name, "left")} for a in (AX, AY)}
            dims = tuple(d for a in (AX, AY) for d in (dimsym(a.name, "center"), dimsym(a.name, "left")))
            return dict(self=Obj("Grid", "self", (), {"__class__": "grid:Grid"}), ds=Obj("Dataset", "ds", (), {"dims": dims, "__isinstance__": ("Dataset",)}), coords=coords, periodic=[AX],
                        fill_value={AX: 1.0}, default_shifts=None, boundary={AY: "extend"}, face_connections=None, metrics={(AX,): [Sym("dx")]}, autoparse_metadata=False)

        ev.run_paths(init, make)
        return [ev]

    B.run("Grid(...) with explicit coords, per-axis options and metrics", init, ctor, [])

    # basic padding and pad() itself
    from .c01 import run_pad_basic
    from .c02 import run_pad

    B.run("basic padding of two axes", P.func("padding:_pad_basic"), lambda: run_pad_basic(P, "fill", axnames=("AX", "AY")), [])
    B.run("pad() with per-axis mappings", P.func("padding:pad"), lambda: run_pad(P, {AX: "extend"}, {AY: 2.0}, {AX: (1, 0), AY: (0, 1)}), [])

    # face-connection padding (dimension swapping) and apply_as_grid_ufunc
    pfc = P.func("padding:_pad_face_connections")

    def facepad():
        import sa.facepad as fp

        evs = []
        orig = fp.Evaluator

        class Rec(orig):
            def __init__(self, *a, **k):
                super().__init__(*a, **k)
                evs.append(self)

        fp.Evaluator = Rec
        try:
            for swap in (False, True):
                for vec in (None, "parallel"):
                    outs = fp.run(P, fp.table_for(True, swap, False), vector=vec)
                    for o in outs:
                        for e in o.events:
                            if e[0] == "rename-to-manufactured-name":
                                evs[-1].sticky.append(("label-concat", e[1], None, e[2]))
        finally:
            fp.Evaluator = orig
        return evs

    B.run("padding across same-axis and axis-swapping face links", pfc, facepad, [])
    app = P.func("grid_ufunc:apply_as_grid_ufunc")

    def apply_case():
        import sa.harness as h

        evs = []
        orig = h.Evaluator

        class Rec(orig):
            def __init__(self, *a, **k):
                super().__init__(*a, **k)
                evs.append(self)

        h.Evaluator = Rec
        try:
            run_apply(P, "(X:center,Y:center)->(Y:left,X:center)", [(AX, AY)], boundary_width={"X": (0, 0), "Y": (1, 0)})
        finally:
            h.Evaluator = orig
        return evs

    B.run("apply_as_grid_ufunc binding dummy names to opaque axes", app, apply_case, [])

    # transform (names of dimensions and of the target)
    if P.has_func("transform:transform"):
        tfi = P.func("transform:transform")

        def transform_case(method, target_dim=None):
            def thunk():
                import sa.props.c08 as c08

                evs = []
                orig = c08.Evaluator

                class Rec(orig):
                    def __init__(self, *a, **k):
                        super().__init__(*a, **k)
                        evs.append(self)

                c08.Evaluator = Rec
                try:
                    c08.run_transform(P, method, target_dim=target_dim, td_dims=[Sym("t"), dimsym("AZ", "outer")] if method == "conservative" else None)
                finally:
                    c08.Evaluator = orig
                return evs

            return thunk

        B.run("transform(method='linear')", tfi, transform_case("linear"), [])
        B.run("transform(method='conservative') with an explicit target_dim", tfi, transform_case("conservative", target_dim=Sym("lev")), [])
        _temporaries(ctx, P)
    ctx.note("operations_in_battery", B.n)
    ctx.floor("R13.1", "operations interpreted with opaque labels", B.n, 20)

    _text_level(ctx, P)
    _census(ctx, P)


def _temporaries(ctx, P):
    """Dimension names manufactured inside the transform wrappers must not collide with a dimension of the
    operands.  First the literal names the wrapper manufactures are collected; then the wrapper is interpreted
    again on operands that already carry dimensions of exactly those names: a manufactured name that equals an
    operand's dimension is a collision (the user's data cannot be called like that)."""
    deco = P.func("transform:input_handling")
    for raw_q in ("transform:linear_interpolation", "transform:conservative_interpolation"):
        raw = P.func(raw_q)

        def run(extra_dims, on="both"):
            made = []

            def m_apply_ufunc(ev, args, kw, node):
                for group in (kw.get("input_core_dims") or []) + (kw.get("output_core_dims") or []):
                    for d in group:
                        if isinstance(d, str):
                            made.append((d, node))
                ocd = kw.get("output_core_dims")
                return make_da("APPLIED", [Sym("t")] + list(ocd[0] if ocd else []))

            def rename(ev, recv, args, kw, node):
                m = dict(args[0]) if args and isinstance(args[0], dict) else {}
                for k, v in m.items():
                    if isinstance(v, str):
                        made.append((v, node))
                return recv.with_eff(("rename", m), dims=tuple(m.get(d, d) for d in recv.attrs.get("dims", ())))

            mm = dict(da_method_models())
            mm[("DataArray", "rename")] = rename
            mm[("DataArray", "__len__")] = lambda ev, r, a, k, n: Lin.sym("n")
            am = dict(da_attr_models())
            am[("DataArray", "data")] = lambda ev, o, n: Obj("ndarray", o.name + ".data")
            ev = Evaluator(P, models={"xarray.apply_ufunc": m_apply_ufunc}, method_models=mm, attr_models=am)
            wrapper = ev.call(FuncV(deco, deco.node, None, "transform"), [FuncV(raw, raw.node, None, "transform")], {}, None)
            ev.events, ev.decisions, ev._prefix, ev._pending = [], [], [], []
            ev.call(wrapper, [make_da("phi", [Sym("t")] + (list(extra_dims) if on in ("phi", "both") else []) + [Sym("zc")], name=Sym("nm")),
                              make_da("theta", [Sym("t")] + (list(extra_dims) if on in ("theta", "both") else []) + [Sym("zo")]),
                              make_da("levels", [Sym("lev")]), Sym("zc"), Sym("zo"), Sym("lev")], {"suffix": "_s"}, None)
            return made

        try:
            first = run([])
            names = []
            for n_, _node in first:
                if n_ not in names:
                    names.append(n_)
            second = (run(names, "phi") + run(names, "theta")) if names else []
        except Unmodelled as e:
            ctx.unknown("R13.1", f"temporary names in {raw_q}", str(e))
            continue
        except Raised as r:
            ctx.unknown("R13.1", f"temporary names in {raw_q}", f"the wrapper raises {r.typ} on a plain call (reported by C07/C08)")
            continue
        collided = {}
        for n_, node in second:
            if n_ in names:
                collided.setdefault(n_, node)
        for name, node in collided.items():
            owner = _owner(P, node) or raw
            ctx.report("R13.1", owner, f"literal temporary dimension name '{name}'", f"a dimension is renamed to / created under the fixed name '{name}' even when an operand already has a dimension of that name: the user's dimension collides with it", node)
        if not collided:
            ctx.ok("R13.1", f"temporary names in {raw_q}", f"manufactured names {names} are replaced when an operand already uses them" if names else "no literal dimension names")


def _text_level(ctx, P):
    """R13.2: signature text built from real axis names, with adversarial names."""
    from .c15 import match_method_models, re_models

    fi = P.func("grid_ufunc:_parse_signature_from_string")
    names = ["t", "e", "r", "n", "c", "l", "i", "o", "u", "g", "h", "X", "x", "left", "Left", "LEFT", "leftover", "xcenter", "center_x", "inner1", "outerspace", "righteous", "ce", "cen", "rightleft", "a1", "_", "depth"]
    n = 0
    bad = None
    for nm in names:
        for other in (nm, names[(names.index(nm) + 7) % len(names)]):
            text = f"({nm}:center,{other}:left)->({other}:outer)"
            ev = Evaluator(P, models=re_models(), method_models=match_method_models())
            try:
                outs = ev.run_paths(fi, lambda: dict(signature=text))
            except Unmodelled as e:
                ctx.unknown("R13.2", f"signature with names {nm!r}, {other!r}", str(e))
                return
            n += 1
            want = ([(nm, other)], [("center", "left")], [(other,)], [("outer",)])
            if nm in ("center", "left", "right", "inner", "outer"):
                continue
            if len(outs) != 1 or outs[0].kind != "return":
                bad = bad or f"{text!r} is refused ({outs[0].value}) although the names are ordinary identifiers"
            elif tuple([tuple(x) for x in part] for part in outs[0].value) != tuple(want):
                bad = bad or f"{text!r} is parsed as names {outs[0].value[0]}/{outs[0].value[2]}: a name was altered"
    if bad:
        ctx.report("R13.2", fi, "signature text with adversarial names", bad)
    else:
        ctx.ok("R13.2", f"signature text with {len(names)} adversarial names ({n} signatures)", "names come back intact")
    # a user's dummy axis name must not decide anything on the whole apply path (padded, lazy with map_overlap, plain):
    # the outcome for an adversarial name equals the outcome for the neutral name `k`
    app = P.func("grid_ufunc:apply_as_grid_ufunc")

    def outcome(nm, **kw):
        outs = run_apply(P, f"({nm}:center)->({nm}:left)", [(AX,)], boundary_width={nm: (1, 0)}, axnames=("AX",), **kw)
        return sorted((o.kind, o.value if o.kind == "raise" else "") for o in outs)

    for mode, kw in (("map_overlap", {"map_overlap": True}), ("plain", {})):
        try:
            base = outcome("k", **kw)
            odd = [nm for nm in ("winner", "router", "inner_k", "outer_shelf", "centered", "leftover", "tright") if outcome(nm, **kw) != base]
        except Unmodelled as e:
            ctx.unknown("R13.2", f"dummy axis names on the {mode} apply path", str(e))
            continue
        if odd:
            ctx.report("R13.2", app, f"dummy axis names on the {mode} apply path", f"a grid ufunc whose dummy axis is called {odd[0]!r} is treated differently from the same ufunc with the name `k` ({outcome(odd[0], **kw)} vs {base}): the name's text is inspected")
        else:
            ctx.ok("R13.2", f"dummy axis names on the {mode} apply path", "seven names containing position words behave like `k`")
    # the 1-D signature built by the dispatch from the real axis name goes through this parser:
    cr = P.func("grid:Grid._create_1d_grid_ufunc_signatures")
    texts = []

    def m_from_string(ev, args, kw, node):
        texts.append(args[-1])
        return Obj("Signature", "s")

    ev = Evaluator(P, models={"grid_ufunc:_GridUFuncSignature.from_string": m_from_string, "grid_ufunc:_GridUFuncSignature": lambda ev, a, k, n: Obj("Signature", "s")})
    try:
        ev.run_paths(cr, lambda: dict(self=make_grid(("AX",)), da=make_da("da", [dimsym("AX", "center")]), axis=[AX], to={AX: "left"}))
        ok = all(isinstance(t, Text) and [p for p in t.parts if isinstance(p, Sym)] == [AX, AX] and "".join(p for p in t.parts if isinstance(p, str)) == "(:center)->(:left)" for t in texts)
        if texts and not ok:
            ctx.report("R13.2", cr, "1-D signature text", f"the signature text built for an axis is {texts!r}; the axis name must appear verbatim as the only variable part")
        else:
            ctx.ok("R13.2", "1-D signature text built from the axis name", "name inserted verbatim" if texts else "signature constructed without text")
    except Unmodelled as e:
        ctx.unknown("R13.2", "1-D signature text", str(e))


# ---------------------------------------------------------------------------------- R13.3 static census
STR_METHODS = {"startswith", "endswith", "find", "index", "upper", "lower", "title", "capitalize", "strip", "lstrip", "rstrip", "split", "rsplit", "replace", "partition", "zfill", "isupper", "islower", "isdigit", "isalpha", "count", "swapcase", "casefold"}
LABEL_ITER_ATTRS = {"axes", "dims", "coords", "_coords", "data_vars", "variables"}
LABEL_MAPPINGS = {"padding_width", "boundary_width", "boundary_width_real_axes", "boundary_width_dims", "padding", "max_padding_width", "padding_width_expanded", "vector", "periodic_dict", "boundary_dict"}
LABEL_PARAMS = {
    "grid:Grid._get_dims_from_axis": ["axis"], "grid:Grid.get_metric": ["axes"], "grid:Grid.set_metrics": ["key", "value"], "grid:Grid.cumsum": ["axis"], "grid:Grid._1d_grid_ufunc_dispatch": ["axis"],
    "grid:Grid.derivative": ["axis"], "grid:Grid.integrate": ["axis"], "grid:Grid.average": ["axis"], "grid:Grid.cumint": ["axis"], "transform:transform": ["axis_name", "target_dim"],
    "padding:_maybe_swap_dimension_names": ["from_name", "to_name"], "grid:_maybe_get_axis_kwarg_from_mapping": ["axname"], "axis:Axis.__init__": ["name"],
    "transform:linear_interpolation": ["phi_dim", "theta_dim", "target_dim"], "transform:conservative_interpolation": ["phi_dim", "theta_dim", "target_dim"], "grid_ufunc:_get_dim": ["ax_name"],
    "comodo:get_axis_coords": ["axis_name"], "comodo:get_axis_positions_and_coords": ["axis_name"],
}


def _label_names(fi):
    """Names of one function that hold labels, by high-confidence syntactic seeds."""
    labels = set(LABEL_PARAMS.get(fi.q, []))
    for n in own_nodes(fi.node):
        it = tgt = None
        if isinstance(n, ast.For):
            it, tgt = n.iter, n.target
        elif isinstance(n, ast.comprehension):
            it, tgt = n.iter, n.target
        if it is not None:
            src = it
            via_items = False
            if isinstance(src, ast.Call) and isinstance(src.func, ast.Attribute) and src.func.attr in ("keys", "items", "values"):
                via_items = src.func.attr
                src = src.func.value
            if isinstance(src, ast.Attribute) and src.attr in LABEL_ITER_ATTRS or (isinstance(src, ast.Name) and (src.id in labels or src.id in LABEL_MAPPINGS)):
                names = [x.id for x in ast.walk(tgt) if isinstance(x, ast.Name)]
                if via_items == "items" and isinstance(tgt, ast.Tuple) and len(tgt.elts) == 2:
                    if isinstance(src, ast.Attribute) and src.attr in ("coords", "_coords") and isinstance(tgt.elts[1], ast.Name):
                        labels.add(tgt.elts[1].id)  # position -> dimension name
                    elif isinstance(tgt.elts[0], ast.Name):
                        labels.add(tgt.elts[0].id)
                elif via_items == "values" and isinstance(src, ast.Attribute) and src.attr in ("coords", "_coords"):
                    labels.update(names)
                elif not via_items or via_items == "keys":
                    if not (isinstance(src, ast.Attribute) and src.attr in ("coords", "_coords")):  # keys of Axis.coords are position words
                        labels.update(names)
        if isinstance(n, ast.Assign) and isinstance(n.value, ast.Call) and isinstance(n.value.func, ast.Attribute) and n.value.func.attr == "_get_position_name":
            t = n.targets[0]
            if isinstance(t, ast.Tuple) and len(t.elts) == 2 and isinstance(t.elts[1], ast.Name):
                labels.add(t.elts[1].id)
    labels.discard("_")
    return labels


def _census(ctx, P):
    n_sites = 0
    n_funcs = 0
    for q, fi in P.functions.items():
        labels = _label_names(fi)
        if not labels:
            continue
        n_funcs += 1
        for n in own_nodes(fi.node):
            hit = None
            if isinstance(n, ast.Call) and isinstance(n.func, ast.Name) and n.func.id == "len" and n.args and isinstance(n.args[0], ast.Name) and n.args[0].id in labels:
                if not _is_collection_param(fi, n.args[0].id):
                    hit = "len() of a name"
            elif isinstance(n, ast.Call) and isinstance(n.func, ast.Attribute) and n.func.attr in STR_METHODS and isinstance(n.func.value, ast.Name) and n.func.value.id in labels:
                hit = f".{n.func.attr}() on a name"
            elif isinstance(n, ast.Subscript) and isinstance(n.value, ast.Name) and n.value.id in labels and isinstance(n.ctx, ast.Load) and not _is_collection_param(fi, n.value.id):
                hit = "indexing / slicing a name"
            elif isinstance(n, ast.BinOp) and isinstance(n.op, (ast.Add, ast.Mod)) and any(isinstance(x, ast.Name) and x.id in labels for x in (n.left, n.right)) and any(isinstance(x, (ast.Constant, ast.JoinedStr)) and (not isinstance(x, ast.Constant) or isinstance(x.value, str)) for x in (n.left, n.right)):
                if isinstance(n.op, ast.Add):
                    hit = "a name concatenated with text"
            elif isinstance(n, ast.Compare) and any(isinstance(o, (ast.Lt, ast.LtE, ast.Gt, ast.GtE)) for o in n.ops) and any(isinstance(x, ast.Name) and x.id in labels for x in [n.left] + n.comparators):
                hit = "names compared by alphabetical order"
            elif isinstance(n, ast.Compare) and any(isinstance(o, (ast.In, ast.NotIn)) for o in n.ops) and isinstance(n.left, (ast.Constant,)) and isinstance(n.left.value, str) and any(isinstance(x, ast.Name) and x.id in labels for x in n.comparators):
                hit = "substring test on a name"
            elif isinstance(n, ast.Call) and any(k.arg is None and isinstance(k.value, ast.Dict) and any(isinstance(kk, ast.Name) and kk.id in labels for kk in k.value.keys if kk is not None) for k in n.keywords):
                hit = "a name used as a keyword through **{name: ...}"
            if hit:
                n_sites += 1
                par = None
                if _in_raise_or_warn(fi.node, n):
                    continue
                ctx.report("R13.3", fi, norm(n, 100), f"{hit}: `{norm(n, 80)}` in {q}", n)
    ctx.note("census_functions_with_label_names", n_funcs)
    ctx.floor("R13.3", "functions with label-typed names scanned", n_funcs, 15)
    ctx.ok("R13.3", f"{n_funcs} functions with label-typed names", "no string-inspecting operation on a label")


def _is_collection_param(fi, name):
    """Parameters documented as 'a name or a list of names' are collections after promotion; len()/indexing of the
    *promoted* value is not an inspection of a label."""
    for n in own_nodes(fi.node):
        if isinstance(n, ast.Assign) and any(isinstance(t, ast.Name) and t.id == name for t in n.targets):
            v = n.value
            if isinstance(v, ast.Call) and isinstance(v.func, ast.Name) and v.func.id in ("_maybe_promote_str_to_list", "list", "tuple", "frozenset", "set"):
                return True
            if isinstance(v, (ast.List, ast.Tuple)):
                return True
    return False


def _in_raise_or_warn(fn, node):
    from ..flow import stmt_of

    st = stmt_of(fn, node)
    if isinstance(st, ast.Raise):
        return True
    if isinstance(st, ast.Expr) and isinstance(st.value, ast.Call) and "warn" in norm(st.value.func):
        return True
    return False
