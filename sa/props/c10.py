"""C10 - the metric applied is the one registered for the array's position and axes.

  R10.1 metric/array pairing - by abstract evaluation of the dispatch, Grid.cumsum, derivative, integrate,
        cumint, average: every product / quotient / weighting of an array A with a metric uses
        get_metric(A, axes) for that very A: before a stencil the input, after it the *result* (the metric at
        the result's position); derivative divides diff by the metric of the diff;
  R10.2 selection in get_metric - evaluated abstractly on registries over 1-3 axes: a variable registered for
        exactly the requested set wins (at the array's position if there is one, else interp_like(..., 'extend')
        with a warning); only otherwise a product over a partition, largest block first, each factor at the
        position or interpolated with a warning; nothing found raises; the result broadcasts against the array;
  R10.3 reductions - integrate / average reduce over exactly the array's dimensions of the named axes.
"""
from __future__ import annotations

import copy

from ..absint import TOP, Evaluator, Obj, Sym, Unmodelled
from ..harness import run_dispatch
from ..xmodel import COMMON_MODELS, dimsym, make_da, make_grid
from .c09 import _run_cumsum

EXPLANATION = (
    "Abstract evaluation of _1d_grid_ufunc_dispatch / cumsum / derivative / integrate / cumint / average with a recording "
    "model of get_metric (pairing of each metric with the array it is applied to), and of get_metric itself on modelled "
    "registries (selection order: exact set at position, exact set interpolated, partition products largest block first)."
)
ASSUMPTIONS = ["xarray broadcasting by dimension name", "interp_like interpolates to the position of `like` (C01 rules)"]
TECHNIQUE = "abstract evaluation with a recording metric model (pairing) + decision-table extraction on get_metric"
LEVEL_TEXT = (
    "Decided on the source by abstract interpretation: each metric multiplication/division is paired with get_metric of the very array it is applied to "
    "(input before the stencil, result after it; derivative uses the metric at the diff's position); get_metric prefers a variable registered for exactly "
    "the requested axes (at the array's position, else interpolated with 'extend' and a warning) over partition products, takes the largest block first, "
    "and raises when nothing fits; integrate/average reduce over exactly the axes' dimensions. The numerical identities are not executed."
)
LEVEL_TEXT += ' Also decided: several misplaced factors with identical dimensions are interpolated one by one; per-axis metric_weighted mappings are read by axis name whatever their order or extra entries (dispatch and cumsum).'
LEVEL_NOTE = "Trusted: xarray arithmetic/broadcasting/weighted; the abstract evaluator. Hash-order dependence of the partition choice is C12's subject."

AX, AY, AZ = Sym("AX"), Sym("AY"), Sym("AZ")


def _lineage_ops(v):
    return [e[0] for e in v.eff] if isinstance(v, Obj) else []


def _same_lineage(a, b):
    return isinstance(a, Obj) and isinstance(b, Obj) and a.name == b.name and [e[0] for e in a.eff] == [e[0] for e in b.eff]


def check(ctx):
    P = ctx.project
    _pairing_dispatch(ctx, P)
    _pairing_cumsum(ctx, P)
    _pairing_cumsum_two_axes(ctx, P)
    _pairing_public(ctx, P)
    _selection(ctx, P)
    _interp_like(ctx, P)


def _pairing_dispatch(ctx, P):
    fi = P.func("grid:Grid._1d_grid_ufunc_dispatch")
    for name, mw, want_axes in (("metric_weighted as a tuple", (AX, AY), (AX, AY)), ("metric_weighted as a string", Sym("AX"), (Sym("AX"),)), ("metric_weighted as a per-axis mapping", {AX: (AX,)}, (AX,))):
        inst = f"dispatch, {name}"
        try:
            outs = run_dispatch(P, "interp", {"AX": "center"}, "left", metric_weighted=copy.deepcopy(mw), dims=[Sym("t"), dimsym("AX", "center")])
        except Unmodelled as e:
            ctx.unknown("R10.1", inst, str(e))
            continue
        bad = None
        for o in outs:
            if o.kind != "return" or not isinstance(o.value, Obj):
                bad = f"{o.kind} {o.value}"
                continue
            eff = o.value.eff
            ops = [e[0] for e in eff]
            if "mult" not in ops or "div" not in ops or "UFUNC" not in ops or not (ops.index("mult") < ops.index("UFUNC") < ops.index("div")):
                bad = f"operations {ops}: expected multiply by the metric, stencil, divide by the metric"
                continue
            i_m, i_u, i_d = ops.index("mult"), ops.index("UFUNC"), ops.index("div")
            m1, m2 = eff[i_m][1], eff[i_d][1]
            if not (isinstance(m1, Obj) and m1.kind == "Metric" and isinstance(m2, Obj) and m2.kind == "Metric" and not m1.eff and not m2.eff):
                bad = "the factor / divisor is not a metric obtained from get_metric"
                continue
            a1, a2 = m1.attrs["array"], m2.attrs["array"]
            if not (isinstance(a1, Obj) and a1.name == "da" and [e[0] for e in a1.eff] == ops[:i_m]):
                bad = "before the stencil the array is multiplied by a metric looked up for a different array than the one multiplied"
            elif not (isinstance(a2, Obj) and a2.name == "da" and [e[0] for e in a2.eff] == ops[:i_d]):
                bad = "after the stencil the result is divided by a metric that was not looked up at the result's position (get_metric must be given the result)"
            elif tuple(m1.attrs["axes"]) != tuple(want_axes) or tuple(m2.attrs["axes"]) != tuple(want_axes):
                bad = f"metric looked up for axes {m1.attrs['axes']!r}/{m2.attrs['axes']!r} instead of {want_axes!r}"
        if bad:
            ctx.report("R10.1", fi, inst, bad)
        else:
            ctx.ok("R10.1", inst, "input * metric(input) -> stencil -> result / metric(result)")
    # several axes, each with its own request: the weights of an axis are the ones given for *that* axis
    both = [("mult", (AX,)), ("UFUNC",), ("div", (AX,)), ("mult", (AY, AX)), ("UFUNC",), ("div", (AY, AX))]
    for name, mw, want, axis_arg in (("per-axis mapping with different axes per axis", {AX: (AX,), AY: (AY, AX)}, both, [AX, AY]),
                                     ("per-axis mapping, only the second axis weighted", {AX: None, AY: (AY,)}, [("UFUNC",), ("mult", (AY,)), ("UFUNC",), ("div", (AY,))], [AX, AY]),
                                     # a mapping is keyed by axis: the order of its entries and entries for axes not operated on are immaterial
                                     ("per-axis mapping listing the axes in another order than `axis`", {AY: (AY, AX), AX: (AX,)}, both, [AX, AY]),
                                     ("per-axis mapping naming more axes than are operated on", {AX: (AX,), AY: (AY, AX)}, [("mult", (AY, AX)), ("UFUNC",), ("div", (AY, AX))], [AY])):
        inst = f"dispatch over two axes, {name}"
        try:
            outs = run_dispatch(P, "interp", {"AX": "center", "AY": "center"}, "left", axnames=("AX", "AY"), axis_arg=list(axis_arg), metric_weighted=copy.deepcopy(mw))
        except Unmodelled as e:
            ctx.unknown("R10.1", inst, str(e))
            continue
        bad = None
        for o in outs:
            if o.kind != "return" or not isinstance(o.value, Obj):
                bad = f"{o.kind} {o.value}"
                continue
            got = []
            for e in o.value.eff:
                if e[0] in ("mult", "div"):
                    m = e[1]
                    got.append((e[0], tuple(m.attrs["axes"]) if isinstance(m, Obj) and m.kind == "Metric" and isinstance(m.attrs.get("axes"), (list, tuple)) else "?"))
                elif e[0] == "UFUNC":
                    got.append(("UFUNC",))
            if got != want:
                bad = f"operations {got}; expected {want} (each axis weighted by the metric requested for it, before and after its own stencil)"
        if bad:
            ctx.report("R10.1", fi, inst, bad)
        else:
            ctx.ok("R10.1", inst, "each axis with its own weights")
    try:
        outs = run_dispatch(P, "interp", {"AX": "center"}, "left", metric_weighted=None, dims=[Sym("t"), dimsym("AX", "center")])
        if any(any(e[0] in ("mult", "div") for e in o.value.eff) for o in outs if isinstance(o.value, Obj)):
            ctx.report("R10.1", fi, "dispatch without metric_weighted", "a metric is applied although metric_weighted was not requested")
        else:
            ctx.ok("R10.1", "dispatch without metric_weighted", "no metric applied")
    except Unmodelled as e:
        ctx.unknown("R10.1", "dispatch without metric_weighted", str(e))


def _pairing_cumsum(ctx, P):
    fi = P.func("grid:Grid.cumsum")
    inst = "cumsum with metric_weighted"
    try:
        outs = _run_cumsum(P, "center", "left", mw=(AX,))
    except Unmodelled as e:
        ctx.unknown("R10.1", inst, str(e))
        return
    bad = None
    for o in outs:
        if o.kind != "return" or not isinstance(o.value, Obj):
            bad = f"{o.kind} {o.value}"
            continue
        eff = o.value.eff
        ops = [e[0] for e in eff]
        if "mult" not in ops or "div" not in ops or not (ops.index("mult") < ops.index("cumsum") < ops.index("div")):
            bad = f"operations {ops}: expected multiply, cumsum ..., divide"
            continue
        i_m, i_d = ops.index("mult"), ops.index("div")
        m1, m2 = eff[i_m][1], eff[i_d][1]
        a1, a2 = m1.attrs.get("array"), m2.attrs.get("array")
        if not (isinstance(a1, Obj) and [e[0] for e in a1.eff] == ops[:i_m]):
            bad = "the data is multiplied by a metric looked up for another array"
        elif not (isinstance(a2, Obj) and [e[0] for e in a2.eff] == ops[:i_d]):
            bad = "the result is divided by a metric not looked up at the result's position"
        elif i_d != len(ops) - 1 or "REATTACH" not in ops[:i_d]:
            bad = "the division by the metric does not act on the re-labelled result"
    if bad:
        ctx.report("R10.1", fi, inst, bad)
    else:
        ctx.ok("R10.1", inst, "data * metric(data) -> cumsum/pad/rename -> result / metric(result)")


def _pairing_cumsum_two_axes(ctx, P):
    """cumsum over two axes with a request per axis: each axis is weighted by what was asked for *it*, and every metric is
    looked up for the array as it stands at that moment (after the first axis the data lies at another position)."""
    fi = P.func("grid:Grid.cumsum")
    both = [("mult", (AX,)), ("cumsum",), ("div", (AX,)), ("mult", (AY, AX)), ("cumsum",), ("div", (AY, AX))]
    for name, mw, want, axis_arg in (("a different request per axis", {AX: (AX,), AY: (AY, AX)}, both, [AX, AY]),
                                     ("only the second axis weighted", {AX: None, AY: (AY,)}, [("cumsum",), ("mult", (AY,)), ("cumsum",), ("div", (AY,))], [AX, AY]),
                                     ("the mapping lists the axes in another order than `axis`", {AY: (AY, AX), AX: (AX,)}, both, [AX, AY]),
                                     ("the mapping names more axes than are summed", {AX: (AX,), AY: (AY, AX)}, [("mult", (AY, AX)), ("cumsum",), ("div", (AY, AX))], [AY])):
        inst = f"cumsum over two axes with metric_weighted, {name}"
        try:
            outs = _run_cumsum(P, "center", "left", axnames=("AX", "AY"), axis_arg=list(axis_arg), mw=copy.deepcopy(mw))
        except Unmodelled as e:
            ctx.unknown("R10.1", inst, str(e))
            continue
        bad = None
        for o in outs:
            if o.kind != "return" or not isinstance(o.value, Obj):
                bad = f"{o.kind} {o.value}"
                continue
            eff = o.value.eff
            ops = [e[0] for e in eff]
            got = []
            for i, e in enumerate(eff):
                if e[0] in ("mult", "div"):
                    m = e[1]
                    if not (isinstance(m, Obj) and m.kind == "Metric" and isinstance(m.attrs.get("axes"), (list, tuple))):
                        got.append((e[0], "?"))
                        continue
                    got.append((e[0], tuple(m.attrs["axes"])))
                    a = m.attrs.get("array")
                    if not (isinstance(a, Obj) and [x[0] for x in a.eff] == ops[:i]):
                        bad = bad or f"the {'factor' if e[0] == 'mult' else 'divisor'} for axes {tuple(m.attrs['axes'])!r} is looked up for another array than the one it is applied to (the data has moved to a new position along the axes already summed)"
                elif e[0] == "cumsum":
                    got.append(("cumsum",))
            if got != want:
                bad = bad or f"operations {got}; expected {want} (each axis weighted by the metric requested for it)"
        if bad:
            ctx.report("R10.1", fi, inst, bad)
        else:
            ctx.ok("R10.1", inst, "each axis with its own weights, looked up for the array as it stands")


def _pairing_public(ctx, P):
    def run(meth, extra_models=None, **kwargs):
        fi = P.func(f"grid:Grid.{meth}")
        models = dict(COMMON_MODELS)
        models.update(extra_models or {})
        ev = Evaluator(P, models=models)
        g = make_grid(("AX", "AY"))
        da = make_da("da", [Sym("t"), dimsym("AX", "center"), dimsym("AY", "center")])
        a = dict(self=g, da=da, axis=kwargs.pop("axis", Sym("AX")), kwargs={"to": Sym("USER_TO")})
        return fi, da, ev.run_paths(fi, lambda: dict(a))

    # derivative
    def m_diff(ev, args, kw, node):
        return make_da("DIFF", [Sym("t"), dimsym("AX", "left"), dimsym("AY", "center")], call=(args, kw))

    try:
        fi, da, outs = run("derivative", {"grid:Grid.diff": m_diff})
        bad = None
        for o in outs:
            v = o.value
            if o.kind != "return" or not (isinstance(v, Obj) and v.name == "DIFF" and len(v.eff) == 1 and v.eff[0][0] == "div"):
                bad = "derivative is not diff(...) / metric"
                continue
            m = v.eff[0][1]
            args, kw = v.attrs["call"]
            if not (isinstance(m, Obj) and m.kind == "Metric" and not m.eff and isinstance(m.attrs["array"], Obj) and m.attrs["array"].name == "DIFF" and not m.attrs["array"].eff):
                bad = "the difference is divided by a metric that is not looked up at the difference's position (get_metric must be given the result of diff)"
            elif tuple(m.attrs["axes"]) != (Sym("AX"),):
                bad = f"metric looked up for axes {m.attrs['axes']!r} instead of (axis,)"
            elif args[1] is not da or args[2] != Sym("AX") or kw.get("to") != Sym("USER_TO"):
                bad = "derivative does not forward da, axis and keyword arguments to diff"
        if bad:
            ctx.report("R10.1", fi, "derivative", bad)
        else:
            ctx.ok("R10.1", "derivative", "diff(da, axis, **kwargs) / get_metric(diff, (axis,))")
    except Unmodelled as e:
        ctx.unknown("R10.1", "derivative", str(e))

    # integrate / average
    for meth in ("integrate", "average"):
        for axis_name, axis, want_dims in (("one axis", Sym("AX"), [dimsym("AX", "center")]), ("two axes", [Sym("AY"), Sym("AX")], [dimsym("AY", "center"), dimsym("AX", "center")])):
            inst = f"{meth}, {axis_name}"
            try:
                fi, da, outs = run(meth, axis=axis)
            except Unmodelled as e:
                ctx.unknown("R10.1", inst, str(e))
                continue
            bad = None
            for o in outs:
                v = o.value
                if o.kind != "return" or not isinstance(v, Obj) or v.name != "da":
                    bad = f"{o.kind} {o.value!r}"
                    continue
                ops = [e[0] for e in v.eff]
                if meth == "integrate":
                    if ops != ["mult", "sum"]:
                        bad = f"operations {ops}; expected (da * metric).sum(dims)"
                        continue
                    m, red = v.eff[0][1], v.eff[1]
                else:
                    if ops != ["weighted", "mean"]:
                        bad = f"operations {ops}; expected da.weighted(metric).mean(dims)"
                        continue
                    m, red = v.eff[0][1][0], v.eff[1]
                if not (isinstance(m, Obj) and m.kind == "Metric" and not m.eff and m.attrs["array"] is da and m.attrs["axes"] == axis):
                    bad = "the weight is not get_metric(da, axis) of the array being reduced"
                dims = red[1][0] if red[1] else dict(red[2]).get("dim")
                if list(dims) != want_dims:
                    bad = bad or f"reduces over {dims!r}; expected exactly the array's dimensions of the named axes {want_dims!r}"
                if dict(red[2]).get("to") != Sym("USER_TO"):
                    bad = bad or "keyword arguments are not forwarded to the reduction"
            if bad:
                ctx.report("R10.3" if "reduces over" in (bad or "") else "R10.1", fi, inst, bad)
            else:
                ctx.ok("R10.3", inst, f"weight = get_metric(da, axis); reduced over {want_dims}")


# ---------------------------------------------------------------------------------- get_metric selection
def mvar(name, dims):
    return Obj("DataArray", name, (), {"dims": tuple(dims), "__isinstance__": ("DataArray",), "name": name})


def run_get_metric(P, registry, array_dims, axes, axnames=("AX", "AY", "AZ")):
    def m_interp_like(ev, args, kw, node):
        b = dict(zip(["self", "array", "like", "boundary", "fill_value"], args))
        b.update(kw)
        ev.events.append(("interp_like", b, node))
        src = b["array"]
        return Obj("DataArray", f"INTERP({src.name})", (), {"dims": b["like"].attrs["dims"], "of": src, "boundary": b.get("boundary"), "fill_value": b.get("fill_value"), "like": b["like"]})

    def m_warn(ev, args, kw, node):
        ev.events.append(("warn", node))
        return None

    ev = Evaluator(P, models={"grid:Grid.interp_like": m_interp_like, "warnings.warn": m_warn})
    fi = P.func("grid:Grid.get_metric")

    def make():
        g = make_grid(axnames)
        g.attrs["_metrics"] = copy.deepcopy(registry)
        arr = make_da("arr", array_dims)
        return dict(self=g, array=arr, axes=copy.deepcopy(axes))

    return ev.run_paths(fi, make)


def factors(v):
    """Names of the factors of a product lineage (base and every mult operand)."""
    if not isinstance(v, Obj):
        return None
    out = [v.name]
    for e in v.eff:
        if e[0] == "mult" and isinstance(e[1], Obj) and not e[1].eff:
            out.append(e[1].name)
        elif e[0] == "rmult" and e[1] == 1:
            continue
        elif e[0] == "mult" and e[1] == 1:
            continue
        elif e[0] in ("mult", "rmult") and isinstance(e[1], (int, float)) and not isinstance(e[1], bool):
            out.append(f"the constant {e[1]!r}")  # a numeric factor other than 1 scales the metric
        else:
            return None
    return sorted(out)


def _selection(ctx, P):
    fi = P.func("grid:Grid.get_metric")
    c = lambda a: dimsym(a, "center")
    l = lambda a: dimsym(a, "left")
    fs = frozenset
    full = {fs([AX]): [mvar("dxc", [c("AX")]), mvar("dxg", [l("AX")])], fs([AY]): [mvar("dyc", [c("AY")]), mvar("dyg", [l("AY")])], fs([AZ]): [mvar("dz", [c("AZ")])],
            fs([AX, AY]): [mvar("area_c", [c("AX"), c("AY")]), mvar("area_g", [l("AX"), l("AY")])]}
    only1d = {k: v for k, v in full.items() if len(k) == 1}
    cases = [
        ("exact set, variable at the position", full, [Sym("t"), c("AX"), c("AY")], (AX, AY), ["area_c"], 0),
        ("exact set, second variable at the position", full, [l("AX"), l("AY")], (AX, AY), ["area_g"], 0),
        ("exact set wins over a partition that fits", full, [c("AX"), c("AY")], [AY, AX], ["area_c"], 0),
        ("exact set registered only at other positions -> interpolated", full, [l("AX"), c("AY")], (AX, AY), ["INTERP"], 1),
        ("single axis at position", full, [Sym("t"), l("AX")], (AX,), ["dxg"], 0),
        ("single axis given as a plain string", full, [Sym("t"), l("AX")], AX, ["dxg"], 0),
        ("no exact set: product over the partition", only1d, [c("AX"), c("AY")], (AX, AY), ["dxc", "dyc"], 0),
        ("partition with factors at mixed positions", only1d, [l("AX"), c("AY")], (AX, AY), ["dxg", "dyc"], 0),
        ("partition factor registered only elsewhere -> interpolated", only1d, [c("AX"), c("AY"), l("AZ")], (AX, AZ), ["dxc", "INTERP(dz)"], 1),
        ("partition: at-position variable preferred whatever the registration order", {fs([AX]): [mvar("dxg", [l("AX")]), mvar("dxc", [c("AX")])], fs([AZ]): [mvar("dz", [c("AZ")])]}, [c("AX"), l("AZ")], (AX, AZ), ["dxc", "INTERP(dz)"], 1),
        ("three axes: largest block first", full, [c("AX"), c("AY"), c("AZ")], (AX, AY, AZ), ["area_c", "dz"], 0),
        ("three axes, only 1-D metrics", only1d, [c("AX"), c("AY"), c("AZ")], (AX, AY, AZ), ["dxc", "dyc", "dz"], 0),
        # an earlier-tried partition ({AX,AY} x {AZ}) is only partly registered, a later one ({AY,AZ} x {AX}) completely:
        # the factors found while trying the first must not leak into the product of the second
        ("three axes: a partly registered partition is abandoned without trace",
         {fs([AX, AY]): [mvar("area_xy", [c("AX"), c("AY")])], fs([AY, AZ]): [mvar("area_yz", [c("AY"), c("AZ")])], fs([AX]): [mvar("dxc", [c("AX")])]},
         [c("AX"), c("AY"), c("AZ")], (AX, AY, AZ), ["area_yz", "dxc"], 0),
        ("three axes: the same with the complete partition listed first",
         {fs([AY, AZ]): [mvar("area_yz", [c("AY"), c("AZ")])], fs([AX]): [mvar("dxc", [c("AX")])], fs([AX, AY]): [mvar("area_xy", [c("AX"), c("AY")])]},
         [c("AX"), c("AY"), c("AZ")], (AX, AY, AZ), ["area_yz", "dxc"], 0),
        # several factors registered only elsewhere - also with identical dimensions (2-D cell widths): each one is interpolated on its
        # own; the interpolation of a product is not the product of the interpolations for non-uniform metrics
        ("partition: two factors with the same dimensions registered only elsewhere -> each interpolated",
         {fs([AX]): [mvar("dx2", [c("AX"), c("AY")])], fs([AY]): [mvar("dy2", [c("AX"), c("AY")])]}, [l("AX"), c("AY")], (AX, AY), ["INTERP(dx2)", "INTERP(dy2)"], 1),
        ("partition: three factors, two of them with the same dimensions registered only elsewhere",
         {fs([AX]): [mvar("dx2", [c("AX"), c("AY")])], fs([AY]): [mvar("dy2", [c("AX"), c("AY")])], fs([AZ]): [mvar("dz", [c("AZ")])]}, [l("AX"), c("AY"), c("AZ")], (AZ, AX, AY),
         ["INTERP(dx2)", "INTERP(dy2)", "dz"], 1),
        ("nothing registered for an axis", {fs([AX]): full[fs([AX])]}, [c("AX"), c("AY")], (AX, AY), "raise", 0),
        # a metric of a larger axis set is not a metric of the requested one, whatever was registered first
        ("only a superset of the requested axes is registered", {fs([AX, AY]): full[fs([AX, AY])]}, [c("AX"), c("AY")], (AX,), "raise", 0),
        ("a superset registered before the exact set", {fs([AX, AY]): full[fs([AX, AY])], fs([AX]): full[fs([AX])]}, [c("AX"), c("AY")], (AX,), ["dxc"], 0),
        ("a superset registered after the exact set", {fs([AX]): full[fs([AX])], fs([AX, AY]): full[fs([AX, AY])]}, [Sym("t"), l("AX")], (AX,), ["dxg"], 0),
        ("array without a dimension of the axis", full, [Sym("t"), c("AY")], (AX,), "raise", 0),
    ]
    for name, reg, dims, axes, want, n_warn in cases:
        try:
            outs = run_get_metric(P, reg, dims, axes)
        except Unmodelled as e:
            ctx.unknown("R10.2", name, str(e))
            continue
        bad = None
        unreadable = None
        for o in outs:
            if want == "raise":
                if o.kind != "raise":
                    bad = f"returns {o.value!r} although no registered metric fits"
                continue
            if o.kind != "return":
                bad = f"raises {o.value} (line {getattr(getattr(o.exc, 'node', None), 'lineno', '?')})"
                continue
            v = o.value
            interps = [e for e in o.events if e[0] == "interp_like"]
            warns = [e for e in o.events if e[0] == "warn"]
            if want == ["INTERP"]:
                ok = isinstance(v, Obj) and v.name.startswith("INTERP(area_") and not v.eff
            elif any(w.startswith("INTERP") for w in want):
                f = factors(v)
                ok = f is not None and sorted(f) == sorted(want)
            else:
                f = factors(v)
                ok = f == sorted(want)
            if not ok and want != ["INTERP"] and factors(v) is None:
                unreadable = f"the returned value {v!r} is not a product of registered variables this rule can read"
                continue
            if not ok:
                bad = f"selects {factors(v) or v!r}; expected {want} ({name})"
                continue
            if n_warn and not warns:
                bad = "a metric is interpolated to the array's position without the warning"
            if not n_warn and (warns or interps) and name.startswith(("exact set", "single axis")):
                bad = "a metric registered at the array's position exists but an interpolated one / a warning is produced"
            for e in interps:
                b = e[1]
                src = b.get("array")
                if isinstance(src, Obj) and any(x[0] in ("mult", "rmult") and isinstance(x[1], Obj) for x in src.eff):
                    bad = bad or f"a product of metrics ({factors(src) or src!r}) is interpolated as a whole instead of each factor on its own"
                if b.get("boundary") != "extend" or b.get("fill_value") is not None:
                    bad = bad or f"metrics are interpolated with boundary={b.get('boundary')!r}, fill_value={b.get('fill_value')!r} instead of nearest-value extension"
                if not (isinstance(b.get("like"), Obj) and b["like"].name == "arr"):
                    bad = bad or "metrics are not interpolated to the position of the array"
        if bad:
            ctx.report("R10.2", fi, name, bad)
        elif unreadable:
            ctx.unknown("R10.2", name, unreadable)
        else:
            ctx.ok("R10.2", name, f"-> {want}")


def _interp_like(ctx, P):
    """R10.4: interp_like moves `array` along exactly the axes on which its position differs from `like`."""
    fi = P.func("grid:Grid.interp_like")
    calls = []

    def m_interp(ev, args, kw, node):
        calls.append((list(args), dict(kw)))
        return Obj("DataArray", "INTERPOLATED")

    c = lambda a: dimsym(a, "center")
    l = lambda a: dimsym(a, "left")
    cases = [
        ("differs on X only", [l("AX"), c("AY")], [c("AX"), c("AY"), Sym("t")], [AX]),
        ("differs on both", [l("AX"), l("AY")], [c("AX"), c("AY")], [AX, AY]),
        ("same positions", [c("AX"), c("AY")], [Sym("t"), c("AX"), c("AY")], []),
        ("axis missing from `like`", [l("AX"), c("AY")], [c("AX")], [AX]),
        # an axis the array lacks may come first, in the middle or last in the grid: the axes after it are still examined
        ("array lacks the first axis (1-D vertical metric)", [c("AZ")], [c("AX"), c("AY"), l("AZ")], [AZ]),
        ("array lacks the middle axis", [l("AX"), c("AZ")], [c("AX"), c("AY"), l("AZ")], [AX, AZ]),
        ("array lacks the last axis", [l("AX"), c("AY")], [c("AX"), l("AY"), c("AZ")], [AX, AY]),
        ("`like` lacks the first axis", [c("AX"), c("AY"), c("AZ")], [l("AY"), l("AZ")], [AY, AZ]),
    ]
    for name, adims, ldims, want in cases:
        calls.clear()
        ev = Evaluator(P, models={"grid:Grid.interp": m_interp})
        try:
            arr, like = make_da("arr", adims), make_da("like", ldims)
            outs = ev.run_paths(fi, lambda: dict(self=make_grid(("AX", "AY", "AZ")), array=arr, like=like, boundary=Sym("USER_BOUNDARY"), fill_value=Sym("USER_FILL")))
        except Unmodelled as e:
            ctx.unknown("R10.4", f"interp_like, {name}", str(e))
            continue
        bad = None
        if len(calls) != 1 or any(o.kind != "return" for o in outs) or not (isinstance(outs[0].value, Obj) and outs[0].value.name == "INTERPOLATED"):
            bad = "interp_like does not return the result of one interp call"
        else:
            a, kw = calls[0]
            b = dict(zip(["self", "da", "axis"], a))
            b.update(kw)
            if b.get("da") is not arr:
                bad = "the array interpolated is not `array`"
            elif list(b.get("axis")) != want:
                bad = f"interpolates along {b.get('axis')!r}; the positions of `array` and `like` differ on {want!r}"
            elif b.get("boundary") != Sym("USER_BOUNDARY") or b.get("fill_value") != Sym("USER_FILL"):
                bad = "boundary / fill_value are not forwarded to interp"
        if bad:
            ctx.report("R10.4", fi, f"interp_like, {name}", bad)
        else:
            ctx.ok("R10.4", f"interp_like, {name}", f"interp along {[a.name for a in want]}")
