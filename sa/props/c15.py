"""C15 - grid-ufunc signatures: parse/print are inverse; equivalence is renaming.

  R15.1 accepted language = grammar (exact, on automata): the pattern the string parser validates with (the folded
        constant actually passed to re.match/fullmatch, under that function's anchoring) accepts exactly the strings
        of the grammar in the property statement - both inclusions decided with shortest witnesses - and the guard is
        applied to the raw input with spaces removed, raising ValueError otherwise;
  R15.2 extraction / round trip - the parser, the printer and re-parsing are interpreted abstractly (the regex calls
        are evaluated by the standard library on the pattern constants) on every well-formed signature of a bounded
        family with adversarial names (names containing position words, prefixes of each other): parse gives exactly
        the written names and positions, str() gives back the text without spaces, re-parsing gives the same object;
  R15.3 type hints - Annotated metadata denotes the same signature as the equivalent string and malformed annotation
        text is refused (the guard must look at the annotation itself);
  R15.5 equivalence - _GridUFuncSignature.equivalent is interpreted with *opaque* dummy names on all pairs of a
        bounded family of signature shapes: true exactly when one is a consistent renaming of the other; no set is
        iterated on the way (hash-seed independence, C12) and no name is inspected (C13).
"""
from __future__ import annotations

import itertools
import re

from .. import rx
from ..absint import TOP, Evaluator, Obj, Raised, Sym, Text, Unmodelled
from ..registry import parse_signature

EXPLANATION = (
    "R15.1: DFA of the validating pattern constant (folded from the source, re.match/\\Z semantics) vs DFA of the grammar in the "
    "property statement: language equality with witnesses. R15.2/R15.3: abstract evaluation of parser, printer and type-hint "
    "parser on a bounded family of signatures with adversarial names; regex calls are evaluated by the standard library on "
    "the source's pattern constants. R15.5: equivalent() interpreted with opaque names on all pairs of bounded shapes."
)
ASSUMPTIONS = ["Python's re implements the documented regular-expression semantics", "axis names are \\w+ tokens"]
TECHNIQUE = "regular-language equality on automata (exact) + bounded-exhaustive abstract evaluation of parser/printer/equivalence with opaque names"
LEVEL_TEXT = (
    "The language accepted by the string parser is proved equal to the grammar of the property (automata, all strings, witnesses on failure); within a "
    "bounded family (<=2 inputs, <=2 outputs, <=2 pairs, adversarial names) parse, print and re-parse are interpreted abstractly and are mutually inverse; "
    "Annotated hints (read with their extras; empty annotation = `()`) denote the same signature as their string and malformed hints are refused; both alternative constructors fill the four slots of the signature object in the right order; equivalence, interpreted with opaque names on all pairs of "
    "bounded shapes, holds exactly for consistent renamings and never iterates a set. The unbounded round-trip claim rests on the bounded family plus the "
    "token-aligned extraction pattern."
    " Piecewise validation is judged by a bounded acceptance table instead of automata; names are any word of \\w+ (leading digits, non-ASCII); equivalence covers output-only names."
)
LEVEL_NOTE = "Trusted: Python's re; the abstract evaluator. Bounds are stated in the evidence."


def re_models(record=None):
    def wrap(fn_name):
        def m(ev, args, kw, node):
            pat = args[0]
            text = args[1] if fn_name != "sub" else args[2]
            if record is not None:
                record.append((fn_name, pat, text if fn_name != "sub" else (args[1], text)))
            if not isinstance(pat, str) or not isinstance(text, str):
                raise Unmodelled(f"re.{fn_name} on non-constant arguments ({pat!r}, {text!r})", node)
            try:
                if fn_name == "sub":
                    return re.sub(pat, args[1], text)
                r = getattr(re, fn_name)(pat, text)
            except re.error as e:
                raise Unmodelled(f"invalid pattern {pat!r}: {e}", node)
            if fn_name == "findall":
                return [tuple(x) if isinstance(x, tuple) else x for x in r]
            if fn_name == "split":
                return list(r)
            if fn_name == "finditer":
                return [_match_obj(m_) for m_ in r]
            return _match_obj(r) if r is not None else None

        return m

    return {f"re.{n}": wrap(n) for n in ("match", "fullmatch", "search", "findall", "finditer", "sub", "split")}


def _match_obj(m_):
    return Obj("Match", "match", (), {"__bool__": True, "_groups": (m_.group(0),) + tuple(m_.groups()), "_groupdict": dict(m_.groupdict())})


def match_method_models():
    def group(ev, recv, args, kw, node):
        gs = recv.attrs["_groups"]
        if not args:
            return gs[0]
        vals = []
        for a in args:
            if isinstance(a, int) and 0 <= a < len(gs):
                vals.append(gs[a])
            elif isinstance(a, str) and a in recv.attrs["_groupdict"]:
                vals.append(recv.attrs["_groupdict"][a])
            else:
                from ..absint import Raised

                raise Raised("IndexError", node)
        return vals[0] if len(vals) == 1 else tuple(vals)

    return {("Match", "group"): group, ("Match", "groups"): lambda ev, r, a, k, n: tuple(r.attrs["_groups"][1:]),
            ("Match", "groupdict"): lambda ev, r, a, k, n: dict(r.attrs["_groupdict"]), ("Match", "__getitem__"): group}


def sig_obj_from(out):
    return out


def run_from_string(P, text, record=None):
    fi = P.func("grid_ufunc:_parse_signature_from_string")
    ev = Evaluator(P, models=re_models(record), method_models=match_method_models())
    return ev.run_paths(fi, lambda: dict(signature=text))


def print_sig(P, names_pos):
    """str() of a signature object built from parsed lists, interpreted abstractly."""
    fi = P.func("grid_ufunc:_GridUFuncSignature.__str__")
    ev = Evaluator(P)
    me = Obj("Signature", "sig", (), {"__class__": "grid_ufunc:_GridUFuncSignature", "in_ax_names": names_pos[0], "in_ax_positions": names_pos[1],
                                    "out_ax_names": names_pos[2], "out_ax_positions": names_pos[3]})
    outs = ev.run_paths(fi, lambda: dict(self=me))
    return outs


def family(names, positions, max_in=2, max_out=2, max_pairs=2):
    pairs = [f"{n}:{p}" for n in names for p in positions]
    args = ["()"] + [f"({a})" for a in pairs] + ([f"({a},{b})" for a in pairs for b in pairs] if max_pairs >= 2 else [])
    sides_in = [list(c) for k in range(1, max_in + 1) for c in itertools.product(args, repeat=k)]
    sides_out = [list(c) for k in range(1, max_out + 1) for c in itertools.product(args, repeat=k)]
    return sides_in, sides_out


def check(ctx):
    P = ctx.project
    fi = P.func("grid_ufunc:_parse_signature_from_string")

    # ---------------- R15.1: which pattern guards the parser, and how
    rec = []
    try:
        outs = run_from_string(P, "( X : center ) -> ( X : left )", rec)
    except Unmodelled as e:
        ctx.unknown("R15.1", "string parser", str(e))
        return
    guards = [r for r in rec if r[0] in ("match", "fullmatch", "search")]
    if not guards:
        ctx.report("R15.1", fi, "guard", "the string parser never validates its input against a full-signature pattern")
        return
    gname, gpat, gtext = guards[0]
    first_extract = next((i for i, r in enumerate(rec) if r[0] in ("findall", "sub")), None)
    if first_extract is not None and rec.index(guards[0]) > first_extract:
        ctx.report("R15.1", fi, "guard order", "names/positions are extracted before the input is validated")
    spec = rx.compile_pattern(rx.spec_signature_pattern(), "fullmatch")
    if gtext == "(X:center)->(X:left)":
        # one pattern validates the whole input: its language is compared with the grammar exactly, on automata
        ctx.ok("R15.1", "guard input", "raw input with spaces removed")
        try:
            impl = rx.compile_pattern(gpat, {"match": "match", "fullmatch": "fullmatch", "search": "search"}[gname])
            extra = rx.difference_witnesses(impl, spec)
            missing = rx.difference_witnesses(spec, impl)
            ctx.note("automata", {"implementation_states": impl.n_states(), "grammar_states": spec.n_states(), "function": "re." + gname})
            if extra:
                ctx.report("R15.1", fi, "accepted language: malformed strings accepted", f"re.{gname} with the validating pattern accepts strings outside the grammar, e.g. {extra[:4]!r}")
            else:
                ctx.ok("R15.1", "accepted language is within the grammar", f"L(pattern under re.{gname}) - L(grammar) is empty ({impl.n_states()} x {spec.n_states()} states)")
            if missing:
                ctx.report("R15.1", fi, "accepted language: well-formed strings rejected", f"well-formed signatures are rejected, e.g. {missing[:4]!r}")
            else:
                ctx.ok("R15.1", "every grammatical string is accepted", "L(grammar) - L(pattern) is empty")
        except rx.Unsupported as e:
            ctx.unknown("R15.1", "automata", f"pattern construct not supported: {e}")
    else:
        # the input is validated piecewise (split first, each piece matched, ...): no single pattern has the parser's
        # language, so the parser as a whole is evaluated on a bounded family - well-formed signatures and every
        # single-character deletion / insertion / substitution and token insertion of them - and its verdicts compared with the grammar
        _acceptance_table(ctx, P, fi, spec)
    # rejection raises ValueError
    try:
        for bad_text in ("(X:center)", "(X:center)->", "X:center->X:left", "(X:centre)->(X:left)", "((X:center))->(X:left)", "(X:center)(Y:left)->()", "(:center)->()", "(X:)->()", "(X:center,,Y:left)->()", "(X:center)->(X:left)\n", "(X:center,)->()"):
            outs = run_from_string(P, bad_text)
            if not all(o.kind == "raise" and o.value == "ValueError" for o in outs):
                ctx.report("R15.1", fi, f"malformed {bad_text!r}", f"the malformed signature {bad_text!r} is {'accepted' if outs[0].kind == 'return' else 'refused with ' + str(outs[0].value)}; it must raise ValueError")
        ctx.ok("R15.1", "malformed examples", "refused with ValueError")
    except Unmodelled as e:
        ctx.unknown("R15.1", "malformed examples", str(e))

    _round_trip(ctx, P)
    _type_hints(ctx, P)
    _constructors(ctx, P)
    _signature_source(ctx, P)
    _equivalence(ctx, P)


def _acceptance_table(ctx, P, fi, spec):
    seeds = ["(X:center)->(X:left)", "()->()", "(X:center,Y:left)->()", "(),(a_1:inner)->(Y:outer),()", "(X:center),(X:right)->(X:center,Z:outer)",
             "(lon:left,lat:center),(lon:center,lat:left)->(lon:left,lat:left)"]
    if ctx.thorough:
        seeds += ["(X:outer)->(X:center),(X:center)", "(),()->()", "(x:right)->(y:inner,z:left)", "(_:center)->(__:center)"]
    letters = "():,->xe \n"
    texts = set(seeds)
    for t in seeds:
        for i in range(len(t) + 1):
            for ch in list(letters) + ["->", "->()", "()", ",()", "(X:center)", "X:center", ":left", "),("]:
                texts.add(t[:i] + ch + t[i:])
            if i < len(t):
                texts.add(t[:i] + t[i + 1:])
                for ch in letters:
                    texts.add(t[:i] + ch + t[i + 1:])
    wrong_acc, wrong_ref, n = [], [], 0
    for t in sorted(texts):
        want = spec.run(t.replace(" ", ""))
        try:
            outs = run_from_string(P, t)
        except Unmodelled as e:
            ctx.unknown("R15.1", "acceptance table", f"{t!r}: {e}")
            return
        n += 1
        got = all(o.kind == "return" for o in outs)
        if got and not want:
            wrong_acc.append(t)
        if want and not got:
            wrong_ref.append(t)
    ctx.note("acceptance_table", {"texts": n, "note": "piecewise validation: bounded table instead of automata equality"})
    if wrong_acc:
        ctx.report("R15.1", fi, "accepted language: malformed strings accepted", f"the parser accepts strings outside the grammar, e.g. {sorted(wrong_acc, key=len)[:4]!r}")
    else:
        ctx.ok("R15.1", "accepted language is within the grammar", f"no malformed text among {n} (well-formed signatures and their single-character edits) is accepted")
    if wrong_ref:
        ctx.report("R15.1", fi, "accepted language: well-formed strings rejected", f"well-formed signatures are rejected, e.g. {sorted(wrong_ref, key=len)[:4]!r}")
    else:
        ctx.ok("R15.1", "every grammatical string is accepted", f"every well-formed text among {n} is accepted")


def _round_trip(ctx, P):
    fi = P.func("grid_ufunc:_parse_signature_from_string")
    pfi = P.func("grid_ufunc:_GridUFuncSignature.__str__")
    # every word of `\w+` is a name: also one that starts with a digit, is all digits, is not ASCII, is an underscore
    names = ["X", "leftover", "c", "Xinner", "center_2", "Y", "2d", "\u03bb", "7", "_"] if ctx.thorough else ["X", "leftover", "c", "Xinner", "2d", "\u03bb"]
    positions = ["center", "left", "right", "inner", "outer"]
    # bounded family: every (name, position) pair appears; arguments with 0, 1, 2 pairs; 1-2 inputs, 1-2 outputs
    pairs = [(n, p) for n in names for p in positions]
    arg_pool = [[]] + [[pr] for pr in pairs]
    two = [[a, b] for a in pairs[:: max(1, len(pairs) // 6)] for b in pairs[1:: max(1, len(pairs) // 5)]]
    arg_pool += two
    sigs = []
    for a in arg_pool:
        sigs.append(([a], [[]]))
        sigs.append(([a], [a[::-1]]))
    for a, b in itertools.product(arg_pool[:: max(1, len(arg_pool) // 9)], repeat=2):
        sigs.append(([a, b], [b]))
        sigs.append(([a], [b, a]))
    if ctx.thorough:
        for a, b, c in itertools.product(arg_pool[:: max(1, len(arg_pool) // 5)], repeat=3):
            sigs.append(([a, b, c], [c, a]))
    n = 0
    first = None
    for ins, outs_ in sigs:
        txt = lambda side: ",".join("(" + ",".join(f"{nm}:{ps}" for nm, ps in arg) + ")" for arg in side)
        text = f"{txt(ins)}->{txt(outs_)}"
        spaced = text.replace(",", " , ").replace("->", " -> ").replace(":", ": ")
        want = ([tuple(nm for nm, _ in a) for a in ins], [tuple(ps for _, ps in a) for a in ins], [tuple(nm for nm, _ in a) for a in outs_], [tuple(ps for _, ps in a) for a in outs_])
        try:
            r = run_from_string(P, spaced)
        except Unmodelled as e:
            ctx.unknown("R15.2", f"parse {text}", str(e))
            return
        n += 1
        if len(r) != 1 or r[0].kind != "return":
            first = first or (text, f"the well-formed signature is refused ({r[0].value})")
            continue
        got = tuple([tuple(x) for x in part] for part in r[0].value)
        if got != tuple(want):
            first = first or (text, f"parsed as names {got[0]}/{got[2]} positions {got[1]}/{got[3]}; written {want[0]}/{want[2]} {want[1]}/{want[3]}")
            continue
        try:
            pr = print_sig(P, r[0].value)
        except Unmodelled as e:
            ctx.unknown("R15.4", f"print {text}", str(e))
            return
        s = pr[0].value if pr and pr[0].kind == "return" else None
        if s != text:
            first = first or (text, f"prints back as {s!r}")
            continue
        r2 = run_from_string(P, s)
        if len(r2) != 1 or r2[0].kind != "return" or tuple([tuple(x) for x in part] for part in r2[0].value) != tuple(want):
            first = first or (text, "re-parsing the printed text does not give the same signature")
    ctx.note("round_trip_signatures", n)
    if first:
        ctx.report("R15.2", fi, "parse/print round trip", f"{first[0]!r}: {first[1]}")
    else:
        ctx.ok("R15.2", f"parse -> print -> parse on {n} signatures", f"names {names}, all positions, 0-2 pairs per argument, up to {'3' if ctx.thorough else '2'} inputs and 2 outputs")
    ctx.floor("R15.2", "signatures in the bounded family", n, 100)


def _hint(annotation):
    return Obj("Annotated", f"Annotated[{annotation!r}]", (), {"__metadata__": (annotation,), "_name": "Annotated"})


def run_hints(P, hints):
    """Evaluate _parse_signature_from_type_hints on modelled hints (objects carrying exactly the attributes they have)."""
    fi = P.func("grid_ufunc:_parse_signature_from_type_hints")

    def hasattr_hook(ev, f, args, kw, node):
        from ..absint import Builtin

        if isinstance(f, Builtin) and f.name == "hasattr" and len(args) == 2 and isinstance(args[1], str):
            o = args[0]
            if isinstance(o, Obj):
                return args[1] in o.attrs
            return False
        if isinstance(f, Builtin) and f.name == "getattr" and len(args) == 3 and isinstance(args[1], str) and isinstance(args[0], Obj):
            return args[0].attrs.get(args[1], args[2])  # the modelled hints carry exactly the attributes they have
        return NotImplemented

    ev = Evaluator(P, models=re_models(), method_models=match_method_models(), call_hook=hasattr_hook)
    return ev.run_paths(fi, lambda: dict(hints=dict(hints)))


def _type_hints(ctx, P):
    fi = P.func("grid_ufunc:_parse_signature_from_type_hints")

    def run(hints):
        return run_hints(P, hints)

    plain = Obj("type", "np.ndarray", (), {"_name": "ndarray"})
    cases = [
        ({"a": _hint("X:center"), "return": _hint("X:left")}, "(X:center)->(X:left)"),
        ({"a": _hint("X:center,Y:center"), "b": _hint("Y:left"), "return": _hint("Y:center, X:left")}, "(X:center,Y:center),(Y:left)->(Y:center,X:left)"),
        ({"a": _hint("leftover:center"), "return": _hint("leftover:outer")}, "(leftover:center)->(leftover:outer)"),
        ({"a": _hint("X:center"), "n": plain, "return": _hint("X:left")}, "(X:center)->(X:left)"),
        ({"a": _hint("X:center"), "return": Obj("Tuple", "Tuple[...]", (), {"_name": "Tuple", "__args__": (_hint("X:left"), _hint("X:right"))})}, "(X:center)->(X:left),(X:right)"),
        # an empty annotation is the hint form of `()`: an argument / output without grid axes
        ({"a": _hint(""), "b": _hint("X:center"), "return": _hint("X:center")}, "(),(X:center)->(X:center)"),
        ({"a": _hint("X:center"), "return": _hint("")}, "(X:center)->()"),
        ({"a": _hint("X:center"), "return": Obj("Tuple", "Tuple[...]", (), {"_name": "Tuple", "__args__": (_hint("X:left"), _hint(""))})}, "(X:center)->(X:left),()"),
        # what the python arguments are called is immaterial: names that are fragments of the word `return`, and an opaque name
        ({"u": _hint("X:center"), "t": _hint("X:left"), "return": _hint("X:center")}, "(X:center),(X:left)->(X:center)"),
        ({"turn": _hint("X:center"), "re": _hint("Y:left"), "n": _hint("X:left"), "return": _hint("X:center")}, "(X:center),(Y:left),(X:left)->(X:center)"),
        ({"returns": _hint("X:center"), "return_": _hint("X:left"), "return": _hint("X:center")}, "(X:center),(X:left)->(X:center)"),
        ({Sym("argname0"): _hint("X:center"), Sym("argname1"): _hint("X:left"), "return": _hint("X:outer")}, "(X:center),(X:left)->(X:outer)"),
    ]
    for hints, text in cases:
        inst = f"hints for {text}"
        try:
            outs = run(hints)
        except Unmodelled as e:
            ctx.unknown("R15.3", inst, str(e))
            continue
        ins, outs_ = parse_signature(text)
        want = ([tuple(n for n, _ in a) for a in ins], [tuple(p for _, p in a) for a in ins], [tuple(n for n, _ in a) for a in outs_], [tuple(p for _, p in a) for a in outs_])
        if len(outs) != 1:
            ctx.report("R15.3", fi, inst, f"what the annotations denote depends on what the python arguments are called ({len(outs)} outcomes for an opaque argument name): {[o.value for o in outs][:3]!r}")
        elif outs[0].kind != "return":
            ctx.report("R15.3", fi, inst, f"well-formed annotations are refused ({outs[0].value}{': ' + str(getattr(outs[0].exc, 'msg', '')) if getattr(outs[0].exc, 'msg', None) else ''})")
        elif tuple([tuple(x) for x in part] for part in outs[0].value) != tuple(want):
            ctx.report("R15.3", fi, inst, f"the annotations denote {outs[0].value!r}; the equivalent string denotes {want!r}")
        else:
            ctx.ok("R15.3", inst, "same as the string form")
    for bad_ann in ("X:centre", "Xcenter", "X:center,", "X:center Y:left", "X:center)(Y:left", ":center", "X:", "X:leftmost", "X:center_point", "X:center,Y:outermost"):
        inst = f"malformed annotation {bad_ann!r}"
        try:
            outs = run({"a": _hint(bad_ann), "return": _hint("X:left")})
        except Unmodelled as e:
            ctx.unknown("R15.3", inst, str(e))
            continue
        if all(o.kind == "raise" for o in outs):
            ctx.ok("R15.3", inst, "refused")
        else:
            ctx.report("R15.3", fi, inst, f"the annotation {bad_ann!r} is accepted and denotes {outs[0].value!r}, while the equivalent string '({bad_ann})->(X:left)' is refused: the guard does not look at the annotation text")


def _constructors(ctx, P):
    """R15.4: the two alternative constructors hand the four parsed lists to the slots of that meaning, and the signature
    of a ufunc is taken from its type hints *including the Annotated extras* when no string is given."""
    cls = "grid_ufunc:_GridUFuncSignature"
    parsed = ([("PN",)], [("PP",)], [("ON",)], [("OP",)])
    for meth, parser, arg in (("from_string", "grid_ufunc:_parse_signature_from_string", "TEXT"), ("from_type_hints", "grid_ufunc:_parse_signature_from_type_hints", {"a": 1})):
        fi = P.func(f"{cls}.{meth}")
        seen = []

        def m_parser(ev, args, kw, node, seen=seen):
            seen.append(list(args))
            return tuple(list(x) for x in parsed)

        ev = Evaluator(P, models={parser: m_parser})
        from ..absint import ClassRef

        try:
            pname = fi.params[0][1]
            outs = ev.run_paths(fi, lambda: {fi.params[0][0]: ClassRef(cls), pname: arg})
        except (Unmodelled, IndexError) as e:
            ctx.unknown("R15.4", meth, str(e))
            continue
        bad = None
        for o in outs:
            v = o.value
            if o.kind != "return" or not isinstance(v, Obj):
                bad = f"{o.kind} {v!r}"
                continue
            got = tuple(v.attrs.get(k) for k in ("in_ax_names", "in_ax_positions", "out_ax_names", "out_ax_positions"))
            if got != parsed:
                bad = f"the parsed lists end up as in_ax_names={got[0]!r}, in_ax_positions={got[1]!r}, out_ax_names={got[2]!r}, out_ax_positions={got[3]!r}"
            if not seen or seen[-1] != [arg]:
                bad = bad or "the parser is not given the caller's text / hints"
        if bad:
            ctx.report("R15.4", fi, f"{meth} fills the signature object", bad)
        else:
            ctx.ok("R15.4", f"{meth} fills the signature object", "names and positions of inputs and outputs in their own slots")
    # type hints are read with their Annotated extras
    fi = P.func("grid_ufunc:GridUFunc._get_signature_from_str_or_type_hints")
    calls = []

    def m_hints(ev, args, kw, node):
        calls.append((list(args), dict(kw)))
        return {"a": _hint("X:center"), "return": _hint("X:left")}

    def hasattr_hook(ev, f, args, kw, node):
        from ..absint import Builtin

        if isinstance(f, Builtin) and f.name == "hasattr" and len(args) == 2 and isinstance(args[1], str):
            return args[1] in args[0].attrs if isinstance(args[0], Obj) else False
        return NotImplemented

    made = []
    ev = Evaluator(P, models={"typing.get_type_hints": m_hints, f"{cls}.from_type_hints": lambda ev_, a, k, n: made.append(("hints", a)) or Obj("Signature", "from-hints"),
                              f"{cls}.from_string": lambda ev_, a, k, n: made.append(("string", a)) or Obj("Signature", "from-string")}, call_hook=hasattr_hook)
    try:
        uf = Obj("func", "ufunc")
        outs = ev.run_paths(fi, lambda: dict(ufunc=uf, str_sig=None))
        bad = None
        if not calls or calls[-1][1].get("include_extras") is not True:
            bad = "typing.get_type_hints is not asked for the Annotated extras (include_extras=True): the axis annotations are stripped and never seen"
        elif not all(o.kind == "return" and isinstance(o.value, Obj) and o.value.name == "from-hints" for o in outs):
            bad = f"annotated hints without a string signature do not yield the signature parsed from the hints ({[(o.kind, o.value) for o in outs]})"
        if bad:
            ctx.report("R15.4", fi, "signature from type hints", bad)
        else:
            ctx.ok("R15.4", "signature from type hints", "hints read with extras, parsed by from_type_hints")
    except Unmodelled as e:
        ctx.unknown("R15.4", "signature from type hints", str(e))


def _canon(sig):
    num = {}
    return [[[(num.setdefault(n, len(num)), p) for n, p in arg] for arg in side] for side in sig]


def _equivalence(ctx, P):
    fi = P.func("grid_ufunc:_GridUFuncSignature.equivalent")
    A, B, C, D = Sym("a"), Sym("b"), Sym("c"), Sym("d")
    pos = ["center", "left"]
    shapes = []
    # signatures over up to 2 names, arguments with 1-2 pairs, 1-2 inputs, 0-1 output arguments
    def build(names):
        pairs = [(n, p) for n in names for p in pos]
        args = [[pr] for pr in pairs] + [[x, y] for x in pairs for y in pairs if x[0] != y[0]]
        out = []
        for a in args:
            out.append(([a], [[]]))
            out.append(([a], [a]))
            out.append(([a], [a[::-1]]))
        for a, b in itertools.product(args[::2], repeat=2):
            out.append(([a, b], [a]))
        return out

    left = build([A, B])
    right = build([C, D]) + build([A, B])[::3]
    if not ctx.thorough:
        left, right = left[::2], right[::2]
    # pairs that must always be judged (each isolates one aspect of "consistent renaming")
    ab = [(A, "center"), (B, "center")]
    cd = [(C, "center"), (D, "center")]
    must = [
        (([ab], [ab]), ([cd], [cd[::-1]])),  # output names exchanged
        (([ab], [ab]), ([cd], [cd])),
        (([ab], [[]]), ([[(C, "center"), (C, "center")]], [[]])),  # two names merged into one
        (([[(A, "center"), (A, "center")]], [[]]), ([cd], [[]])),  # one name split into two
        (([[(A, "center")]], [[(A, "left")]]), ([[(C, "center")]], [[(C, "right")]])),  # positions differ
        (([[(A, "center")]], [[(A, "left")]]), ([[(C, "center")]], [[(C, "left")]])),
        (([[(A, "center")], [(B, "left")]], [[(B, "center")]]), ([[(C, "center")], [(D, "left")]], [[(C, "center")]])),  # output refers to the other input
        (([[(A, "center")]], [[(A, "left")]]), ([[(C, "center")]], [[(C, "left")], [(C, "left")]])),  # different number of outputs
        # names that occur on the output side only (new output axes), two of them: consistently renamed / exchanged / merged
        (([[(A, "center")]], [[(B, "left"), (C, "left")]]), ([[(D, "center")]], [[(A, "left"), (B, "left")]])),
        (([[(A, "center")]], [[(B, "left"), (C, "left")]]), ([[(D, "center")]], [[(B, "left"), (A, "left")]])),
        (([[(A, "center")]], [[(B, "left"), (C, "left")]]), ([[(A, "center")]], [[(C, "left"), (B, "left")]])),
        (([[(A, "center")]], [[(B, "left"), (C, "left")]]), ([[(D, "center")]], [[(A, "left"), (A, "left")]])),
        (([[(A, "center")]], [[(B, "left")], [(C, "left")]]), ([[(D, "center")]], [[(C, "left")], [(A, "left")]])),
    ]

    def obj(sig, tag):
        ins, outs_ = sig
        return Obj("Signature", tag, (), {"__class__": "grid_ufunc:_GridUFuncSignature", "in_ax_names": [tuple(n for n, _ in a) for a in ins], "in_ax_positions": [tuple(p for _, p in a) for a in ins],
                                        "out_ax_names": [tuple(n for n, _ in a) for a in outs_], "out_ax_positions": [tuple(p for _, p in a) for a in outs_]})

    n = 0
    first = None
    set_iter = False
    label_ops = False
    for s1, s2 in must + [(x, y) for x in left for y in right]:
        if True:
            ev = Evaluator(P)
            try:
                outs = ev.run_paths(fi, lambda: dict(self=obj(s1, "s1"), other=obj(s2, "s2")))
            except Unmodelled as e:
                ctx.unknown("R15.5", "equivalence", f"{e}")
                return
            n += 1
            want = _canon(s1) == _canon(s2)
            for o in outs:
                if any(e[0] in ("set-iterated", "set-order-consumed") for e in o.events):
                    set_iter = True
                if any(e[0] in ("label-method", "label-len", "label-substring") for e in o.events):
                    label_ops = True
                if o.kind != "return" or o.value is TOP or bool(o.value) != want:
                    first = first or (s1, s2, want, o)
    ctx.note("equivalence_pairs", n)
    if first:
        s1, s2, want, o = first
        ctx.report("R15.5", fi, "equivalence = consistent renaming", f"{_fmt(s1)} vs {_fmt(s2)}: {'a' if want else 'not a'} consistent renaming, but equivalent() gives {o.value!r} ({o.kind})")
    else:
        ctx.ok("R15.5", f"equivalent() on {n} pairs of signature shapes with opaque names", "true exactly for consistent renamings")
    if set_iter:
        ctx.report("R15.5", fi, "equivalence iterates a set", "equivalent() iterates over a set of names: the pairing of dummy names depends on the hash seed")
    else:
        ctx.ok("R15.5", "no set is iterated in equivalent()", "result independent of the hash seed")
    if label_ops:
        ctx.report("R15.5", fi, "equivalence inspects names", "equivalent() applies string operations to the dummy names (e.g. textual replacement): names that occur inside position words or each other break it")
    else:
        ctx.ok("R15.5", "names are only compared for equality in equivalent()", "renaming-invariant")


def _fmt(sig):
    side = lambda s: ",".join("(" + ",".join(f"{getattr(n, 'name', n)}:{p}" for n, p in a) + ")" for a in s)
    return f"{side(sig[0])}->{side(sig[1])}"


def _signature_source(ctx, P):
    """R15.3b: the signature comes from the string or from the type hints, never both, never neither."""
    q = "grid_ufunc:GridUFunc._get_signature_from_str_or_type_hints"
    if not P.has_func(q):
        ctx.unknown("R15.3", "signature source", "anchor function missing")
        return
    fi = P.func(q)
    plain = Obj("type", "np.ndarray", (), {"_name": "ndarray"})
    used = []

    def m_str(ev, args, kw, node):
        used.append(("string", args[-1]))
        return Obj("Signature", "from-string")

    def m_hints(ev, args, kw, node):
        used.append(("hints", args[-1]))
        return Obj("Signature", "from-hints")

    def hasattr_hook(ev, f, args, kw, node):
        from ..absint import Builtin

        if isinstance(f, Builtin) and f.name == "hasattr" and len(args) == 2 and isinstance(args[1], str):
            return isinstance(args[0], Obj) and args[1] in args[0].attrs
        return NotImplemented

    annotated = {"a": _hint("X:center"), "return": _hint("X:left")}
    only_arg = {"a": _hint("X:center")}
    bare = {"a": plain, "return": plain}
    cases = [("string, no annotations", "(X:center)->(X:left)", bare, "string"), ("annotations, no string", "", annotated, "hints"), ("annotated argument only, no string", "", only_arg, "hints"),
             ("string and annotations", "(X:center)->(X:left)", annotated, "raise"), ("string and an annotated argument", "(X:center)->(X:left)", only_arg, "raise"), ("neither", "", bare, "raise"), ("neither (None)", None, bare, "raise")]
    for name, s, hints, want in cases:
        used.clear()
        ev = Evaluator(P, models={"typing.get_type_hints": lambda ev, a, k, n, hints=hints: dict(hints), "grid_ufunc:_GridUFuncSignature.from_string": m_str, "grid_ufunc:_GridUFuncSignature.from_type_hints": m_hints}, call_hook=hasattr_hook)
        try:
            outs = ev.run_paths(fi, lambda: dict(ufunc=Obj("func", "f"), str_sig=s))
        except Unmodelled as e:
            ctx.unknown("R15.3", f"signature source: {name}", str(e))
            continue
        bad = None
        for o in outs:
            if want == "raise":
                if o.kind != "raise":
                    bad = f"accepted (returns {o.value!r}); a grid ufunc must get its signature from exactly one of string and type hints"
            elif o.kind != "return" or not used or used[-1][0] != want:
                bad = f"{o.kind} {o.value!r}; expected the signature to be taken from the {want}"
        if bad:
            ctx.report("R15.3", fi, f"signature source: {name}", bad)
        else:
            ctx.ok("R15.3", f"signature source: {name}", "refused" if want == "raise" else f"taken from the {want}")
