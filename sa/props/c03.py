"""C03 - scalar operations are invariant to how the domain is cut into faces (local necessary conditions).

Invariance over all topologies is a global statement; its local necessary condition is that every single
link fetches the right cells.  Decided by abstract evaluation of _pad_face_connections / pad / Grid.__init__:
  R03.1 scalar link table  - the 8 link kinds for scalar input (source cells, depth order, along-edge order,
                             concat side, target trim) against the orientation-map geometry;
  R03.2 pre-pad / trim / open edges - unlinked sides keep the basic padding with the rule in force; the final
                             trim leaves exactly the requested widths;
  R03.3 composition        - on a ring of three faces every face receives its lower halo from its lower
                             neighbour and its upper halo from its upper neighbour, faces are visited by index
                             and re-assembled in index order along the face dimension;
  R03.4 wiring             - Grid.__init__ validates and stores the table, and pad() hands the (coordinate-
                             stripped) data, the requested widths and the completed rule / fill value to the
                             face-connection padding whenever a table is stored.
"""
from __future__ import annotations

from ..absint import Lin, Obj, Sym, Unmodelled
from ..affsel import Sel
from ..facepad import AX, AY, FACE, axis_of_dim, face_parts, halo_pieces, norm_form, run
from ..xmodel import dimsym, make_da, make_grid
from .c02 import DEFAULTS, run_grid_init, run_pad
from .c05 import L, N, W, _check_open_edges, _check_prepad_and_trim, check_link_cells, check_shared_source, check_single_links

EXPLANATION = (
    "Abstract evaluation of _pad_face_connections for the 8 link kinds with scalar input (affine-selection normal form vs. "
    "orientation maps), pre-pad/trim forms, open edges, a three-face ring, and the wiring Grid.__init__ -> stored table -> "
    "pad() -> face-connection padding. The global composition over arbitrary topologies is not executed."
)
ASSUMPTIONS = ["xarray isel/concat/rename semantics", "each junction is handled by the per-link code path analysed here", "square faces"]
TECHNIQUE = "decision-table extraction by abstract evaluation of the face-connection padding (scalar rows) + wiring"
LEVEL_TEXT = (
    "Local necessary conditions of the invariance, decided on the source: for each of the 8 link kinds a scalar halo is the neighbour's interior cells "
    "adjacent to the linked edge in the orientation the link prescribes; unlinked sides keep the ordinary boundary rule; widths are exactly the "
    "requested ones; on a 3-face ring each face gets the right neighbours and faces are re-assembled in order; the constructor stores the table and "
    "pad() takes the face branch with the caller's widths and the rule in force. The statement over all decompositions follows only together with "
    "xarray's semantics and is not executed."
)
LEVEL_TEXT += ' Also decided (sixth seeded round): a face that is the source of two links of different kind in one call hands each link its own cells (all ordered pairs of distinct link kinds on both sides); single swapping links on a three-axis grid whose third, padded axis is declared first.'
LEVEL_NOTE = "Trusted: xarray semantics; orientation-map geometry. Corner cells belong to C12."

RULE_MAP = {"R05.1": "R03.1", "R05.2": "R03.1", "R05.3": "R03.1", "R05.4": "R03.2", "R05.5": "R03.1", "R05.6": "R03.2"}


def check(ctx):
    P = ctx.project
    fi = P.func("padding:_pad_face_connections")
    check_link_cells(ctx, P, (None,), rule_of=lambda r: RULE_MAP.get(r, r))
    check_single_links(ctx, P, (None,), rule_of=lambda r: RULE_MAP.get(r, r))
    check_shared_source(ctx, P, (None,), rule_of=lambda r: RULE_MAP.get(r, r))
    for sub in (_check_prepad_and_trim, _check_open_edges):
        try:
            sub(ctx, P, fi, rule="R03.2", **({"with_vector": False} if sub is _check_prepad_and_trim else {}))
        except Unmodelled as e:  # a lineage the normal form cannot read: no verdict for that rule, never a crash
            ctx.unknown("R03.2", sub.__name__.strip("_"), str(e))
    _ring(ctx, P, fi)
    _wiring(ctx, P)


def _ring(ctx, P, fi):
    table = {FACE: {0: {AX: ((2, AX, False), (1, AX, False))}, 1: {AX: ((0, AX, False), (2, AX, False))}, 2: {AX: ((1, AX, False), (0, AX, False))}}}
    try:
        outs = run(P, table, n_faces=3)
    except Unmodelled as e:
        ctx.unknown("R03.3", "ring of three faces", str(e))
        return
    bad = None
    for o in outs:
        if o.kind != "return":
            bad = f"raises {o.value}"
            continue
        try:
            faces, facedim, trim = face_parts(o.value)
            if len(faces) != 3 or facedim != FACE:
                bad = f"{len(faces)} faces re-assembled along {facedim!r}"
                continue
            for i, f in enumerate(faces):
                seq = _flatten(f)
                forms = [norm_form(p) for p in seq]
                got = [st.face for st in forms]
                want = [(i - 1) % 3, i, (i + 1) % 3]
                if got != want:
                    bad = f"face {i} is assembled from faces {got} (lower halo, interior, upper halo); expected {want}"
                    continue
                lo, mid, hi = forms
                dx = lambda st: [s for p, s in st.sel.items() if axis_of_dim(p) == AX][0]
                if dx(lo) != Sel(L - W.scale(2), 1, W) or dx(hi) != Sel(W, 1, W):
                    bad = f"face {i}: halo cells {dx(lo)!r} / {dx(hi)!r}; expected the neighbours' interior cells adjacent to the shared edges"
                if dx(mid) != Sel(W, 1, N):
                    bad = bad or f"face {i}: interior kept as {dx(mid)!r}; expected exactly its own n cells"
        except Unmodelled as e:
            ctx.unknown("R03.3", "ring of three faces", str(e))
            return
    if bad:
        ctx.report("R03.3", fi, "ring of three faces", bad)
    else:
        ctx.ok("R03.3", "ring of three faces", "each face: [upper cells of lower neighbour | own interior | lower cells of upper neighbour], faces in index order")


def _flatten(f):
    from ..affsel import flatten_concat

    return flatten_concat(f, FACE, axis_of_dim)[1]


def _wiring(ctx, P):
    # pad() -> _pad_face_connections
    padfi = P.func("padding:pad")
    table = {FACE: {0: {AX: (None, (1, AX, False))}, 1: {AX: ((0, AX, False), None)}}}

    def grid():
        g = make_grid(("AX", "AY"), face_connections=table, facedim=FACE)
        for a in ("AX", "AY"):
            g.attrs["axes"][Sym(a)].attrs["_boundary"] = DEFAULTS["boundary"][a]
            g.attrs["axes"][Sym(a)].attrs["_fill_value"] = DEFAULTS["fill_value"][a]
        return g

    widths = {AX: (1, 2)}
    try:
        outs, calls = run_pad(P, {AX: "fill"}, None, widths, grid=grid, other=Sym("USER_OTHER"),
                              data=lambda: make_da("da", [Sym("t"), FACE, dimsym("AY", "center"), dimsym("AX", "center")]))
        bad = None
        if any(o.kind != "return" for o in outs):
            bad = "pad() raises on a face-connected grid"
        elif not calls or not all(c.get("__face__") for c in calls):
            bad = "pad() does not use the face-connection padding although the grid stores a table"
        else:
            for c in calls:
                d = c.get("da")
                if not (isinstance(d, Obj) and d.name == "da"):
                    bad = "the data does not reach the face-connection padding"
                elif not any(e[0] in ("reset_coords", "drop_vars") for e in d.eff):
                    bad = "the data is not stripped of its coordinates before padding"
                if c.get("padding_width") != widths:
                    bad = bad or f"widths {c.get('padding_width')!r} instead of the requested {widths!r}"
                want_f = {AX: DEFAULTS["fill_value"]["AX"], AY: DEFAULTS["fill_value"]["AY"]}
                got_f = c.get("fill_value")
                if c.get("__fill_only_where_constant__") and isinstance(got_f, dict) and isinstance(c.get("padding"), dict):
                    # a table of xarray.pad arguments carries a fill value only for the axes that are filled
                    got_f = {k: (v if c["padding"].get(k) == "fill" else want_f.get(k)) for k, v in got_f.items()}
                if c.get("padding") != {AX: "fill", AY: DEFAULTS["boundary"]["AY"]} or got_f != want_f:
                    bad = bad or f"rule / fill value in force do not reach the face-connection padding ({c.get('padding')!r}, {c.get('fill_value')!r})"
                if c.get("other_component") != Sym("USER_OTHER"):
                    bad = bad or "other_component does not reach the face-connection padding"
        if bad:
            ctx.report("R03.4", padfi, "pad() -> face-connection padding", bad)
        else:
            ctx.ok("R03.4", "pad() -> face-connection padding", "stripped data, requested widths, completed rule and fill value, other_component")
    except Unmodelled as e:
        ctx.unknown("R03.4", "pad() -> face-connection padding", str(e))

    # Grid.__init__ stores the table and validates it
    init = P.func("grid:Grid.__init__")
    from ..absint import Evaluator

    seen = []

    def m_assign(ev, args, kw, node):
        seen.append(args[1] if len(args) > 1 else kw.get("fc"))
        return None

    import copy

    ev = Evaluator(P, models={"warnings.warn": lambda ev, a, k, n: None, "grid:Grid._assign_face_connections": m_assign})
    tbl = {FACE: {0: {AX: (None, (1, AX, False))}, 1: {AX: ((0, AX, False), None)}}}

    def make():
        coords = {AX: {"center": dimsym("AX", "center"), "left": dimsym("AX", "left")}}
        ds = Obj("Dataset", "ds", (), {"dims": (dimsym("AX", "center"), dimsym("AX", "left"), FACE), "__isinstance__": ("Dataset",)})
        me = Obj("Grid", "self", (), {"__class__": "grid:Grid"})
        return dict(self=me, ds=ds, coords=coords, periodic=False, fill_value=None, default_shifts=None, boundary=None,
                    face_connections=copy.deepcopy(tbl), metrics=None, autoparse_metadata=False)

    try:
        outs = ev.run_paths(init, make)
        bad = None
        for o in outs:
            if o.kind != "return":
                bad = f"constructor raises {o.value}"
                continue
            me = o.env.get("self")
            if me.attrs.get("_face_connections") != tbl or me.attrs.get("_facedim") != FACE:
                bad = "the constructor does not store the face-connection table and its face dimension"
        if len(seen) != len(outs) or any(s != tbl for s in seen):
            bad = bad or "the constructor does not pass the table through _assign_face_connections"
        if bad:
            ctx.report("R03.4", init, "Grid.__init__ stores the table", bad)
        else:
            ctx.ok("R03.4", "Grid.__init__ stores the table", "validated by _assign_face_connections and stored with its face dimension")
    except Unmodelled as e:
        ctx.unknown("R03.4", "Grid.__init__ stores the table", str(e))
