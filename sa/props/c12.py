"""C12 - results do not depend on the hash seed or on table ordering.

PYTHONHASHSEED can only change the iteration order of sets (dicts are insertion-ordered), so:
  T2    no order-sensitive consumer of a set - order analysis over every function of the package (all set
        construction sites), context-sensitive across package calls; two reviewed-benign constructs are listed
        below with their reason; a positive fixture must be matched on every run;
  R12.2 table order - padding._pad_face_connections and Grid._assign_face_connections are interpreted abstractly
        for the same face-connection table written in different insertion orders (faces, axes): the result
        lineage / the stored links must be identical;
  R12.3 no other source of nondeterminism (hash(), id() used as data, random, time, os.environ, uuid) in the package.
"""
from __future__ import annotations

import ast
import pathlib

from ..absint import Lin, Obj, Sym, Unmodelled
from ..core import Project, norm, own_nodes
from ..order import OrderAnalysis

EXPLANATION = (
    "T2: abstract interpretation of every function with the flags set / order-tainted / elements-are-sets; every construct "
    "that lets a set's iteration order reach an order-sensitive consumer (indexing, zip, unpacking, first-match loops, "
    "itertools enumeration, storing, library calls) is reported, order-insensitive consumers are not. R12.2: abstract "
    "evaluation of the face padding and of the table validator on permuted insertion orders. R12.3: census of other "
    "nondeterminism sources."
)
ASSUMPTIONS = ["dict iteration is insertion-ordered (Python >= 3.7)", "numpy/xarray/dask are deterministic"]
TECHNIQUE = "order (taint) analysis of set iteration with context-sensitive summaries; abstract evaluation under table permutations"
LEVEL_TEXT = (
    "All set-construction sites of the package are followed to their consumers: none consumes the iteration order of a set in an order-sensitive way "
    "(two reviewed constructs are order-insensitive by a stated argument), so no result can change with PYTHONHASHSEED; the face padding and the table "
    "validator, interpreted abstractly on the same table in different insertion orders, produce identical results; the package uses no other "
    "nondeterminism source. Decides hash-seed independence for every input (it is a property of the code, not of the data)."
)
LEVEL_TEXT += " Also decided (R12.4): get_metric's `axes` and set_metrics' `key`, requests that are sets by nature, are re-analysed as Python sets: no order-sensitive consumer is reached."
LEVEL_NOTE = "Trusted: determinism of numpy/xarray/dask; insertion-ordered dicts."

REVIEWED_BENIGN = {
    ("grid:Grid.get_metric", "tuple(k)"): "the tuples are only intersected with the set of *all* permutations of the requested axes, so every ordering of k gives the same non-empty/empty verdict and the same key set",
    ("grid:Grid.get_metric", "frozenset(*overlap_metrics)"): "registry keys are pairwise different frozensets, so at most one permutation class matches: the unpacked set has one element",
}
NONDET_CALLS = {"hash", "id"}
NONDET_MODULES = {"random", "time", "uuid", "secrets", "datetime"}


def check(ctx):
    P = ctx.project
    oa = OrderAnalysis(P)
    ctx.note("set_related_sites", oa.sites)
    ctx.floor("T2", "set construction / set operator sites analysed", oa.sites, 20)
    n_benign = 0
    for (q, construct), f in sorted(oa.findings.items()):
        if (q, construct) in REVIEWED_BENIGN:
            n_benign += 1
            ctx.ok("T2", f"{q}: {construct}", "reviewed-benign: " + REVIEWED_BENIGN[(q, construct)])
            continue
        fi = P.functions[q]
        ctx.report("T2", fi, construct, f"{f.what}: the result changes with PYTHONHASHSEED", f.node)
    ctx.ok("T2", f"{len(P.functions)} functions, {oa.sites} set sites", f"no order-sensitive consumer of a set ({n_benign} reviewed-benign constructs)")
    # R12.4 - a *request* that is a set by nature (the axes a metric is asked for, the axes to integrate / average over: C10 says
    # "every requested axis set in every order") may be handed over as a Python set: the entry is re-analysed with that parameter
    # carrying the set flag; an order-sensitive consumer reached only then is one whose answer follows the caller's hash seed
    base_keys = set(oa.findings)
    # (integrate / average hand `axis` on to get_metric and otherwise only to a reduction over the dimensions, which does not depend
    #  on the order in which they are listed - they are covered through get_metric)
    SET_REQUESTS = (("grid:Grid.get_metric", "axes"), ("grid:Grid.set_metrics", "key"))
    for q, param in SET_REQUESTS:
        if q not in P.functions or param not in P.functions[q].all_param_names():
            ctx.unknown("R12.4", f"{q}({param})", "entry point or parameter not found")
            continue
        oa.analyse(q, ((param, frozenset({"set"})),))
        new = [(k, f) for k, f in sorted(oa.findings.items()) if k not in base_keys and k not in REVIEWED_BENIGN]
        base_keys |= set(oa.findings)
        if new:
            for (fq, construct), f in new[:3]:
                ctx.report("R12.4", P.functions[fq], construct, f"when `{param}` of {q.split(':')[1]} is given as a set: {f.what} - the answer follows the iteration order of the caller's set (PYTHONHASHSEED)", f.node)
        else:
            ctx.ok("R12.4", f"{q.split(':')[1]}({param} given as a set)", "no order-sensitive consumer: the order comes from the grid's own axis order")
    # positive fixture
    fx = pathlib.Path(__file__).resolve().parent.parent / "fixtures" / "order_example.py"
    try:
        rel = "xgcm/zz_order_fixture.py"
        Pf = Project(overrides={rel: fx.read_text()})
        of = OrderAnalysis(Pf)
        nfx = len({q for (q, c) in of.findings if q.startswith("zz_order_fixture:")})
    except Exception as e:
        nfx = 0
        ctx.note("fixture_error", str(e))
    ctx.floor("T2", "fixture functions in which an order-sensitive consumer is found", nfx, 6)

    # ---------------- R12.3 census
    n = 0
    for q, fi in P.functions.items():
        mod = P.modules[fi.module]
        for node in own_nodes(fi.node):
            if isinstance(node, ast.Call):
                n += 1
                f = node.func
                if isinstance(f, ast.Name) and f.id in NONDET_CALLS:
                    ctx.report("R12.3", fi, norm(node, 80), f"{f.id}() of an object varies between interpreter runs", node)
                if isinstance(f, ast.Attribute) and isinstance(f.value, ast.Name):
                    imp = mod.imports.get(f.value.id)
                    src = imp[0][4:] if imp and imp[0].startswith("ext:") else None
                    if src and src.split(".")[0] in NONDET_MODULES or (src == "numpy" and f.attr == "random"):
                        ctx.report("R12.3", fi, norm(node, 80), f"call into `{src}`: a source of run-to-run variation", node)
            if isinstance(node, ast.Attribute) and node.attr == "environ" and isinstance(node.value, ast.Name) and node.value.id == "os":
                ctx.report("R12.3", fi, norm(node, 80), "behaviour depends on the process environment", node)
            if isinstance(node, ast.Attribute) and node.attr == "random" and isinstance(node.value, ast.Name) and node.value.id in ("np", "numpy"):
                ctx.report("R12.3", fi, norm(node, 80), "numpy.random used", node)
    ctx.ok("R12.3", f"{n} call sites scanned for other nondeterminism sources", "none")

    _table_order(ctx, P)


def _table_order(ctx, P):
    from ..facepad import AX, AY, FACE, run
    from .c17 import run_assign

    fi = P.func("padding:_pad_face_connections")
    # the same rotated two-face table, written with faces / axes inserted in different orders
    t_a = {FACE: {0: {AX: (None, (1, AY, False)), AY: (None, None)}, 1: {AY: ((0, AX, False), None), AX: (None, None)}}}
    t_b = {FACE: {1: {AX: (None, None), AY: ((0, AX, False), None)}, 0: {AY: (None, None), AX: (None, (1, AY, False))}}}
    t_c = {FACE: {0: {AY: (None, None), AX: (None, (1, AY, False))}, 1: {AY: ((0, AX, False), None), AX: (None, None)}}}
    w = Lin.sym("w")
    widths_a = {AX: (w, w), AY: (w, w)}
    widths_b = {AY: (w, w), AX: (w, w)}

    def key(outs):
        return sorted((o.kind, _deep(o.value)) for o in outs)

    try:
        ref = key(run(P, t_a, widths=widths_a))
        same = True
        for t in (t_b, t_c):
            if key(run(P, t, widths=widths_a)) != ref:
                same = False
        if same:
            ctx.ok("R12.2", "face padding under permuted table insertion order", "identical result lineage (corner cells included)")
        else:
            ctx.report("R12.2", fi, "face padding under permuted table insertion order", "listing the same links in a different order changes the order in which axes are padded, hence the halo corner cells")
        if key(run(P, t_a, widths=widths_b)) == ref:
            ctx.ok("R12.2", "face padding under permuted boundary_width order", "identical result lineage")
        else:
            ctx.report("R12.2", fi, "face padding under permuted boundary_width order", "the order of the entries of boundary_width changes the order in which axes are padded (corner cells)")
        # a vector on a mixed topology (one same-axis and one axis-swapping link): which faces the table lists first is immaterial
        from ..facepad import table_pair
        import itertools as _it

        base = table_pair((False, False), (True, False))[FACE]
        for vector in ("tangential", "parallel"):
            results = {}
            for order in _it.permutations(sorted(base)):
                t = {FACE: {f: dict(base[f]) for f in order}}
                results[order] = key(run(P, t, vector=vector, n_faces=3, prune=True))
            ref_v = results[tuple(sorted(base))]
            odd = [o for o, r in results.items() if r != ref_v]
            inst = f"vector ({vector}) face padding on a mixed topology under permuted face listing"
            if odd:
                ctx.report("R12.2", fi, inst, f"listing the faces in the order {list(odd[0])} instead of {sorted(base)} changes the padded result: a decision is taken from whichever face the table lists first")
            else:
                ctx.ok("R12.2", inst, f"identical result for all {len(results)} listings")
    except Unmodelled as e:
        ctx.unknown("R12.2", "face padding under permuted insertion order", str(e))
    vfi = P.func("grid:Grid._assign_face_connections")
    try:
        stored = []
        for t in (t_a, t_b, t_c):
            outs = run_assign(P, t)
            if any(o.kind != "return" for o in outs):
                ctx.report("R12.2", vfi, "validator under permuted insertion order", "a reciprocal table is refused in one insertion order")
                return
            axes = outs[0].env.get("self").attrs["axes"]
            stored.append({a.name: {f: _deep(v) for f, v in sorted(axes[a].attrs.get("_face_connections", {}).items())} for a in (AX, AY)})
        if all(s == stored[0] for s in stored):
            ctx.ok("R12.2", "validator under permuted insertion order", "same links recorded")
        else:
            ctx.report("R12.2", vfi, "validator under permuted insertion order", "the links recorded on the axes depend on the order in which the table lists them")
    except Unmodelled as e:
        ctx.unknown("R12.2", "validator under permuted insertion order", str(e))


def _deep(v, depth=0):
    if isinstance(v, Obj):
        parts = v.attrs.get("parts")
        base = f"{v.kind}:{v.name}"
        if parts is not None:
            base += "[" + ",".join(_deep(p, depth + 1) for p in parts) + "]@" + repr(v.attrs.get("dim"))
        return base + "".join("." + _eff(e, depth) for e in v.eff)
    if isinstance(v, (list, tuple)):
        return "(" + ",".join(_deep(x, depth + 1) for x in v) + ")"
    if isinstance(v, dict):
        return "{" + ",".join(f"{k!r}:{_deep(x, depth + 1)}" for k, x in v.items()) + "}"
    return repr(v)


def _eff(e, depth):
    return str(e[0]) + "(" + ",".join(_deep(x, depth + 1) if isinstance(x, (Obj, list, tuple, dict)) else repr(x) for x in e[1:]) + ")"
