"""C16 - the metric registry reflects exactly what was registered, in any batching.

Decided (structure of the registry writers; not the behaviour over call histories):
  R16.1 batch coverage   - every value stored into the registry by set_metrics is computed from the
                           target of a loop over the (promoted) `value` argument, and the store sits
                           inside that loop (a loop target used after its loop = leaked variable);
  R16.2 refusal-before-write - inside one iteration, no registry store can precede the
                           overwrite=False refusal;
  R16.3 slot identity    - overwrite-in-place / refusal are decided by equality of dimension *sets*
                           of the new and the existing variable, the in-place store goes to the
                           index of that existing variable, and the append happens exactly when no
                           slot was overwritten;
  R16.4 who-may-write    - only Grid.__init__ and Grid.set_metrics store into `_metrics`;
  R16.5 constructor      - Grid.__init__ registers every entry of `metrics` through set_metrics, in
                           mapping order.
"""
from __future__ import annotations

import ast

from ..core import norm, own_nodes
from ..flow import FuncFlow, context_of, enclosing_loops, origin_defs, stmt_of

EXPLANATION = (
    "Static rules on Grid.set_metrics / Grid.__init__ / every function of the package: R16.1 reaching-definition "
    "check that each registry store is fed by the target of an enclosing loop over the `value` argument (leaked loop "
    "variable otherwise); R16.2 no registry store on a path to the overwrite=False refusal within one iteration; "
    "R16.3 shape of the slot-identity test (set equality of .dims, in-place store at the enumerated index, append iff "
    "nothing was overwritten); R16.4 who-may-write over all functions of the package; R16.5 constructor loop. "
    "The behaviour over arbitrary call histories is not executed."
)
ASSUMPTIONS = [
    "xarray's Dataset.__getitem__/reset_coords return the named variable",
    "no reflection (setattr/getattr with computed names) writes the registry",
]

REG = "_metrics"
MUTATORS = {"append", "extend", "insert", "pop", "remove", "clear", "update", "setdefault", "popitem", "sort", "reverse", "__setitem__", "__delitem__"}


def rooted_in_registry(e: ast.AST, aliases=()) -> bool:
    """e is X._metrics, X._metrics[...], X._metrics.get(...), or the same through a local alias."""
    while True:
        if isinstance(e, ast.Attribute):
            if e.attr == REG:
                return True
            e = e.value
        elif isinstance(e, ast.Subscript):
            e = e.value
        elif isinstance(e, ast.Call) and isinstance(e.func, ast.Attribute) and e.func.attr in ("get", "setdefault", "__getitem__"):
            e = e.func.value
        elif isinstance(e, ast.Name):
            return e.id in aliases
        else:
            return False


def registry_aliases(fn: ast.AST):
    """Local names bound to (parts of) the registry."""
    al = set()
    changed = True
    while changed:
        changed = False
        for n in own_nodes(fn):
            if isinstance(n, ast.Assign) and len(n.targets) == 1 and isinstance(n.targets[0], ast.Name):
                if rooted_in_registry(n.value, al) and n.targets[0].id not in al:
                    al.add(n.targets[0].id)
                    changed = True
    return al


def registry_writes(fn: ast.AST):
    """[(stmt-or-call node, stored value exprs, description)] for every store into the registry."""
    al = registry_aliases(fn)
    out = []
    for n in own_nodes(fn):
        if isinstance(n, (ast.Assign, ast.AnnAssign, ast.AugAssign)):
            tgts = n.targets if isinstance(n, ast.Assign) else [n.target]
            for t in tgts:
                if isinstance(t, ast.Subscript) and rooted_in_registry(t.value, al):
                    out.append((n, [n.value], "item-store"))
                elif isinstance(t, ast.Attribute) and t.attr == REG:
                    out.append((n, [n.value] if n.value is not None else [], "attr-store"))
        elif isinstance(n, ast.Delete):
            for t in n.targets:
                if isinstance(t, ast.Subscript) and rooted_in_registry(t.value, al):
                    out.append((n, [], "delete"))
        elif isinstance(n, ast.Call) and isinstance(n.func, ast.Attribute) and n.func.attr in MUTATORS:
            if rooted_in_registry(n.func.value, al):
                out.append((n, list(n.args) + [k.value for k in n.keywords], "call-" + n.func.attr))
    return out


def is_empty_literal(e) -> bool:
    if isinstance(e, (ast.List, ast.Tuple, ast.Set)) and not e.elts:
        return True
    if isinstance(e, ast.Dict) and not e.keys:
        return True
    if isinstance(e, ast.Call) and isinstance(e.func, ast.Name) and e.func.id in ("list", "dict", "set", "tuple", "OrderedDict") and not e.args and not e.keywords:
        return True
    return False


def check(ctx):
    P = ctx.project
    fi = P.func("grid:Grid.set_metrics")
    fn = fi.node
    ff = FuncFlow(fn)
    ps, va, ko, kw = fi.params
    if "value" not in ps + ko or "key" not in ps + ko or "overwrite" not in ps + ko:
        ctx.unknown("R16.1", "set_metrics signature", "parameters key/value/overwrite not found")
        return

    writes = registry_writes(fn)
    ctx.floor("R16.1", "registry stores in set_metrics", len(writes), 3)

    def loops_over_value():
        res = []
        for i, st in ff.cfg.nodes.items():
            if isinstance(st, ast.For):
                roots = origin_defs(ff, i, st.iter)
                if any(d.kind == "param" and d.name == "value" for d in roots):
                    res.append(st)
        return res

    value_loops = loops_over_value()
    ctx.floor("R16.1", "loops over the `value` argument", len(value_loops), 1)

    # ---------------- R16.1
    for node, stored, kind in writes:
        st = stmt_of(fn, node) or node
        cn = ff.node_of(st)
        desc = norm(st, 120)
        if kind in ("delete",):
            ctx.report("R16.1", fi, desc, "set_metrics deletes a registry entry; registration must only add or replace", st)
            continue
        real = [v for v in stored if not is_empty_literal(v)]
        if kind == "call-append" or kind == "item-store" or kind == "attr-store" or kind.startswith("call-"):
            if not real:
                ctx.ok("R16.1", desc, "initialises an empty slot list")
                continue
        encl = enclosing_loops(fn, st)
        bad = None
        fed = False
        for v in real:
            roots = origin_defs(ff, cn, v)
            loop_roots = [d for d in roots if d.kind in ("for", "for-unpack")]
            for d in loop_roots:
                loop_stmt = ff.cfg.nodes[d.node]
                over_value = loop_stmt in value_loops
                if not over_value:
                    continue  # e.g. the index from enumerate(existing list)
                if loop_stmt in encl:
                    fed = True
                else:
                    bad = (d, loop_stmt)
        if bad is not None:
            d, loop_stmt = bad
            ctx.report(
                "R16.1",
                fi,
                desc,
                f"the value stored derives from `{d.name}`, the target of the loop at line {loop_stmt.lineno} over the `value` list, "
                f"but the store is outside that loop: only the last element of a list is registered (leaked loop variable)",
                st,
                path=[f"for {norm(loop_stmt.target)} in {norm(loop_stmt.iter)} (line {loop_stmt.lineno})", desc],
            )
        elif not fed:
            ctx.report("R16.1", fi, desc, "the value stored into the registry is not computed from an element of the `value` argument inside a loop over it", st)
        else:
            ctx.ok("R16.1", desc, "fed by the target of an enclosing loop over `value`")

    # ---------------- R16.2 refusal before write
    raises = []
    for n in own_nodes(fn):
        if isinstance(n, ast.Raise):
            conds = [(t, pol) for k, t_ in [] for t, pol in []]
            fr = context_of(fn, n) or []
            tests = [(st.test, k == "if-true") for k, st in fr if k in ("if-true", "if-false")]
            if any("overwrite" in {x.id for x in ast.walk(t) if isinstance(x, ast.Name)} for t, _ in tests):
                raises.append((n, tests))
    ctx.floor("R16.2", "overwrite=False refusal (raise guarded by `overwrite`)", len(raises), 1)
    assigned = {n.id for n in own_nodes(fn) if isinstance(n, ast.Name) and isinstance(n.ctx, ast.Store)}
    for r, rtests in raises:
        rn = ff.node_of(r)
        rloops = enclosing_loops(fn, r)
        outer = next((l for l in rloops if l in value_loops), None)
        for node, stored, kind in writes:
            st = stmt_of(fn, node) or node
            if not [v for v in stored if not is_empty_literal(v)] and kind != "delete":
                continue
            wn = ff.node_of(st)
            # can the write precede the refusal within one iteration of the loop over `value`?
            avoid = set()
            if outer is not None:
                body = ff.loop_body_nodes(ff.node_of(outer))
                if wn not in body:
                    continue
                avoid = {ff.node_of(outer)}
            if not _reaches(ff.cfg, wn, rn, avoid):
                ctx.ok("R16.2", f"{norm(st, 80)} -> refusal", "store cannot precede the refusal within one iteration")
                continue
            wfr = context_of(fn, st) or []
            wtests = [(s.test, k == "if-true") for k, s in wfr if k in ("if-true", "if-false")]
            excl = False
            for t1, p1 in wtests:
                for t2, p2 in rtests:
                    if ast.dump(t1) == ast.dump(t2) and p1 != p2:
                        nm = {x.id for x in ast.walk(t1) if isinstance(x, ast.Name)}
                        if not (nm & assigned):
                            excl = True
            if excl:
                ctx.ok("R16.2", f"{norm(st, 80)} -> refusal", "store and refusal are on opposite arms of the same unmodified test")
            else:
                ctx.report("R16.2", fi, norm(st, 120), "a registry store can happen before the overwrite=False refusal of the same variable, so a refused registration does not leave the registry as it was", st)

    # ---------------- R16.2b an occupied slot is replaced only under overwrite=True and refused otherwise
    def overwrite_polarity(t):
        """+1 if test is true exactly when `overwrite` is truthy, -1 if when falsy, 0 unknown."""
        if isinstance(t, ast.Name) and t.id == "overwrite":
            return 1
        if isinstance(t, ast.UnaryOp) and isinstance(t.op, ast.Not):
            return -overwrite_polarity(t.operand)
        if isinstance(t, ast.Compare) and len(t.ops) == 1 and isinstance(t.left, ast.Name) and t.left.id == "overwrite" and isinstance(t.comparators[0], ast.Constant):
            c = t.comparators[0].value
            if isinstance(t.ops[0], (ast.Is, ast.Eq)) and c in (True, False):
                return 1 if c is True else -1
            if isinstance(t.ops[0], (ast.IsNot, ast.NotEq)) and c in (True, False):
                return -1 if c is True else 1
        return 0

    for n in own_nodes(fn):
        if not (isinstance(n, (ast.Assign, ast.AugAssign)) and isinstance((n.targets[0] if isinstance(n, ast.Assign) else n.target), ast.Subscript)):
            continue
        tgt0 = n.targets[0] if isinstance(n, ast.Assign) else n.target
        if not (isinstance(tgt0.value, ast.Subscript) and rooted_in_registry(tgt0.value, registry_aliases(fn))):
            continue
        fr = context_of(fn, n) or []
        guard = None
        for k, s_ in fr:
            if k in ("if-true", "if-false"):
                pol = overwrite_polarity(s_.test) * (1 if k == "if-true" else -1)
                if pol == 1:
                    guard = (k, s_)
        if guard is None:
            ctx.report("R16.2", fi, norm(n, 120) + " [unguarded]", "an occupied slot is replaced without `overwrite` being true", n)
            continue
        k, ifst = guard
        other = ifst.orelse if k == "if-true" else ifst.body
        if any(isinstance(s_, ast.Raise) for s_ in other):
            ctx.ok("R16.2", norm(n, 80) + " [guard]", "replacement only under overwrite; the other arm raises")
        else:
            ctx.report("R16.2", fi, norm(n, 120) + " [no refusal]", "registering into an occupied slot without overwrite=True is not refused (the arm opposite to the replacement does not raise)", ifst)

    # ---------------- R16.3 slot identity
    inplace = [(n, s, k) for (n, s, k) in writes if k == "item-store" and isinstance((n.targets[0] if isinstance(n, ast.Assign) else n.target), ast.Subscript)
               and isinstance((n.targets[0] if isinstance(n, ast.Assign) else n.target).value, ast.Subscript)]
    appends = [(n, s, k) for (n, s, k) in writes if k == "call-append" and [v for v in s if not is_empty_literal(v)]]
    if not inplace:
        ctx.unknown("R16.3", "in-place replacement", "no store of the form registry[axes][index] = new found in set_metrics")
    for node, stored, kind in inplace:
        st = stmt_of(fn, node) or node
        tgt = node.targets[0] if isinstance(node, ast.Assign) else node.target
        tests = [(s.test, k == "if-true") for k, s in (context_of(fn, st) or []) if k in ("if-true", "if-false")]
        dim_tests = [t for t, pol in tests if pol and _is_dimset_equality(t)]
        if not dim_tests:
            others = [t for t, pol in tests if ".dims" in norm(t)]
            ctx.report("R16.3", fi, norm(st, 120), "the in-place replacement is not guarded by equality of the dimension *sets* of the new and the existing variable"
                       + (f" (guard is `{norm(others[0], 80)}`)" if others else ""), st)
            continue
        t = dim_tests[0]
        # the two sides: one derives from the stored value, the other from the loop target over the existing list
        cn = ff.node_of(st)
        sides = [t.left, t.comparators[0]]
        side_roots = [origin_defs(ff, ff.node_of(_if_of(fn, t)), s) for s in sides]
        new_roots = origin_defs(ff, cn, stored[0])
        loops = enclosing_loops(fn, st)
        inner = loops[-1] if loops else None
        ok_new = any({(d.name, d.node) for d in r} & {(d.name, d.node) for d in new_roots} for r in side_roots)
        ok_old = inner is not None and any(any(d.node == ff.node_of(inner) for d in r) for r in side_roots)
        # index of the store must be bound by the same inner loop (enumerate over the existing list)
        idx_roots = origin_defs(ff, cn, tgt.slice)
        ok_idx = inner is not None and any(d.node == ff.node_of(inner) for d in idx_roots) and isinstance(inner, ast.For) and \
            isinstance(inner.iter, ast.Call) and isinstance(inner.iter.func, ast.Name) and inner.iter.func.id == "enumerate" and \
            rooted_in_registry(inner.iter.args[0], registry_aliases(fn))
        if ok_new and ok_old and ok_idx:
            ctx.ok("R16.3", norm(st, 100), f"guarded by `{norm(t, 80)}`, index from enumerate over the existing slot list")
        else:
            why = []
            if not ok_new:
                why.append("the dimension test does not look at the variable being stored")
            if not ok_old:
                why.append("the dimension test does not look at the existing entry of the enclosing loop")
            if not ok_idx:
                why.append("the index stored to is not the enumerate() index of the existing slot list")
            ctx.report("R16.3", fi, norm(st, 120), "slot identity: " + "; ".join(why), st)
    # append iff nothing overwritten: the append must be guarded by `not flag`, where flag is initialised False
    # inside the loop over `value`, and set True exactly next to an in-place store
    for node, stored, kind in appends:
        st = stmt_of(fn, node) or node
        loops = enclosing_loops(fn, st)
        if not any(l in value_loops for l in loops):
            continue  # reported by R16.1
        # is there an in-place store within the same value-loop?  (the else-branch for fresh keys has none)
        vloop = next(l for l in loops if l in value_loops)
        same_loop_inplace = [n for (n, s, k) in inplace if vloop in enclosing_loops(fn, stmt_of(fn, n) or n)]
        if not same_loop_inplace:
            ctx.ok("R16.3", norm(st, 100), "append in a branch without replacement (fresh axis set)")
            continue
        tests = [(s.test, k == "if-true") for k, s in (context_of(fn, st) or []) if k in ("if-true", "if-false")]
        flag = None
        for t, pol in tests:
            if isinstance(t, ast.UnaryOp) and isinstance(t.op, ast.Not) and isinstance(t.operand, ast.Name) and pol:
                flag = t.operand.id
            elif isinstance(t, ast.Name) and not pol:
                flag = t.id
        if flag is None:
            ctx.report("R16.3", fi, norm(st, 120), "the append of a new variable is not conditional on `no existing slot was overwritten`: an overwritten slot would be registered twice", st)
            continue
        sets = [n for n in own_nodes(fn) if isinstance(n, ast.Assign) and len(n.targets) == 1 and isinstance(n.targets[0], ast.Name) and n.targets[0].id == flag]
        init_false = [n for n in sets if isinstance(n.value, ast.Constant) and n.value.value is False and vloop in enclosing_loops(fn, n) and len(enclosing_loops(fn, n)) == len([l for l in loops])]
        set_true = [n for n in sets if isinstance(n.value, ast.Constant) and n.value.value is True]
        ok_true = bool(set_true) and all(any(_same_block(fn, n, ip) for ip in same_loop_inplace) for n in set_true)
        if init_false and ok_true and len(init_false) + len(set_true) == len(sets):
            ctx.ok("R16.3", norm(st, 100), f"append guarded by `not {flag}`; {flag} reset per variable and set beside the in-place store")
        else:
            ctx.report("R16.3", fi, norm(st, 120), f"the flag `{flag}` guarding the append is not (re)initialised to False for each variable of the list and set to True exactly where a slot is overwritten", st)

    # ---------------- R16.4 who may write
    allowed = {"grid:Grid.__init__", "grid:Grid.set_metrics"}
    nfun = 0
    for q, f in P.functions.items():
        nfun += 1
        ws = registry_writes(f.node)
        for node, stored, kind in ws:
            st = stmt_of(f.node, node) or node
            if q in allowed:
                continue
            ctx.report("R16.4", f, norm(st, 120), f"{q} stores into the metric registry; only Grid.__init__ and Grid.set_metrics may (what get_metric returns must depend on the registrations alone)", st)
    ctx.ok("R16.4", f"{nfun} functions scanned for stores into `{REG}`", "only the constructor and set_metrics write")
    # get_metric must exist and read the registry (anchor)
    gm = P.func("grid:Grid.get_metric")
    reads = [n for n in own_nodes(gm.node) if isinstance(n, ast.Attribute) and n.attr == REG]
    ctx.floor("R16.4", "registry reads in get_metric", len(reads), 1)

    # ---------------- R16.5 constructor registers every entry through set_metrics
    init = P.func("grid:Grid.__init__")
    iff = FuncFlow(init.node)
    calls = [n for n in own_nodes(init.node) if isinstance(n, ast.Call) and isinstance(n.func, ast.Attribute) and n.func.attr == "set_metrics"]
    ctx.floor("R16.5", "set_metrics calls in Grid.__init__", len(calls), 1)
    for c in calls:
        st = stmt_of(init.node, c)
        loops = enclosing_loops(init.node, st)
        ok = False
        for l in loops:
            if isinstance(l, ast.For) and isinstance(l.iter, ast.Call) and isinstance(l.iter.func, ast.Attribute) and l.iter.func.attr == "items":
                roots = origin_defs(iff, iff.node_of(l), l.iter.func.value)
                if any(d.kind == "param" and d.name == "metrics" for d in roots) or any(d.name == "metrics" for d in roots):
                    tn = [x.id for x in ast.walk(l.target) if isinstance(x, ast.Name)]
                    argn = [a.id for a in c.args if isinstance(a, ast.Name)] + [k.value.id for k in c.keywords if isinstance(k.value, ast.Name)]
                    if len(tn) == 2 and argn[:2] == tn:
                        ok = True
        if ok:
            ctx.ok("R16.5", norm(st, 100), "called for every (key, value) of metrics.items(), in mapping order")
        else:
            ctx.report("R16.5", init, norm(st, 120), "the constructor does not pass every (axes, variables) entry of `metrics`, in mapping order, to set_metrics", st)
        if any(k.arg == "overwrite" for k in c.keywords) or len(c.args) > 2:
            ctx.report("R16.5", init, norm(st, 120) + " [overwrite]", "the constructor passes an overwrite flag: constructor entries must be registered like plain set_metrics calls", st)


def _reaches(cfg, a, b, avoid):
    seen = {a}
    st = [a]
    while st:
        q = st.pop()
        for r in cfg.succ[q]:
            if r == b:
                return True
            if r not in seen and r not in avoid:
                seen.add(r)
                st.append(r)
    return False


def _is_dimset_equality(t) -> bool:
    if not (isinstance(t, ast.Compare) and len(t.ops) == 1 and isinstance(t.ops[0], ast.Eq)):
        return False

    def dimset(e):
        return isinstance(e, ast.Call) and isinstance(e.func, ast.Name) and e.func.id in ("set", "frozenset") and len(e.args) == 1 and \
            isinstance(e.args[0], ast.Attribute) and e.args[0].attr == "dims"

    return dimset(t.left) and dimset(t.comparators[0])


def _if_of(fn, test):
    for n in own_nodes(fn):
        if isinstance(n, ast.If) and n.test is test:
            return n
    return test


def _same_block(fn, a, b) -> bool:
    """a and b are statements of the same statement list."""
    sa, sb = stmt_of(fn, a) or a, stmt_of(fn, b) or b
    for n in [fn] + list(own_nodes(fn)):
        for f in ("body", "orelse", "finalbody"):
            blk = getattr(n, f, None)
            if isinstance(blk, list) and sa in blk and sb in blk:
                return True
    return False

TECHNIQUE = "reaching definitions + CFG reachability + who-may-write scan (ast)"
LEVEL_TEXT = (
    "Static analysis of the registry writers on the current source: (R16.1) every value set_metrics stores into the registry is fed, by reaching "
    "definitions, from the target of an enclosing loop over the `value` argument - a loop target used after its loop (the defect that registered only "
    "the last variable of a list) is reported; (R16.2) no store can precede the overwrite=False refusal within one iteration, an occupied slot is "
    "replaced only under `overwrite` and the other arm raises; (R16.3) slot identity is set-equality of dims, replacement goes to the enumerated "
    "index, append iff nothing was replaced; (R16.4) no function other than __init__/set_metrics stores into `_metrics` (all functions scanned); "
    "(R16.5) the constructor registers every entry through set_metrics. This decides the structure that makes batching irrelevant for every call "
    "history; it does not execute histories, so equivalence of final registries is claimed only through these necessary conditions."
)
LEVEL_NOTE = "Trusted: CPython ast; xarray's Dataset.__getitem__/reset_coords; no reflection writes the registry. Behaviour over concrete call histories is not executed."
