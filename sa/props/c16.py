"""C16 - the metric registry reflects exactly what was registered, in any batching.

Decided (structure of the registry writers; not the behaviour over call histories):
  R16.1 batch coverage   - every value stored into the registry by set_metrics is computed from the
                           target of a loop over the (promoted) `value` argument, and the store sits
                           inside that loop (a loop target used after its loop = leaked variable);
  R16.2 refusal-before-write - inside one iteration, no registry store can precede the
                           overwrite=False refusal (CFG reachability, following only branches consistent with
                           one value of the never-reassigned `overwrite`);
  R16.3 registry table   - set_metrics interpreted abstractly on modelled registries for 56 (initial
                           registry, batch of 1-3 variables, overwrite) cases: the registry afterwards - on
                           returning *and* on refusing paths - equals the reference "one variable at a time, in
                           order" (slot = existing entry with the same set of dimensions; occupied + overwrite
                           -> replaced in place; occupied without -> refused, everything as it was; free ->
                           appended).  Any spelling with this effect passes (no flag / guard shape is demanded);
  R16.4 who-may-write    - only Grid.__init__ and Grid.set_metrics store into `_metrics`;
  R16.5 constructor      - Grid.__init__ registers every entry of `metrics` through set_metrics, in
                           mapping order.
"""
from __future__ import annotations

import ast

from ..core import norm, own_nodes
from ..flow import FuncFlow, context_of, enclosing_loops, origin_defs, stmt_of

EXPLANATION = (
    "Static rules on Grid.set_metrics / Grid.__init__ / every function of the package: R16.1 reaching-definition "
    "check that each registry store is fed by the target of an enclosing loop over the `value` argument (leaked loop "
    "variable otherwise); R16.2 no registry store on a path to the overwrite=False refusal within one iteration; "
    "R16.3 abstract evaluation of set_metrics on modelled registries against the one-at-a-time reference (56 cases, "
    "returning and refusing paths); R16.4 who-may-write over all functions of the package; R16.5 constructor loop. "
    "The behaviour over arbitrary call histories is not executed."
)
ASSUMPTIONS = [
    "xarray's Dataset.__getitem__/reset_coords return the named variable",
    "no reflection (setattr/getattr with computed names) writes the registry",
]

REG = "_metrics"
MUTATORS = {"append", "extend", "insert", "pop", "remove", "clear", "update", "setdefault", "popitem", "sort", "reverse", "__setitem__", "__delitem__"}


def rooted_in_registry(e: ast.AST, aliases=()) -> bool:
    """e is X._metrics, X._metrics[...], X._metrics.get(...), or the same through a local alias."""
    while True:
        if isinstance(e, ast.Attribute):
            if e.attr == REG:
                return True
            e = e.value
        elif isinstance(e, ast.Subscript):
            e = e.value
        elif isinstance(e, ast.Call) and isinstance(e.func, ast.Attribute) and e.func.attr in ("get", "setdefault", "__getitem__"):
            e = e.func.value
        elif isinstance(e, ast.Name):
            return e.id in aliases
        else:
            return False


def registry_aliases(fn: ast.AST):
    """Local names bound to (parts of) the registry."""
    al = set()
    changed = True
    while changed:
        changed = False
        for n in own_nodes(fn):
            if isinstance(n, ast.Assign) and len(n.targets) == 1 and isinstance(n.targets[0], ast.Name):
                if rooted_in_registry(n.value, al) and n.targets[0].id not in al:
                    al.add(n.targets[0].id)
                    changed = True
    return al


def registry_writes(fn: ast.AST):
    """[(stmt-or-call node, stored value exprs, description)] for every store into the registry."""
    al = registry_aliases(fn)
    out = []
    for n in own_nodes(fn):
        if isinstance(n, (ast.Assign, ast.AnnAssign, ast.AugAssign)):
            tgts = n.targets if isinstance(n, ast.Assign) else [n.target]
            for t in tgts:
                if isinstance(t, ast.Subscript) and rooted_in_registry(t.value, al):
                    out.append((n, [n.value], "item-store"))
                elif isinstance(t, ast.Attribute) and t.attr == REG:
                    out.append((n, [n.value] if n.value is not None else [], "attr-store"))
        elif isinstance(n, ast.Delete):
            for t in n.targets:
                if isinstance(t, ast.Subscript) and rooted_in_registry(t.value, al):
                    out.append((n, [], "delete"))
        elif isinstance(n, ast.Call) and isinstance(n.func, ast.Attribute) and n.func.attr in MUTATORS:
            if rooted_in_registry(n.func.value, al):
                vals = list(n.args) + [k.value for k in n.keywords]
                if n.func.attr in ("setdefault", "insert", "__setitem__"):
                    vals = vals[1:]  # the first argument is the key / index, not a stored value
                out.append((n, vals, "call-" + n.func.attr))
    return out


def is_empty_literal(e) -> bool:
    if isinstance(e, (ast.List, ast.Tuple, ast.Set)) and not e.elts:
        return True
    if isinstance(e, ast.Dict) and not e.keys:
        return True
    if isinstance(e, ast.Call) and isinstance(e.func, ast.Name) and e.func.id in ("list", "dict", "set", "tuple", "OrderedDict") and not e.args and not e.keywords:
        return True
    return False


def check(ctx):
    P = ctx.project
    fi = P.func("grid:Grid.set_metrics")
    fn = fi.node
    ff = FuncFlow(fn)
    ps, va, ko, kw = fi.params
    if "value" not in ps + ko or "key" not in ps + ko or "overwrite" not in ps + ko:
        ctx.unknown("R16.1", "set_metrics signature", "parameters key/value/overwrite not found")
        return

    writes = registry_writes(fn)
    if not writes:
        # set_metrics delegates the stores (e.g. to a private helper): the flow rules R16.1 / R16.2 have nothing to look at
        # here; what they guard - every variable of a batch registered, nothing written before a refusal - is decided by
        # interpreting set_metrics with its helpers in the registry table (R16.3) and the constructor table (R16.5)
        ctx.ok("R16.1", "registry stores of set_metrics", "made by a helper; batch coverage decided by the registry table")
        _registry_table(ctx, P, fi)
        _who_may_write(ctx, P)
        _constructor_registry(ctx, P)
        _answers_follow_registry(ctx, P)
        return
    ctx.floor("R16.1", "registry stores in set_metrics", len(writes), 3)

    def loops_over_value():
        res = []
        for i, st in ff.cfg.nodes.items():
            if isinstance(st, ast.For):
                roots = origin_defs(ff, i, st.iter)
                if any(d.kind == "param" and d.name == "value" for d in roots):
                    res.append(st)
        return res

    value_loops = loops_over_value()
    ctx.floor("R16.1", "loops over the `value` argument", len(value_loops), 1)

    # ---------------- R16.1
    for node, stored, kind in writes:
        st = stmt_of(fn, node) or node
        cn = ff.node_of(st)
        desc = norm(st, 120)
        if kind in ("delete",):
            ctx.report("R16.1", fi, desc, "set_metrics deletes a registry entry; registration must only add or replace", st)
            continue
        real = [v for v in stored if not is_empty_literal(v)]
        if kind == "call-append" or kind == "item-store" or kind == "attr-store" or kind.startswith("call-"):
            if not real:
                ctx.ok("R16.1", desc, "initialises an empty slot list")
                continue
        encl = enclosing_loops(fn, st)
        bad = None
        fed = False
        for v in real:
            roots = origin_defs(ff, cn, v)
            # names bound by a comprehension / generator inside the stored expression are its own (`extend(f(x) for x in value)`
            # feeds every element), whatever an earlier loop called its target
            own = {n.id for c in ast.walk(v) if isinstance(c, ast.comprehension) for n in ast.walk(c.target) if isinstance(n, ast.Name)}
            if own:
                fed = True
            loop_roots = [d for d in roots if d.kind in ("for", "for-unpack") and d.name not in own]
            for d in loop_roots:
                loop_stmt = ff.cfg.nodes[d.node]
                over_value = loop_stmt in value_loops
                if not over_value:
                    continue  # e.g. the index from enumerate(existing list)
                if loop_stmt in encl:
                    fed = True
                else:
                    bad = (d, loop_stmt)
        if bad is not None:
            d, loop_stmt = bad
            ctx.report(
                "R16.1",
                fi,
                desc,
                f"the value stored derives from `{d.name}`, the target of the loop at line {loop_stmt.lineno} over the `value` list, "
                f"but the store is outside that loop: only the last element of a list is registered (leaked loop variable)",
                st,
                path=[f"for {norm(loop_stmt.target)} in {norm(loop_stmt.iter)} (line {loop_stmt.lineno})", desc],
            )
        elif not fed:
            ctx.report("R16.1", fi, desc, "the value stored into the registry is not computed from an element of the `value` argument inside a loop over it", st)
        else:
            ctx.ok("R16.1", desc, "fed by the target of an enclosing loop over `value`")

    # ---------------- R16.2 refusal before write
    raises = []
    for n in own_nodes(fn):
        if isinstance(n, ast.Raise):
            conds = [(t, pol) for k, t_ in [] for t, pol in []]
            fr = context_of(fn, n) or []
            tests = [(st.test, k == "if-true") for k, st in fr if k in ("if-true", "if-false")]
            if any("overwrite" in {x.id for x in ast.walk(t) if isinstance(x, ast.Name)} for t, _ in tests):
                raises.append((n, tests))
    if not raises:
        # no `raise` under a test of `overwrite` in this function (e.g. moved into a helper): the refusal behaviour itself,
        # including what the registry holds when it happens, is decided by the registry table (R16.3)
        ctx.ok("R16.2", "refusal site", "no raise guarded by `overwrite` inside set_metrics; refusal decided by the registry table")
    assigned = {n.id for n in own_nodes(fn) if isinstance(n, ast.Name) and isinstance(n.ctx, ast.Store)}
    for r, rtests in raises:
        rn = ff.node_of(r)
        rloops = enclosing_loops(fn, r)
        outer = next((l for l in rloops if l in value_loops), None)
        for node, stored, kind in writes:
            st = stmt_of(fn, node) or node
            if not [v for v in stored if not is_empty_literal(v)] and kind != "delete":
                continue
            wn = ff.node_of(st)
            # can the write precede the refusal within one iteration of the loop over `value`?
            avoid = set()
            if outer is not None:
                body = ff.loop_body_nodes(ff.node_of(outer))
                if wn not in body:
                    continue
                avoid = {ff.node_of(outer)}
            if not _reaches(ff.cfg, wn, rn, avoid):
                ctx.ok("R16.2", f"{norm(st, 80)} -> refusal", "store cannot precede the refusal within one iteration")
                continue
            if "overwrite" not in assigned:
                # `overwrite` is never reassigned: follow only branches consistent with one value of it
                from ..cfg import reaches_under

                feasible = [v for v in (True, False) if reaches_under(ff.cfg, ff.cfg.entry, wn, set(), "overwrite", v) and reaches_under(ff.cfg, wn, rn, avoid, "overwrite", v)]
                if not feasible:
                    ctx.ok("R16.2", f"{norm(st, 80)} -> refusal", "no value of `overwrite` lets the store happen and the refusal follow it")
                    continue
            wfr = context_of(fn, st) or []
            wtests = [(s.test, k == "if-true") for k, s in wfr if k in ("if-true", "if-false")]
            excl = False
            for t1, p1 in wtests:
                for t2, p2 in rtests:
                    if ast.dump(t1) == ast.dump(t2) and p1 != p2:
                        nm = {x.id for x in ast.walk(t1) if isinstance(x, ast.Name)}
                        if not (nm & assigned):
                            excl = True
            if excl:
                ctx.ok("R16.2", f"{norm(st, 80)} -> refusal", "store and refusal are on opposite arms of the same unmodified test")
            else:
                ctx.report("R16.2", fi, norm(st, 120), "a registry store can happen before the overwrite=False refusal of the same variable, so a refused registration does not leave the registry as it was", st)

    # ---------------- R16.3 registry table: set_metrics interpreted on modelled registries against the one-at-a-time reference
    _registry_table(ctx, P, fi)

    _who_may_write(ctx, P)

    # ---------------- R16.5 constructor: Grid(..., metrics={...}) leaves the registry that the same entries, registered one
    # call at a time in mapping order, leave
    _constructor_registry(ctx, P)
    _answers_follow_registry(ctx, P)


def _who_may_write(ctx, P):
    # ---------------- R16.4 who may write: the two public entry points, and private helpers that only they (transitively) call
    from ..callgraph import CallGraph

    cg = CallGraph(P)
    callers = {}
    for q, outs_ in cg.edges.items():
        for callee in outs_:
            callers.setdefault(callee, set()).add(q)
    roots = {"grid:Grid.__init__", "grid:Grid.set_metrics"}

    def only_from_roots(q, seen=()):
        if q in roots:
            return True
        cs = callers.get(q, set()) - {q}
        name = q.rsplit(".", 1)[-1].split(":")[-1]
        if not cs or q in seen or not name.startswith("_") or name.startswith("__"):
            return False  # no caller in the package, or a public name anybody may call
        return all(only_from_roots(c, seen + (q,)) for c in cs)

    nfun = 0
    for q, f in P.functions.items():
        nfun += 1
        ws = registry_writes(f.node)
        if not ws or only_from_roots(q):
            continue
        for node, stored, kind in ws:
            st = stmt_of(f.node, node) or node
            ctx.report("R16.4", f, norm(st, 120), f"{q} stores into the metric registry and is reachable from outside Grid.__init__ / Grid.set_metrics (callers: {sorted(callers.get(q, []))[:3]}): what get_metric returns must depend on the registrations alone", st)
    ctx.ok("R16.4", f"{nfun} functions scanned for stores into `{REG}`", "only the constructor, set_metrics and helpers private to them write")
    # get_metric must exist and read the registry (anchor)
    gm = P.func("grid:Grid.get_metric")
    reads = [n for n in own_nodes(gm.node) if isinstance(n, ast.Attribute) and n.attr == REG]
    ctx.floor("R16.4", "registry reads in get_metric", len(reads), 1)


def _registry_model():
    """Pool of metric variables, dataset models and the one-at-a-time reference shared by R16.3 and R16.5."""
    from ..absint import Obj, Raised, Sym
    from ..xmodel import dimsym

    xc, xg, yc, yg = dimsym("AX", "center"), dimsym("AX", "left"), dimsym("AY", "center"), dimsym("AY", "left")
    # dx2_*: the same axis set as dx_* but given on the horizontal plane (2-D grid spacing): dimensions a strict superset
    pool = {"a_cc": (yc, xc), "b_cc": (xc, yc), "a_gc": (yc, xg), "b_gc": (xg, yc), "a_cg": (yg, xc), "a_gg": (yg, xg), "dx_c": (xc,), "dx_g": (xg,),
            "dx2_c": (yc, xc), "dx2_g": (yc, xg), "b_gg": (xg, yg)}

    def var(name, eff=()):
        return Obj("DataArray", name, eff, {"dims": pool[name], "name": name, "__isinstance__": ("DataArray",)})

    def getitem(ev, recv, args, kw, node):
        k = args[0]
        k = k.name if isinstance(k, Sym) else k
        if k not in pool:
            raise Raised("KeyError", node)
        return var(k)

    def reset_coords(ev, recv, args, kw, node):
        return recv.with_eff(("reset_coords", tuple(sorted(kw.items()))))

    models = {("Dataset", "__getitem__"): getitem, ("DataArray", "reset_coords"): reset_coords}

    def reference(registry, calls):
        """calls: [(key, [names], overwrite)] registered one variable at a time, in order."""
        reg = {k: list(v) for k, v in registry.items()}
        for key, batch, overwrite in calls:
            for name in batch:
                lst = reg.setdefault(key, [])
                hit = [i for i, old in enumerate(lst) if set(pool[old]) == set(pool[name])]
                if hit:
                    if not overwrite:
                        return reg, "raise"
                    for i in hit:
                        lst[i] = name
                else:
                    lst.append(name)
        return reg, "return"

    return pool, var, models, reference


def run_set_metrics(P, key, value, overwrite=False, registry=None):
    """Evaluate Grid.set_metrics on a grid with axes AX, AY whose dataset holds the pool of metric variables."""
    from ..absint import Evaluator, Obj
    from ..xmodel import make_grid

    pool, var, models, _ref = _registry_model()

    def make():
        ds = Obj("Dataset", "grid_ds", (), {"variables": list(pool), "data_vars": list(pool)})
        g = make_grid(("AX", "AY"), ds=ds)
        g.attrs["_metrics"] = {k: [var(v) for v in vs] for k, vs in (registry or {}).items()}
        return dict(self=g, key=key, value=value, overwrite=overwrite)

    return Evaluator(P, method_models=models).run_paths(P.func("grid:Grid.set_metrics"), make)


def _answers_follow_registry(ctx, P):
    """R16.6: what get_metric returns depends only on the registry as it is *now*: a query, a registration that replaces (or
    adds) a variable, and the same query again - the second answer is the one a Grid that has only ever seen the final registry
    gives (a sequence of three calls interpreted on one modelled Grid; anything remembered from the first query shows)."""
    from ..absint import Evaluator, Obj, Sym
    from ..harness import driver
    from ..xmodel import dimsym, make_da, make_grid

    AX, AY = Sym("AX"), Sym("AY")
    pool, var, models, _ref = _registry_model()
    gm = P.func("grid:Grid.get_metric")
    fi = driver("grid", "def _query_register_query(grid, arr, axes, key, value, overwrite):\n    first = grid.get_metric(arr, axes)\n    grid.set_metrics(key, value, overwrite=overwrite)\n    return grid.get_metric(arr, axes)\n")
    ref = driver("grid", "def _register_query(grid, arr, axes, key, value, overwrite):\n    grid.set_metrics(key, value, overwrite=overwrite)\n    return grid.get_metric(arr, axes)\n")
    xc, xg, yc, yg = dimsym("AX", "center"), dimsym("AX", "left"), dimsym("AY", "center"), dimsym("AY", "left")
    kxy = frozenset({AX, AY})
    cases = [
        ("the variable at another position is replaced (interpolated answer)", {kxy: ["a_gg"]}, (yc, xc), "b_gg", True),
        ("the variable at the array's position is replaced", {kxy: ["a_cc", "a_gg"]}, (yc, xc), "b_cc", True),
        ("a variable at the array's position is added after an interpolated answer", {kxy: ["a_gg"]}, (yc, xc), "a_cc", False),
    ]

    def m_interp_like(ev, args, kw, node):
        b = dict(zip(["self", "array", "like", "boundary", "fill_value"], args))
        b.update(kw)
        return Obj("DataArray", f"INTERP({b['array'].name})", (), {"dims": b["like"].attrs["dims"]})

    def describe(v):
        return v.name + "".join("*" + (e[1].name if isinstance(e[1], Obj) else repr(e[1])) for e in v.eff if e[0] in ("mult", "rmult")) if isinstance(v, Obj) else repr(v)

    for name, reg, adims, newvar, overwrite in cases:
        inst = f"query, register, query again: {name}"
        res = []
        try:
            for f in (fi, ref):
                ev = Evaluator(P, models={"grid:Grid.interp_like": m_interp_like, "warnings.warn": lambda ev_, a, k, n: None}, method_models=models)

                def make():
                    ds = Obj("Dataset", "grid_ds", (), {"variables": list(pool), "data_vars": list(pool)})
                    g = make_grid(("AX", "AY"), ds=ds)
                    g.attrs["_metrics"] = {k: [var(v, (("reset_coords", (("drop", True),)),)) for v in vs] for k, vs in reg.items()}
                    return dict(grid=g, arr=make_da("arr", list(adims)), axes=(AX, AY), key=(AX, AY), value=newvar, overwrite=overwrite)

                outs = ev.run_paths(f, make)
                res.append(sorted({(o.kind, describe(o.value)) for o in outs}))
        except Unmodelled as e:
            ctx.unknown("R16.6", inst, str(e))
            continue
        if res[0] != res[1]:
            ctx.report("R16.6", gm, inst, f"after the registration the repeated query answers {res[0]}; a Grid that has only seen the final registry answers {res[1]}: the answer depends on what was asked before")
        else:
            ctx.ok("R16.6", inst, f"second answer {res[1]} = the final registry's")


def _constructor_registry(ctx, P):
    from ..absint import Evaluator, Obj, Sym, Unmodelled
    from ..xmodel import dimsym

    init = P.func("grid:Grid.__init__")
    pool, var, models, reference = _registry_model()
    AX, AY = Sym("AX"), Sym("AY")
    cases = {
        "two axis sets, several variables each": {(AX,): ["dx_c", "dx_g"], (AX, AY): ["a_cc", "a_gc", "a_gg"]},
        "one variable given as a bare name": {(AX, AY): "a_cc"},
        "axis sets listed in the other order": {(AX, AY): ["a_gg"], (AX,): ["dx_g", "dx_c"]},
        "the same axis set given twice (in both orders) with variables at one position": {(AX, AY): ["a_cc", "a_gg"], (AY, AX): ["b_cc"]},
    }
    for name, metrics in cases.items():
        inst = f"Grid(metrics=...) with {name}"

        def make():
            coords = {a: {"center": dimsym(a.name, "center"), "left": dimsym(a.name, "left")} for a in (AX, AY)}
            dims = tuple(d for c in coords.values() for d in c.values())
            ds = Obj("Dataset", "ds", (), {"dims": dims, "variables": list(pool), "data_vars": list(pool), "__isinstance__": ("Dataset",)})
            me = Obj("Grid", "self", (), {"__class__": "grid:Grid"})
            return dict(self=me, ds=ds, coords=coords, periodic=False, fill_value=None, default_shifts=None, boundary=None, face_connections=None,
                        metrics={k: (list(v) if isinstance(v, list) else v) for k, v in metrics.items()}, autoparse_metadata=False)

        ev = Evaluator(P, models={"warnings.warn": lambda ev_, a, k, n: None}, method_models=models)
        try:
            outs = ev.run_paths(init, make)
        except Unmodelled as e:
            ctx.unknown("R16.5", inst, str(e))
            continue
        calls = [(frozenset(k), list(v) if isinstance(v, list) else [v], False) for k, v in metrics.items()]
        want, want_kind = reference({}, calls)
        bad = None
        for o in outs:
            me = o.env.get("self")
            reg = me.attrs.get("_metrics") if isinstance(me, Obj) else None
            got = {k: [getattr(v, "name", repr(v)) for v in vs] for k, vs in reg.items()} if isinstance(reg, dict) else reg
            if want_kind == "raise":
                if o.kind != "raise":
                    bad = "a later entry for an occupied slot is accepted by the constructor (it silently replaces the earlier variable); the same entries given to set_metrics one call at a time are refused"
            elif o.kind != "return":
                bad = f"the constructor raises {o.value}"
            elif got != want or (isinstance(got, dict) and list(got) != list(want)):
                show = lambda r: {tuple(sorted(x.name for x in k)): v for k, v in r.items()} if isinstance(r, dict) else r
                bad = f"registry after construction is {show(got)}; registering the entries one call at a time, in mapping order, gives {show(want)}"
        if bad:
            ctx.report("R16.5", init, inst, bad)
        else:
            ctx.ok("R16.5", inst, "registry = the entries registered one call at a time, in mapping order")



def _registry_table(ctx, P, fi):
    """set_metrics evaluated abstractly for every (initial registry, batch, overwrite) of a small family; the final
    registry (also on raising paths) must equal the reference: variables registered one at a time, in order - a slot is
    the existing entry with the same *set* of dimensions; occupied + overwrite -> replaced in place, occupied without
    overwrite -> refused with the slot (and everything registered before) as it was, free -> appended."""
    import copy
    import itertools

    from ..absint import Evaluator, Obj, Sym, Unmodelled
    from ..xmodel import dimsym, make_grid

    AX, AY = Sym("AX"), Sym("AY")
    pool, var, _models, _reference = _registry_model()

    def ds_models():
        return _models

    def reference(registry, key, batch, overwrite):
        return _reference(registry, [(key, batch, overwrite)])

    kxy, kx = frozenset({AX, AY}), frozenset({AX})
    initials = {
        "empty registry": {},
        "one variable registered": {kxy: ["a_cc"]},
        "two positions registered": {kxy: ["a_cc", "a_gc"]},
        "another axis set registered": {kx: ["dx_c"]},
    }
    batches = [("b_cc",), ("a_gg",), ("a_cg", "a_gg"), ("b_cc", "a_gg"), ("a_gg", "b_cc"), ("b_gc", "b_cc", "a_gg"), ("a_gg", "a_cg", "b_gc")]
    n = 0
    problems = []
    OMIT = object()
    # a second family under the single axis AX: 1-D and 2-D spacings side by side (a variable's dimensions may be a strict
    # subset of another's in the same axis set - they are different slots)
    initials_x = {"a 2-D spacing registered (one axis)": {kx: ["dx2_c"]}, "1-D and 2-D spacings registered (one axis)": {kx: ["dx_c", "dx2_c"]}}
    batches_x = [("dx_c",), ("dx2_g", "dx_c"), ("dx_g", "dx2_c"), ("dx_c", "dx_g")]
    work = [((AX, AY), kxy, i, b, o) for i, b, o in itertools.product(initials.items(), batches, (False, True, OMIT))]
    work += [((AX,), kx, i, b, o) for i, b, o in itertools.product(initials_x.items(), batches_x, (False, True))]
    for key_t, key_f, (iname, init), batch, overwrite in work:
        if overwrite is OMIT and iname not in ("one variable registered", "empty registry"):
            continue
        inst = f"{iname}, register {list(batch)}, overwrite={'not given' if overwrite is OMIT else overwrite}"

        def make():
            ds = Obj("Dataset", "grid_ds", (), {"variables": list(pool), "data_vars": list(pool)})
            g = make_grid(("AX", "AY"), ds=ds)
            # what is registered already went through registration: its coordinates are dropped
            g.attrs["_metrics"] = {k: [var(v, (("reset_coords", (("drop", True),)),)) for v in vs] for k, vs in init.items()}
            val = list(batch) if len(batch) > 1 else batch[0]
            a = dict(self=g, key=key_t, value=val, overwrite=overwrite)
            if overwrite is OMIT:
                del a["overwrite"]  # the caller does not mention it: an occupied slot must then be refused
            return a

        ev = Evaluator(P, method_models=ds_models())
        try:
            outs = ev.run_paths(fi, make)
        except Unmodelled as e:
            ctx.unknown("R16.3", inst, str(e))
            continue
        want_reg, want_kind = reference(init, key_f, batch, False if overwrite is OMIT else overwrite)
        n += 1
        for o in outs:
            g = o.env.get("self")
            reg = g.attrs.get("_metrics") if isinstance(g, Obj) else None
            got = {k: [getattr(v, "name", repr(v)) for v in vs] for k, vs in reg.items()} if isinstance(reg, dict) else reg
            kind = "raise" if o.kind == "raise" else "return"
            if kind != want_kind:
                problems.append((inst, f"{'is refused (' + str(o.value) + ')' if kind == 'raise' else 'is accepted'}; registering one variable at a time, in order, {'is refused at the occupied slot' if want_kind == 'raise' else 'succeeds'}"))
            elif isinstance(reg, dict) and any(isinstance(v, Obj) and v.name in batch and not any(e[0] == "reset_coords" and dict(e[1]).get("drop") is True for e in v.eff)
                                               for vs in reg.values() for v in vs):
                problems.append((inst, "a variable is registered without dropping its non-index coordinates (reset_coords(drop=True)): a metric carrying coordinates does not broadcast cleanly against data"))
            elif got != want_reg:
                show = lambda r: {tuple(sorted(x.name for x in k)): v for k, v in r.items()} if isinstance(r, dict) else r
                problems.append((inst, f"registry afterwards is {show(got)}; registering one variable at a time, in order, gives {show(want_reg)}"))
    for inst, msg in problems[:6]:
        ctx.report("R16.3", fi, inst, msg)
    if not problems:
        ctx.ok("R16.3", f"registry table: {n} (initial registry, batch, overwrite) cases", "final registry = one-at-a-time reference on returning and refusing paths")
    ctx.floor("R16.3", "registry table cases", n, 40)


def _reaches(cfg, a, b, avoid):
    seen = {a}
    st = [a]
    while st:
        q = st.pop()
        for r in cfg.succ[q]:
            if r == b:
                return True
            if r not in seen and r not in avoid:
                seen.add(r)
                st.append(r)
    return False


def _is_dimset_equality(t) -> bool:
    if not (isinstance(t, ast.Compare) and len(t.ops) == 1 and isinstance(t.ops[0], ast.Eq)):
        return False

    def dimset(e):
        return isinstance(e, ast.Call) and isinstance(e.func, ast.Name) and e.func.id in ("set", "frozenset") and len(e.args) == 1 and \
            isinstance(e.args[0], ast.Attribute) and e.args[0].attr == "dims"

    return dimset(t.left) and dimset(t.comparators[0])


def _if_of(fn, test):
    for n in own_nodes(fn):
        if isinstance(n, ast.If) and n.test is test:
            return n
    return test


def _same_block(fn, a, b) -> bool:
    """a and b are statements of the same statement list."""
    sa, sb = stmt_of(fn, a) or a, stmt_of(fn, b) or b
    for n in [fn] + list(own_nodes(fn)):
        for f in ("body", "orelse", "finalbody"):
            blk = getattr(n, f, None)
            if isinstance(blk, list) and sa in blk and sb in blk:
                return True
    return False

TECHNIQUE = "reaching definitions + CFG reachability + who-may-write scan (ast) + abstract evaluation of set_metrics on modelled registries"
LEVEL_TEXT = (
    "Static analysis of the registry writers on the current source: (R16.1) every value set_metrics stores into the registry is fed, by reaching "
    "definitions, from the target of an enclosing loop over the `value` argument - a loop target used after its loop (the defect that registered only "
    "the last variable of a list) is reported; (R16.2) no store can precede the overwrite=False refusal within one iteration; (R16.3) set_metrics is "
    "interpreted abstractly on modelled registries for 56 (registry, batch, overwrite) cases and leaves, on returning and refusing paths, exactly the "
    "registry that registering the variables one at a time in order leaves (slot = same set of dims; replace in place under overwrite, refuse otherwise, "
    "append when free); (R16.4) no function other than __init__/set_metrics stores into `_metrics` (all functions scanned); "
    "(R16.5) the constructor registers every entry through set_metrics. This decides the structure that makes batching irrelevant for every call "
    "history; it does not execute histories, so equivalence of final registries is claimed only through these necessary conditions."
    " A query, a registration and the same query again (one interpreted sequence) answer from the final registry; 1-D and 2-D metrics of one axis set are different slots."
)
LEVEL_NOTE = "Trusted: CPython ast; xarray's Dataset.__getitem__/reset_coords; no reflection writes the registry. Behaviour over concrete call histories is not executed."
