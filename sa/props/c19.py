"""C19 - outputs are labelled with the grid's coordinates for the new position (structural part).

  R19.1 must-pass-through - every array returned by apply_as_grid_ufunc (pad-before and pad-after paths, one or
        several outputs) and by Grid.cumsum comes out of _reattach_coords(grid=the same grid,
        keep_coords=the caller's);
  R19.2 _reattach_coords  - evaluated abstractly on a modelled dataset: exactly the coordinates of grid._ds whose
        dimensions all occur in the result are assigned (so the new dimension gets the grid's coordinate of the
        target position and nothing defined on the abandoned dimension is attached); non-dimension coordinates
        are dropped exactly when keep_coords is false;
  R19.3 stripping         - on every padding path pad() strips all coordinates (including index coordinates)
        from the data before padding;
  R19.4 cumsum path       - for every shift: the coordinate state of the result just before re-attaching, computed
        from the lineage (rename / drop_vars / reset_coords / reset_index / padding semantics), holds no
        index coordinate of the abandoned position (under either name) and no non-index coordinate.
  R19.5 name lineage      - xarray names the result of apply_ufunc after the (common) name of its array arguments, so the
        input's name survives only if every array handed to xr.apply_ufunc is the caller's array carried through
        DataArray methods: not re-wrapped in a new, unnamed DataArray and not renamed (apply path incl. the
        boundary-chunk merge; necessary condition for "keeps the input's name"); Grid.cumsum likewise up to its return;
  R19.7 the dataset       - the coordinates come from the dataset given at construction: only Grid.__init__ binds
        `Grid._ds` (who-may-write scan over all functions; a later `self._ds = self._ds.set_coords(...)` changes which
        variables count as coordinates of every later result);
  R19.6 keep_coords       - a multi-axis operation hands the caller's keep_coords to the ufunc of every axis (the last
        call decides which coordinates the result carries).
Coordinate values/attributes are produced by xarray (not decided); for the name only the lineage condition R19.5 is.
"""
from __future__ import annotations

import copy

from ..absint import TOP, Evaluator, Obj, Sym, Unmodelled
from ..harness import BecomesDataset, coord_tracking_models, run_apply
from ..xmodel import dimsym, make_da, make_grid
from .c02 import run_pad
from .c09 import _run_cumsum

EXPLANATION = (
    "Abstract evaluation of apply_as_grid_ufunc and Grid.cumsum (every returned array ends in _reattach_coords with the "
    "grid and the caller's keep_coords), of _reattach_coords on a modelled dataset with 0-D/1-D/N-D coordinates on mixed "
    "positions, of pad() (coordinate stripping on both padding paths) and of _strip_all_coords."
)
ASSUMPTIONS = ["xarray.assign_coords/drop_vars/reset_coords/reset_index behave as documented", "apply_ufunc labels outputs by output_core_dims (C11)"]
TECHNIQUE = "must-pass-through and filter extraction by abstract evaluation"
LEVEL_TEXT = (
    "Decided on the source: every result of a shifting operation passes through _reattach_coords with the same grid and the caller's keep_coords; that "
    "function attaches exactly the grid dataset's coordinates whose dimensions fit the result (hence the target position's coordinate, never one on the "
    "abandoned dimension) and drops non-dimension coordinates iff keep_coords is false; padding always works on coordinate-stripped data; on the cumsum path the array "
    "handed to _reattach_coords has the target dimension's name and carries no coordinate of the abandoned position (coordinates tracked through xarray's coordinate API). Coordinate values, attributes and the result's name are xarray's doing (not decided)."
    " Also decided: the arrays handed to xarray.apply_ufunc are the caller's, carried by DataArray methods (necessary for keeping the name); a multi-axis operation hands keep_coords to every axis; only the constructor binds the grid's dataset."
)
LEVEL_TEXT += " Also decided: _reattach_coords evaluated as apply_as_grid_ufunc calls it (padded, zero widths, no widths) puts the grid's coordinates on every dimension of the result."
LEVEL_NOTE = "Trusted: xarray coordinate API. The behavioural clauses on values/attrs/name are outside static reach."

AX, AY = Sym("AX"), Sym("AY")


def check(ctx):
    P = ctx.project
    _pass_through(ctx, P)
    _reattach(ctx, P)
    _strip(ctx, P)
    _name_lineage(ctx, P)
    _keep_coords_every_axis(ctx, P)
    _dataset_owner(ctx, P)


def _pass_through(ctx, P):
    fi = P.func("grid_ufunc:apply_as_grid_ufunc")
    cases = [
        ("one output, pad before", "(X:center)->(X:left)", True),
        ("one output, pad after", "(X:center)->(X:outer)", False),
        ("two outputs", "(X:center)->(X:left),(X:right)", True),
        ("output without core dims", "(X:center)->()", True),
    ]
    for name, sig, before in cases:
        try:
            outs = run_apply(P, sig, [(AX,)], boundary_width={"X": (1, 0)}, pad_before_func=before)
        except Unmodelled as e:
            ctx.unknown("R19.1", name, str(e))
            continue
        bad = None
        for o in outs:
            if o.kind != "return":
                bad = f"raises {o.value}"
                continue
            vals = list(o.value) if isinstance(o.value, (list, tuple)) else [o.value]
            g = o.env.get("grid")
            for v in vals:
                ra = [e for e in (v.eff if isinstance(v, Obj) else ()) if e[0] == "REATTACH"]
                tail = [e[0] for e in v.eff[v.eff.index(ra[-1]) + 1:]] if ra else []
                if not ra or any(op not in ("transpose", "copy", "astype", "chunk", "squeeze") for op in tail):  # the tail may not touch coordinates
                    bad = f"a returned array does not come out of _reattach_coords ({v!r})"
                elif ra[-1][1] is not g or ra[-1][2] != Sym("USER_KEEP"):
                    bad = "coordinates are re-attached from another grid / with a keep_coords other than the caller's"
        if bad:
            ctx.report("R19.1", fi, f"apply_as_grid_ufunc, {name}", bad)
        else:
            ctx.ok("R19.1", f"apply_as_grid_ufunc, {name}", "returned through _reattach_coords(grid, keep_coords)")
    # cumsum path
    cfi = P.func("grid:Grid.cumsum")
    for fr, to in (("center", "outer"), ("center", "right"), ("center", "left"), ("left", "center"), ("right", "center"), ("outer", "center"), ("inner", "center")):
        name = f"cumsum {fr}->{to}"
        try:
            outs = _run_cumsum(P, fr, to)
        except Unmodelled as e:
            ctx.unknown("R19.1", name, str(e))
            continue
        bad = None
        for o in outs:
            v = o.value
            ops = [e[0] for e in v.eff] if isinstance(v, Obj) else []
            if o.kind != "return" or "REATTACH" not in ops:
                bad = "the result of cumsum does not pass through _reattach_coords"
                continue
            i = ops.index("REATTACH")
            if v.eff[i][1] is not o.env.get("self") or v.eff[i][2] != Sym("USER_KEEP"):
                bad = "cumsum re-attaches coordinates from another grid / ignores keep_coords"
            after = [op for op in ops[i + 1:] if op not in ("transpose", "copy", "astype", "chunk", "squeeze")]  # these do not touch coordinates
            if after:
                bad = bad or f"operations {after} follow the re-attachment"
            inst = f"{name}: no stale coordinate reaches the re-attachment"
            # what is handed to _reattach_coords: the coordinates the array still carries (tracked through xarray's
            # coordinate API from an input with an index coordinate per dimension and a non-index one on the shifted dimension)
            handed = [e[3] for e in o.events if e[0] == "reattach"]
            arr = handed[-1][0] if handed and isinstance(handed[-1], (list, tuple)) and handed[-1] else None
            if not isinstance(arr, Obj) or "coords" not in arr.attrs:
                ctx.unknown("R19.4", inst, f"the array handed to _reattach_coords is {arr!r}")
                continue
            old_dim, new_dim = dimsym("AX", fr), dimsym("AX", to)
            left = arr.attrs["coords"]
            problems = []
            if new_dim not in arr.attrs.get("dims", ()):
                problems.append(f"the shifted dimension is not called {new_dim!r} when the grid's coordinates are attached (dims {arr.attrs.get('dims')})")
            stale = [k for k, v in left.items() if k in (old_dim, new_dim) or old_dim in v or new_dim in v]
            if stale:
                problems.append(f"coordinate(s) {sorted(map(repr, stale))} of the abandoned position survive on the shifted dimension (a dataset without a coordinate for the target position does not overwrite them)")
            if problems:
                ctx.report("R19.4", cfi, inst, f"operations before re-attaching are {ops[:i]}: " + "; ".join(problems))
            else:
                ctx.ok("R19.4", inst, "shifted dimension renamed; no coordinate of the abandoned position is left on it")
        if bad:
            ctx.report("R19.1", cfi, name, bad)
        else:
            ctx.ok("R19.1", name, "returned through _reattach_coords(grid, keep_coords)")


def _reattach(ctx, P):
    fi = P.func("grid_ufunc:_reattach_coords")
    XL, XC, YC, T = dimsym("AX", "left"), dimsym("AX", "center"), dimsym("AY", "center"), Sym("t")

    def coord(name, dims):
        return Obj("DataArray", name, (), {"dims": tuple(dims), "__isinstance__": ("DataArray",)})

    ds_coords = {
        XL: coord("XL", [XL]), XC: coord("XC", [XC]), YC: coord("YC", [YC]), T: coord("T", [T]),
        Sym("scalar"): coord("scalar", []), Sym("lon_at_left"): coord("lon_at_left", [YC, XL]), Sym("lon_at_center"): coord("lon_at_center", [YC, XC]),
        Sym("depth_t"): coord("depth_t", [T, YC]), Sym("other"): coord("other", [Sym("unrelated_dim")]),
    }
    res_dims = (T, YC, XL)
    want_assigned = {XL, YC, T, Sym("scalar"), Sym("lon_at_left"), Sym("depth_t")}
    want_nondim = {Sym("scalar"), Sym("lon_at_left"), Sym("depth_t")}

    def models():
        def assign_coords(ev, recv, args, kw, node):
            m = args[0] if args else kw
            cur = dict(recv.attrs.get("coords", {}))
            cur.update(m)
            return recv.with_eff(("assign_coords", dict(m)), coords=cur)

        def drop_vars(ev, recv, args, kw, node):
            names = list(args[0]) if args and not isinstance(args[0], (Sym, str)) else list(args)
            cur = {k: v for k, v in recv.attrs.get("coords", {}).items() if k not in names}
            return recv.with_eff(("drop_vars", names), coords=cur)

        return {("DataArray", "assign_coords"): assign_coords, ("DataArray", "drop_vars"): drop_vars}

    from ..absint import BoundMethod

    def from_grid(k, val):
        """val is the grid dataset's coordinate k: the object itself, its .variable, or a copy of it."""
        src = ds_coords.get(k)
        if src is None:
            return False
        if val is src:
            return True
        if isinstance(val, BoundMethod) and val.recv is src and val.name in ("variable", "_variable"):
            return True
        if isinstance(val, Obj) and val.name == src.name and all(e[0] in ("copy", "reset_coords") for e in val.eff):
            return True
        return False

    # what the array handed to _reattach_coords may already carry: nothing (padded paths strip everything), or, on an
    # unpadded path, what apply_ufunc passed through from the input on the untouched dimensions
    carried = {
        "coordinate-free result": {},
        "result carrying the input's coordinates on untouched dimensions": {k: ds_coords[k] for k in (T, YC, Sym("scalar"), Sym("depth_t"))},
    }
    for keep in (True, False):
      for cname, pre in carried.items():
        inst = f"_reattach_coords, keep_coords={keep}, {cname}"
        ev = Evaluator(P, method_models=models(), attr_models={("DataArray", "coords"): lambda ev, o, n: dict(o.attrs.get("coords", {}))},
                       models={"warnings.warn": lambda ev, a, k, n: None})

        def make():
            g = make_grid(("AX", "AY"), ds=Obj("Dataset", "grid_ds", (), {"coords": dict(ds_coords)}))
            res = make_da("res", res_dims, coords=dict(pre))
            return dict(results=[res], grid=g, boundary_width={"AX": (1, 0)}, keep_coords=keep)

        try:
            outs = ev.run_paths(fi, make)
        except Unmodelled as e:
            ctx.unknown("R19.2", inst, str(e))
            continue
        bad = None
        for o in outs:
            if o.kind != "return" or not isinstance(o.value, list) or len(o.value) != 1:
                bad = f"{o.kind} {o.value!r}"
                continue
            v = o.value[0]
            got = set(v.attrs.get("coords", {}))
            want = want_assigned if keep else (want_assigned - want_nondim)
            if got != want:
                extra, missing = got - want, want - got
                bad = f"result carries coordinates {sorted(map(repr, got))}; " + (f"unexpected {sorted(map(repr, extra))} " if extra else "") + (f"missing {sorted(map(repr, missing))} " if missing else "") + \
                    "(exactly the grid dataset's coordinates whose dimensions all occur in the result" + ("" if keep else ", minus non-dimension coordinates since keep_coords is false") + ")"
            else:
                foreign = [k for k, val in v.attrs.get("coords", {}).items() if not from_grid(k, val)]
                if foreign:
                    bad = f"coordinate(s) {sorted(map(repr, foreign))} of the result are not the grid dataset's"
        if bad:
            ctx.report("R19.2", fi, inst, bad)
        else:
            ctx.ok("R19.2", inst, "grid coordinates that fit the result" + ("" if keep else ", non-dimension coordinates dropped"))
    _reattach_every_result(ctx, P, fi, models, ds_coords, res_dims, want_assigned)
    # ... and as apply_as_grid_ufunc calls it (whatever it hands over besides the results): on the padded and on the unpadded path
    # a result that carries nothing comes back with the grid's coordinates on *all* its dimensions, not only on the new one
    from ..harness import apply_attr_models, apply_models, da_method_models

    afi = P.func("grid_ufunc:apply_as_grid_ufunc")
    for keep in (True, False):
        for pname, bw in (("no boundary_width (nothing is padded)", None), ("zero widths", {"X": (0, 0)}), ("padded", {"X": (1, 0)})):
            inst = f"apply_as_grid_ufunc -> _reattach_coords, keep_coords={keep}, {pname}"
            mods = {k: v for k, v in apply_models().items() if k != "grid_ufunc:_reattach_coords"}
            mods["warnings.warn"] = lambda ev, a, k, n: None
            mm = dict(da_method_models())
            mm.update(models())
            am = apply_attr_models()
            am[("DataArray", "coords")] = lambda ev, o, n: dict(o.attrs.get("coords", {}))
            ev = Evaluator(P, models=mods, method_models=mm, attr_models=am)

            def make():
                g = make_grid(("AX", "AY"), ds=Obj("Dataset", "grid_ds", (), {"coords": dict(ds_coords)}))
                return dict(func=Obj("func", "userfunc"), args=(make_da("da", [T, XC]),), axis=[(AX,)], grid=g, signature="(X:center)->(X:left)", boundary_width=copy.deepcopy(bw),
                            boundary="extend", fill_value=None, keep_coords=keep, dask="forbidden", map_overlap=False, pad_before_func=True, other_component=None, kwargs={})

            try:
                outs = ev.run_paths(afi, make)
            except Unmodelled as e:
                ctx.unknown("R19.2", inst, str(e))
                continue
            bad = None
            want = {XL, T, Sym("scalar")} if keep else {XL, T}
            for o in outs:
                v = o.value
                if o.kind != "return" or not isinstance(v, Obj):
                    bad = f"{o.kind} {o.value!r}"
                    continue
                got = set(v.attrs.get("coords", {}))
                if got != want:
                    extra, missing = got - want, want - got
                    bad = (f"the result (dimensions t and the new X position) carries coordinates {sorted(map(repr, got))}; " + (f"unexpected {sorted(map(repr, extra))} " if extra else "") +
                           (f"missing {sorted(map(repr, missing))} " if missing else "") + "(the grid dataset's coordinates whose dimensions all occur in the result" + ("" if keep else ", minus non-dimension ones") + ")")
            if bad:
                ctx.report("R19.2", afi, inst, bad)
            else:
                ctx.ok("R19.2", inst, "grid coordinates on every dimension of the result")


def _reattach_every_result(ctx, P, fi, models, ds_coords, res_dims, want_assigned):
    """R19.2 for a grid ufunc with several outputs: every result comes back, in order, each with the grid's coordinates."""
    inst = "_reattach_coords, two results"
    ev = Evaluator(P, method_models=models(), attr_models={("DataArray", "coords"): lambda ev, o, n: dict(o.attrs.get("coords", {}))},
                   models={"warnings.warn": lambda ev, a, k, n: None})

    def make():
        g = make_grid(("AX", "AY"), ds=Obj("Dataset", "grid_ds", (), {"coords": dict(ds_coords)}))
        return dict(results=[make_da("res1", res_dims, coords={}), make_da("res2", res_dims, coords={})], grid=g, boundary_width={"AX": (1, 0)}, keep_coords=True)

    try:
        outs = ev.run_paths(fi, make)
    except Unmodelled as e:
        ctx.unknown("R19.2", inst, str(e))
        return
    bad = None
    for o in outs:
        if o.kind != "return" or not isinstance(o.value, (list, tuple)):
            bad = f"{o.kind} {o.value!r}"
        elif [getattr(v, "name", None) for v in o.value] != ["res1", "res2"]:
            bad = f"{[getattr(v, 'name', None) for v in o.value]} come back for the results [res1, res2]: every output of the ufunc must be labelled and returned, in order"
        elif any(set(v.attrs.get("coords", {})) != want_assigned for v in o.value):
            bad = "not every result carries the grid's coordinates"
    if bad:
        ctx.report("R19.2", fi, inst, bad)
    else:
        ctx.ok("R19.2", inst, "both labelled, in order")


def _strip(ctx, P):
    """R19.3: whatever spelling pad() uses to strip, the array handed to the basic / face padding carries no coordinate."""
    padfi = P.func("padding:pad")
    from ..facepad import FACE, table_for
    from ..harness import da_attr_models, da_method_models

    t, yc, xc = Sym("t"), dimsym("AY", "center"), dimsym("AX", "center")
    for name, face in (("basic padding", False), ("face-connection padding", True)):
        for carried in ("index and non-index coordinates", "non-index coordinates only", "index coordinates only"):
            inst = f"pad(): {carried} stripped before {name}"
            dims = [t] + ([FACE] if face else []) + [yc, xc]
            coords = {}
            if "non-index" in carried:
                coords.update({Sym("lon"): (yc, xc), Sym("scalar"): (), Sym("depth"): (t,)})
            if carried != "non-index coordinates only":
                coords.update({d: (d,) for d in dims})
            calls = []

            def m_pad_basic(ev, args, kw, node):
                calls.append(args[0] if args else kw.get("da"))
                d = calls[-1]
                return d.with_eff(("PAD_BASIC",)) if isinstance(d, Obj) else TOP

            def m_pad_fc(ev, args, kw, node):
                d = args[0] if args else kw.get("da")
                if isinstance(d, dict) and len(d) == 1:
                    (d,) = d.values()
                calls.append(d)
                return d.with_eff(("PAD_FACE",)) if isinstance(d, Obj) else TOP

            mm, am = coord_tracking_models()
            mm = {**da_method_models(), **mm}
            am = {**da_attr_models(), **am}
            ev = Evaluator(P, models={"padding:_pad_basic": m_pad_basic, "padding:_pad_face_connections": m_pad_fc}, attr_models=am, method_models=mm)

            def make():
                g = make_grid(("AX", "AY"), face_connections=table_for(True, False, False), facedim=FACE, boundary="fill", fill_value=0.0) if face else make_grid(("AX", "AY"), boundary="fill", fill_value=0.0)
                return dict(data=make_da("da", dims, coords=dict(coords)), grid=g, boundary_width={AX: (1, 1)}, boundary=None, fill_value=None, other_component=None)

            try:
                outs = ev.run_paths(padfi, make)
            except BecomesDataset as e:
                ctx.report("R19.3", padfi, inst, f"the coordinates are not dropped but turned into data variables: {e} - the padding receives a Dataset holding them instead of the stripped array")
                continue
            except Unmodelled as e:
                ctx.unknown("R19.3", inst, str(e))
                continue
            bad = None
            if not calls:
                bad = "nothing is padded"
            for d in calls:
                left = sorted(map(repr, d.attrs.get("coords", {}))) if isinstance(d, Obj) else None
                if left is None:
                    bad = f"the padding receives {d!r}"
                elif left:
                    idx = [c for c in d.attrs["coords"] if c in d.attrs.get("dims", ())]
                    bad = f"the data reaches the padding still carrying coordinates {left}" + (" (index coordinates survive the stripping)" if idx and len(idx) == len(left) else "")
            if bad:
                ctx.report("R19.3", padfi, inst, bad)
            else:
                ctx.ok("R19.3", inst, "no coordinate left on the array that is padded")


NAME_LOSING = {"new-DataArray": "re-wrapped in a new, unnamed DataArray", "rename-name": "renamed", "to_dataset": "turned into a dataset"}


def _name_loss(v, root):
    """Why the array `v` no longer carries the name of the caller's array `root` (None if it does)."""
    if not isinstance(v, Obj) or v.kind != "DataArray" or v.name != root:
        return f"{v!r} is not the caller's array"
    for e in v.eff:
        if e[0] == "new-DataArray" and e[1] is not None and e[1] == Sym("name_of_" + root):
            continue  # re-wrapped with name=<the array's own name>
        if e[0] in NAME_LOSING:
            return f"the array is {NAME_LOSING[e[0]]} on its way ({'.'.join(str(x[0]) for x in v.eff)})"
        if e[0] == "rename" and len(e) > 1 and e[1] and not isinstance(e[1][0], dict):
            if v.attrs.get("name") is not None and e[1][0] == v.attrs.get("name") or e[1][0] == Sym("name_of_" + root):
                continue  # renamed to its own name
            return f"the array is renamed to {e[1][0]!r}"
    return None


def _name_lineage(ctx, P):
    from .c06 import run_merge_all

    fi = P.func("grid_ufunc:apply_as_grid_ufunc")
    for name, sig, before in (("pad before", "(X:center)->(X:left)", True), ("pad after", "(X:center)->(X:outer)", False), ("two inputs", "(X:center),(X:center)->(X:left)", True)):
        inst = f"arrays handed to xr.apply_ufunc, {name}"
        two = sig.count("),(") == 1 and sig.index("),(") < sig.index("->")
        try:
            outs = run_apply(P, sig, [(AX,), (AX,)] if two else [(AX,)], boundary_width={"X": (1, 0)}, pad_before_func=before,
                             args=(lambda: (make_da("da", [Sym("t"), dimsym("AX", "center")]), make_da("db", [Sym("t"), dimsym("AX", "center")]))) if two else None)
        except Unmodelled as e:
            ctx.unknown("R19.5", inst, str(e))
            continue
        bad, seen = None, 0
        for o in outs:
            for e in o.events:
                if e[0] != "xr.apply_ufunc":
                    continue
                seen += 1
                data = list(e[1][1:])
                roots = ["da", "db"] if two else ["da"]
                if len(data) != len(roots):
                    bad = bad or f"{len(data)} array(s) reach xr.apply_ufunc for {len(roots)} input(s)"
                    continue
                for v, root in zip(data, roots):
                    bad = bad or _name_loss(v, root)
        if not seen:
            ctx.unknown("R19.5", inst, "xr.apply_ufunc is never reached")
        elif bad:
            ctx.report("R19.5", fi, inst, bad + ": xarray names the result after its arguments, so the input's name is lost")
        else:
            ctx.ok("R19.5", inst, "the caller's arrays, carried through DataArray methods only")
    inst = "arrays returned by the boundary-chunk merge"
    try:
        mfi, _dim, _chunks, outs = run_merge_all(P)
        bad = None
        for o in outs:
            if o.kind != "return" or not isinstance(o.value, (list, tuple)) or len(o.value) != 2:
                ctx.unknown("R19.5", inst, f"{o.kind} {o.value!r}")
                break
            for v, root in zip(o.value, ("pa", "pb")):
                bad = bad or _name_loss(v, root)
        else:
            if bad:
                ctx.report("R19.5", mfi, inst, bad + ": the merged array loses the name of the input, and with it the result of diff/interp/min/max on chunked data")
            else:
                ctx.ok("R19.5", inst, "the padded arrays themselves, re-chunked")
    except Unmodelled as e:
        ctx.unknown("R19.5", inst, str(e))
    # the 1-D dispatch (diff / interp / min / max), for a plain array and for a vector component given as {axis: component}
    from ..harness import run_dispatch

    dfi = P.func("grid:Grid._1d_grid_ufunc_dispatch")
    for as_vec in (False, True):
        inst = f"dispatch: lineage of the result, {'vector component' if as_vec else 'plain array'} input"
        try:
            outs = run_dispatch(P, "interp", {"AX": "left"} if as_vec else {"AX": "center"}, "center" if as_vec else "left", data_as_vector=as_vec,
                                dims=[Sym("t"), dimsym("AX", "left" if as_vec else "center")])
        except Unmodelled as e:
            ctx.unknown("R19.5", inst, str(e))
            continue
        bad = None
        for o in outs:
            if o.kind == "return":
                bad = bad or _name_loss(o.value, "da")
        if bad:
            ctx.report("R19.5", dfi, inst, bad + ": the input's name is lost")
        else:
            ctx.ok("R19.5", inst, "the caller's array, carried through the per-axis ufunc and DataArray methods only")
    cfi = P.func("grid:Grid.cumsum")
    for fr, to in (("center", "outer"), ("center", "left"), ("left", "center"), ("outer", "center")):
        inst = f"cumsum {fr}->{to}: lineage of the result"
        try:
            outs = _run_cumsum(P, fr, to)
        except Unmodelled as e:
            ctx.unknown("R19.5", inst, str(e))
            continue
        bad = None
        for o in outs:
            if o.kind == "return":
                bad = bad or _name_loss(o.value, "da")
        if bad:
            ctx.report("R19.5", cfi, inst, bad + ": the input's name is lost")
        else:
            ctx.ok("R19.5", inst, "the caller's array, carried through DataArray methods only")


def _keep_coords_every_axis(ctx, P):
    from ..harness import run_dispatch

    fi = P.func("grid:Grid._1d_grid_ufunc_dispatch")
    for axes in ((AX, AY), (AY, AX)):
        inst = f"dispatch over {[str(a) for a in axes]}: keep_coords of every per-axis call"
        try:
            outs = run_dispatch(P, "diff", {"AX": "center", "AY": "center"}, "left", axnames=("AX", "AY"), axis_arg=list(axes))
        except Unmodelled as e:
            ctx.unknown("R19.6", inst, str(e))
            continue
        except TypeError as e:
            ctx.unknown("R19.6", inst, f"harness: {e}")
            continue
        bad, n = None, 0
        for o in outs:
            if o.kind != "return":
                continue
            calls = [e for e in o.events if e[0] == "ufunc"]
            n = max(n, len(calls))
            for i, e in enumerate(calls):
                kc = e[4].get("keep_coords") if isinstance(e[4], dict) else None
                if kc != Sym("USER_KEEP"):
                    bad = bad or f"the call for axis #{i + 1} gets keep_coords={kc!r} instead of the caller's value: the coordinates of the result are decided by the last call"
        if n < 2:
            ctx.unknown("R19.6", inst, f"{n} per-axis call(s) seen")
        elif bad:
            ctx.report("R19.6", fi, inst, bad)
        else:
            ctx.ok("R19.6", inst, "the caller's keep_coords on every axis")


def _dataset_owner(ctx, P):
    import ast

    from ..core import norm, own_nodes

    from ..callgraph import CallGraph

    cg = CallGraph(P)
    callers = {}
    for q0, outs_ in cg.edges.items():
        for callee in outs_:
            callers.setdefault(callee, set()).add(q0)

    def ctor_only(q, seen=()):
        """Grid.__init__ itself, or a helper that (transitively) only the constructor calls."""
        if q == "grid:Grid.__init__":
            return True
        cs = callers.get(q, set()) - {q}
        name = q.rsplit(".", 1)[-1].split(":")[-1]
        if not cs or q in seen or not name.startswith("_") or name.startswith("__"):
            return False  # a public method can be called by anybody
        return all(ctor_only(c, seen + (q,)) for c in cs)

    n = 0
    bad = False
    for q, f in P.functions.items():
        n += 1
        if ctor_only(q):
            continue
        for node in own_nodes(f.node):
            tgts = node.targets if isinstance(node, ast.Assign) else [node.target] if isinstance(node, (ast.AugAssign, ast.AnnAssign)) else []
            for t in tgts:
                for sub in ast.walk(t):
                    if isinstance(sub, ast.Attribute) and sub.attr == "_ds" and isinstance(sub.ctx, ast.Store):
                        bad = True
                        ctx.report("R19.7", f, norm(node, 120), f"{q} re-binds the grid's dataset (`{norm(node, 80)}`): the coordinates attached to every later result are taken from it, "
                                   "so they no longer are the coordinates of the dataset the Grid was built from", node)
            if isinstance(node, ast.Call) and isinstance(node.func, ast.Name) and node.func.id == "setattr" and len(node.args) >= 2 and isinstance(node.args[1], ast.Constant) and node.args[1].value == "_ds":
                bad = True
                ctx.report("R19.7", f, norm(node, 120), f"{q} re-binds the grid's dataset through setattr", node)
    if not bad:
        ctx.ok("R19.7", f"{n} functions scanned for writes of Grid._ds", "only Grid.__init__ binds the dataset")
