"""C19 - outputs are labelled with the grid's coordinates for the new position (structural part).

  R19.1 must-pass-through - every array returned by apply_as_grid_ufunc (pad-before and pad-after paths, one or
        several outputs) and by Grid.cumsum comes out of _reattach_coords(grid=the same grid,
        keep_coords=the caller's);
  R19.2 _reattach_coords  - evaluated abstractly on a modelled dataset: exactly the coordinates of grid._ds whose
        dimensions all occur in the result are assigned (so the new dimension gets the grid's coordinate of the
        target position and nothing defined on the abandoned dimension is attached); non-dimension coordinates
        are dropped exactly when keep_coords is false;
  R19.3 stripping         - on every padding path pad() strips all coordinates (including index coordinates)
        from the data before padding;
  R19.4 cumsum path       - the old dimension is renamed to the target position's dimension and all coordinates
        are dropped before re-attaching.
Coordinate values/attributes and the name of the result are produced by xarray (not decided).
"""
from __future__ import annotations

from ..absint import TOP, Evaluator, Obj, Sym, Unmodelled
from ..harness import run_apply
from ..xmodel import dimsym, make_da, make_grid
from .c02 import run_pad
from .c09 import _run_cumsum

EXPLANATION = (
    "Abstract evaluation of apply_as_grid_ufunc and Grid.cumsum (every returned array ends in _reattach_coords with the "
    "grid and the caller's keep_coords), of _reattach_coords on a modelled dataset with 0-D/1-D/N-D coordinates on mixed "
    "positions, of pad() (coordinate stripping on both padding paths) and of _strip_all_coords."
)
ASSUMPTIONS = ["xarray.assign_coords/drop_vars/reset_coords/reset_index behave as documented", "apply_ufunc labels outputs by output_core_dims (C11)"]
TECHNIQUE = "must-pass-through and filter extraction by abstract evaluation"
LEVEL_TEXT = (
    "Decided on the source: every result of a shifting operation passes through _reattach_coords with the same grid and the caller's keep_coords; that "
    "function attaches exactly the grid dataset's coordinates whose dimensions fit the result (hence the target position's coordinate, never one on the "
    "abandoned dimension) and drops non-dimension coordinates iff keep_coords is false; padding always works on coordinate-stripped data; the cumsum path "
    "renames to the target dimension and drops stale coordinates first. Coordinate values, attributes and the result's name are xarray's doing (not decided)."
)
LEVEL_NOTE = "Trusted: xarray coordinate API. The behavioural clauses on values/attrs/name are outside static reach."

AX, AY = Sym("AX"), Sym("AY")


def check(ctx):
    P = ctx.project
    _pass_through(ctx, P)
    _reattach(ctx, P)
    _strip(ctx, P)


def _pass_through(ctx, P):
    fi = P.func("grid_ufunc:apply_as_grid_ufunc")
    cases = [
        ("one output, pad before", "(X:center)->(X:left)", True),
        ("one output, pad after", "(X:center)->(X:outer)", False),
        ("two outputs", "(X:center)->(X:left),(X:right)", True),
        ("output without core dims", "(X:center)->()", True),
    ]
    for name, sig, before in cases:
        try:
            outs = run_apply(P, sig, [(AX,)], boundary_width={"X": (1, 0)}, pad_before_func=before)
        except Unmodelled as e:
            ctx.unknown("R19.1", name, str(e))
            continue
        bad = None
        for o in outs:
            if o.kind != "return":
                bad = f"raises {o.value}"
                continue
            vals = list(o.value) if isinstance(o.value, (list, tuple)) else [o.value]
            g = o.env.get("grid")
            for v in vals:
                if not (isinstance(v, Obj) and v.eff and v.eff[-1][0] == "REATTACH"):
                    bad = f"a returned array does not come out of _reattach_coords ({v!r})"
                elif v.eff[-1][1] is not g or v.eff[-1][2] != Sym("USER_KEEP"):
                    bad = "coordinates are re-attached from another grid / with a keep_coords other than the caller's"
        if bad:
            ctx.report("R19.1", fi, f"apply_as_grid_ufunc, {name}", bad)
        else:
            ctx.ok("R19.1", f"apply_as_grid_ufunc, {name}", "returned through _reattach_coords(grid, keep_coords)")
    # cumsum path
    cfi = P.func("grid:Grid.cumsum")
    try:
        outs = _run_cumsum(P, "center", "outer")
        bad = None
        for o in outs:
            v = o.value
            ops = [e[0] for e in v.eff] if isinstance(v, Obj) else []
            if o.kind != "return" or "REATTACH" not in ops:
                bad = "the result of cumsum does not pass through _reattach_coords"
                continue
            i = ops.index("REATTACH")
            if v.eff[i][1] is not o.env.get("self") or v.eff[i][2] != Sym("USER_KEEP"):
                bad = "cumsum re-attaches coordinates from another grid / ignores keep_coords"
            if ops[i + 1:]:
                bad = bad or f"operations {ops[i + 1:]} follow the re-attachment"
            if "rename" not in ops[:i] or "drop_vars" not in ops[:i] or ops.index("rename") > ops.index("drop_vars"):
                ctx.report("R19.4", cfi, "cumsum: rename then drop before re-attaching", f"operations before re-attaching are {ops[:i]}; expected rename to the target dimension, then dropping all coordinates")
            else:
                dv = v.eff[ops.index("drop_vars")]
                ctx.ok("R19.4", "cumsum: rename then drop before re-attaching", "old dimension renamed, stale coordinates dropped")
        if bad:
            ctx.report("R19.1", cfi, "cumsum", bad)
        else:
            ctx.ok("R19.1", "cumsum", "returned through _reattach_coords(grid, keep_coords)")
    except Unmodelled as e:
        ctx.unknown("R19.1", "cumsum", str(e))


def _reattach(ctx, P):
    fi = P.func("grid_ufunc:_reattach_coords")
    XL, XC, YC, T = dimsym("AX", "left"), dimsym("AX", "center"), dimsym("AY", "center"), Sym("t")

    def coord(name, dims):
        return Obj("DataArray", name, (), {"dims": tuple(dims), "__isinstance__": ("DataArray",)})

    ds_coords = {
        XL: coord("XL", [XL]), XC: coord("XC", [XC]), YC: coord("YC", [YC]), T: coord("T", [T]),
        Sym("scalar"): coord("scalar", []), Sym("lon_at_left"): coord("lon_at_left", [YC, XL]), Sym("lon_at_center"): coord("lon_at_center", [YC, XC]),
        Sym("depth_t"): coord("depth_t", [T, YC]), Sym("other"): coord("other", [Sym("unrelated_dim")]),
    }
    res_dims = (T, YC, XL)
    want_assigned = {XL, YC, T, Sym("scalar"), Sym("lon_at_left"), Sym("depth_t")}
    want_nondim = {Sym("scalar"), Sym("lon_at_left"), Sym("depth_t")}

    def models():
        def assign_coords(ev, recv, args, kw, node):
            m = args[0] if args else kw
            cur = dict(recv.attrs.get("coords", {}))
            cur.update(m)
            return recv.with_eff(("assign_coords", dict(m)), coords=cur)

        def drop_vars(ev, recv, args, kw, node):
            names = list(args[0]) if args and not isinstance(args[0], (Sym, str)) else list(args)
            cur = {k: v for k, v in recv.attrs.get("coords", {}).items() if k not in names}
            return recv.with_eff(("drop_vars", names), coords=cur)

        return {("DataArray", "assign_coords"): assign_coords, ("DataArray", "drop_vars"): drop_vars}

    for keep in (True, False):
        inst = f"_reattach_coords, keep_coords={keep}"
        ev = Evaluator(P, method_models=models(), attr_models={("DataArray", "coords"): lambda ev, o, n: dict(o.attrs.get("coords", {}))},
                       models={"warnings.warn": lambda ev, a, k, n: None})

        def make():
            g = make_grid(("AX", "AY"), ds=Obj("Dataset", "grid_ds", (), {"coords": dict(ds_coords)}))
            res = make_da("res", res_dims, coords={})
            return dict(results=[res], grid=g, boundary_width={"AX": (1, 0)}, keep_coords=keep)

        try:
            outs = ev.run_paths(fi, make)
        except Unmodelled as e:
            ctx.unknown("R19.2", inst, str(e))
            continue
        bad = None
        for o in outs:
            if o.kind != "return" or not isinstance(o.value, list) or len(o.value) != 1:
                bad = f"{o.kind} {o.value!r}"
                continue
            v = o.value[0]
            got = set(v.attrs.get("coords", {}))
            want = want_assigned if keep else (want_assigned - want_nondim)
            if got != want:
                extra, missing = got - want, want - got
                bad = f"result carries coordinates {sorted(map(repr, got))}; " + (f"unexpected {sorted(map(repr, extra))} " if extra else "") + (f"missing {sorted(map(repr, missing))} " if missing else "") + \
                    "(exactly the grid dataset's coordinates whose dimensions all occur in the result" + ("" if keep else ", minus non-dimension coordinates since keep_coords is false") + ")"
            else:
                assigned = [e for e in v.eff if e[0] == "assign_coords"]
                if any(val is not ds_coords.get(k) and not (isinstance(val, Obj) and val.name == ds_coords[k].name) for e in assigned for k, val in e[1].items()):
                    bad = "a coordinate is not taken from the grid's dataset"
        if bad:
            ctx.report("R19.2", fi, inst, bad)
        else:
            ctx.ok("R19.2", inst, "grid coordinates that fit the result" + ("" if keep else ", non-dimension coordinates dropped"))


def _strip(ctx, P):
    padfi = P.func("padding:pad")
    from ..facepad import FACE, table_for

    for name, grid in (("basic padding", None), ("face-connection padding", lambda: make_grid(("AX", "AY"), face_connections=table_for(True, False, False), facedim=FACE, boundary="fill", fill_value=0.0))):
        inst = f"pad(): coordinates stripped before {name}"
        try:
            kw = {}
            if grid is not None:
                kw["grid"] = grid
                kw["data"] = lambda: make_da("da", [Sym("t"), FACE, dimsym("AY", "center"), dimsym("AX", "center")])
            outs, calls = run_pad(P, None, None, {AX: (1, 1)}, **kw)
        except Unmodelled as e:
            ctx.unknown("R19.3", inst, str(e))
            continue
        bad = None
        if not calls:
            bad = "nothing is padded"
        for c in calls:
            d = c.get("da")
            ops = [e[0] for e in d.eff] if isinstance(d, Obj) else []
            rc = [e for e in (d.eff if isinstance(d, Obj) else []) if e[0] == "reset_coords"]
            ri = [e for e in (d.eff if isinstance(d, Obj) else []) if e[0] == "reset_index"]
            if not rc or dict(rc[0][2]).get("drop") is not True:
                bad = f"the data reaches the padding without reset_coords(drop=True) (operations {ops})"
            elif not ri or dict(ri[0][2]).get("drop") is not True:
                bad = f"index coordinates are not dropped before padding (operations {ops})"
        if bad:
            ctx.report("R19.3", padfi, inst, bad)
        else:
            ctx.ok("R19.3", inst, "reset_coords(drop=True) and reset_index(..., drop=True)")
