"""C09 - cumsum is the running sum at the shifted position.

Decided by abstract evaluation of the *whole* of Grid.cumsum / Grid.cumint (absint) for every cell of
the position x target table and interpretation of the recorded effect lineage on a symbolic axis
(seqsem) against the running-sum geometry (geometry.running_sum_spec):
  R09.1 shift table       - 25 cells (8 valid shifts must produce, for every N tried, at every target
                            point the sum of all sources strictly before it, a boundary cell where there
                            is none, and the target position's length; the 17 others must raise);
  R09.2 sibling registry  - the 8 cumsum_* entries of gridops.py against the same geometry;
  R09.3 sequence/threading- user's boundary / fill_value / grid reach pad; result renamed to the target
                            position's dimension; default shift used when `to` is None; per-axis `to`
                            mapping; several axes processed in the given order, each on the previous result;
  R09.4 cumint            - cumsum(da * get_metric(da, axis), axis, **kwargs).
"""
from __future__ import annotations

from ..absint import TOP, Evaluator, Obj, Sym, Unmodelled
from ..geometry import NS, POSITIONS, length, running_sum_spec, valid_shift
from ..registry import extract
from ..seqsem import AxisDiscipline, LengthMismatch, interp_np, interp_xr, lin, pad_seq
from ..xmodel import COMMON_MODELS, dimsym, make_da, make_grid

EXPLANATION = (
    "Whole-function abstract evaluation of Grid.cumsum for all 25 (position, target) cells, default-shift, mapping and "
    "two-axis variants; the effect lineage (xarray cumsum / isel / pad / rename) is interpreted on a symbolic axis of "
    "N = 2..6 cells and compared element by element with the running-sum specification derived from the position "
    "geometry of doc/grids.rst. Same comparison for the 8 cumsum_* kernels of gridops.py. cumint is evaluated with a "
    "model of get_metric. Values are never computed; xarray's cumsum/isel/pad semantics are trusted."
)
ASSUMPTIONS = [
    "xarray.DataArray.cumsum/isel/rename and xgcm.padding.pad behave as documented (pad itself is checked under C02/C05)",
    "position geometry of doc/grids.rst",
]
TECHNIQUE = "decision-table extraction by abstract evaluation of Grid.cumsum + symbolic-sequence interpretation vs. geometry"
LEVEL_TEXT = (
    "Abstract interpretation of the source of Grid.cumsum (whole function, every (position, target) cell, default shifts, per-axis mapping, "
    "two axes in both orders) and of the 8 cumsum_* kernels: the extracted sequence of cumsum / trim / pad / rename operations is interpreted on a "
    "symbolic axis for N = 2..6 and must equal, point by point, the running sum of all inputs before each target point with one boundary cell "
    "where there is none; the 17 impossible shifts must raise; the user's boundary, fill_value and grid must reach pad; cumint must be "
    "cumsum(da * get_metric(da, axis)). This decides the shift table and wiring for every N and every data array structurally; it does not "
    "execute xarray, so diff(cumsum(x)) == x and order independence are claimed only as consequences of the table in exact arithmetic."
)
LEVEL_NOTE = "Trusted: xarray cumsum/isel/rename/pad semantics; doc/grids.rst position model; the abstract evaluator (self-tested with seeded variants)."


def _models():
    return dict(COMMON_MODELS)


def cumsum_evaluator(P, **kw):
    """Evaluator for Grid.cumsum / cumint: the common models plus coordinates that follow the array through
    rename / drop_vars / reset_coords / reset_index (so `.coords` is a mapping whatever spelling the source uses)."""
    from ..harness import coord_tracking_models

    mm, am = coord_tracking_models()
    am[("DataArray", "chunks")] = lambda ev, o, n: TOP
    return Evaluator(P, models=_models(), attr_models=am, method_models=mm, **kw)


_GIVEN = object()


def _run_cumsum(P, pos, to, default_shifts=None, axnames=("AX",), axis_arg=None, extra_dims=("t",), mw=None, da_pos=None, boundary=_GIVEN, fill_value=_GIVEN, per_axis_shifts=None):
    ev = cumsum_evaluator(P)
    fi = P.func("grid:Grid.cumsum")

    def make():
        g = make_grid(axnames, default_shifts=default_shifts)
        for a_, sh in (per_axis_shifts or {}).items():  # an Axis has its own table of default shifts
            g.attrs["axes"][Sym(a_)].attrs["_default_shifts"] = dict(g.attrs["axes"][Sym(a_)].attrs["_default_shifts"], **sh)
        dims = [Sym(d) for d in extra_dims] + [dimsym(a, (da_pos or {}).get(a, pos)) for a in axnames]
        coords = {d: (d,) for d in dims}  # an index coordinate per dimension ...
        coords[Sym("aux_coord")] = (dims[-1],)  # ... and a non-index one on the shifted dimension
        da = make_da("da", dims, coords=coords)
        ax = axis_arg if axis_arg is not None else Sym(axnames[0])
        return dict(self=g, da=da, axis=ax, to=to, boundary=Sym("USER_BOUNDARY") if boundary is _GIVEN else boundary, fill_value=Sym("USER_FILL") if fill_value is _GIVEN else fill_value,
                    metric_weighted=mw, keep_coords=Sym("USER_KEEP"))

    return ev.run_paths(fi, make)


def _check_sequence(ctx, rule, inst, obj, fr, to, axname="AX", fi=None):
    """Interpret lineage and compare with the running-sum spec; returns list of problems."""
    problems = []
    for N in NS:
        n = length(fr, N)
        seq, dim, markers = interp_xr(obj, n, dimsym(axname, fr), Sym(axname))
        spec = running_sum_spec(fr, to, N)
        if len(seq) != len(spec):
            problems.append(f"N={N}: result has {len(seq)} points along the axis, the `{to}` position has {len(spec)}")
            continue
        for k, (got, want) in enumerate(zip(seq, spec)):
            if want == "B":
                ok = len(got) == 1 and got[0][0][0] in ("lo",) and got[0][1] == 1
                if not ok:
                    problems.append(f"N={N}: target point {k} lies before every input, so its value must come from the boundary rule (one padded cell); got {_show(got)}")
                    break
            else:
                exp = lin({("x", i): 1 for i in want})
                if got != exp:
                    problems.append(f"N={N}: target point {k} must be the sum of inputs {sorted(want)}; got {_show(got)}")
                    break
        if dim != dimsym(axname, to):
            problems.append(f"result dimension is {dim!r}, expected the `{to}` dimension {dimsym(axname, to)!r}")
        casts = [m for m in markers if m[0] == "astype"]
        if casts and N == NS[0]:
            problems.append(f"the running sums are cast with astype({casts[0][1:]!r}): sums of integers or booleans do not fit the type of the summands, so the values change")
        # the boundary rule must act on the running sums that are kept: under 'wrap' the leading value is the last
        # kept running sum, under 'extend' the first one, under 'fill' the fill value
        if not problems:
            kept = [lin({("x", i): 1 for i in w}) for w in spec if w != "B"]
            nlead = sum(1 for w in spec if w == "B")
            for rule in ("fill", "extend", "wrap"):
                seq_r, _, _ = interp_xr(obj, n, dimsym(axname, fr), Sym(axname), rule=rule)
                want_r = pad_seq(kept, nlead, 0, rule)
                if seq_r != want_r:
                    k = next(i for i, (a, b) in enumerate(zip(seq_r, want_r)) if a != b) if len(seq_r) == len(want_r) else 0
                    problems.append(f"N={N}, boundary rule '{rule}': target point {k} is {_show(seq_r[k]) if k < len(seq_r) else '?'}; the rule must be applied to the running sums that are kept, giving {_show(want_r[k]) if k < len(want_r) else '?'}")
                    break
    return problems


def _show(e):
    if isinstance(e, tuple):
        return " + ".join((f"{c}*" if c != 1 else "") + (f"x[{k[1]}]" if k[0] == "x" else "fill_value" if k[0] == "fill" else f"{k[0]}-pad[{k[1]}]") for k, c in e) or "0"
    return repr(e)


def check(ctx):
    P = ctx.project
    fi = P.func("grid:Grid.cumsum")

    # ---------------- R09.1 the 25 cells
    for pos in POSITIONS:
        for to in POSITIONS:
            inst = f"{pos}->{to}"
            try:
                outs = _run_cumsum(P, pos, to)
            except Unmodelled as e:
                ctx.unknown("R09.1", inst, str(e))
                continue
            if not valid_shift(pos, to):
                bad = [o for o in outs if o.kind != "raise"]
                if bad:
                    ctx.report("R09.1", fi, f"cell {inst}", f"cumsum from `{pos}` to `{to}` is not a valid shift and must be refused, but a path returns {bad[0].value!r}")
                else:
                    ctx.ok("R09.1", f"cell {inst}", "raises")
                continue
            rets = [o for o in outs if o.kind == "return"]
            if len(rets) != len(outs) or not rets:
                r = [o for o in outs if o.kind == "raise"][0]
                ctx.report("R09.1", fi, f"cell {inst}", f"the valid shift {inst} raises {r.value}", getattr(r.exc, "node", None))
                continue
            for o in rets:
                if not isinstance(o.value, Obj):
                    ctx.unknown("R09.1", inst, f"returned value {o.value!r} is not an array lineage")
                    continue
                try:
                    problems = _check_sequence(ctx, "R09.1", inst, o.value, pos, to)
                except Unmodelled as e:
                    ctx.unknown("R09.1", inst, str(e))
                    continue
                if problems:
                    ctx.report("R09.1", fi, f"cell {inst}", problems[0], path=[repr(x[0]) for x in o.value.eff])
                else:
                    ctx.ok("R09.1", f"cell {inst}", "running sum of all inputs before each target point, N=2..6")
                # R09.3 threading on this cell
                pads = [e for e in o.value.eff if e[0] == "PAD"]
                if len(pads) != 1:
                    ctx.report("R09.3", fi, f"pad calls {inst}", f"expected exactly one pad() per axis, found {len(pads)}")
                else:
                    p = pads[0]
                    g = o.env.get("self")
                    # the caller's values themselves, or a spelling of them that pad() resolves to the same rule and fill
                    # value in force (e.g. already completed with the axis defaults - completing is idempotent)
                    same_b = p[2] == Sym("USER_BOUNDARY")
                    same_f = p[3] == Sym("USER_FILL")
                    if not (same_b and same_f):
                        from .c02 import in_force

                        try:
                            want_if, got_if = in_force(P, Sym("USER_BOUNDARY"), Sym("USER_FILL")), in_force(P, p[2], p[3])
                        except Unmodelled:
                            want_if = got_if = None
                        if want_if is not None and got_if is not None:
                            same_b, same_f = same_b or got_if[0] == want_if[0], same_f or got_if[1] == want_if[1]
                    if not same_b:
                        ctx.report("R09.3", fi, "boundary -> pad", f"cell {inst}: pad() receives boundary={p[2]!r} instead of the caller's `boundary`")
                    elif not same_f:
                        ctx.report("R09.3", fi, "fill_value -> pad", f"cell {inst}: pad() receives fill_value={p[3]!r} instead of the caller's `fill_value`")
                    elif p[4] is not g:
                        ctx.report("R09.3", fi, "grid -> pad", f"cell {inst}: pad() is not given this grid")
                    else:
                        ctx.ok("R09.3", f"pad arguments {inst}", "caller's boundary, fill_value and the grid reach pad")

    # an option the caller leaves out stays left out on its way to pad() (so that the Grid-level setting applies there)
    for what, kw in (("a rule without a fill value", dict(fill_value=None)), ("a fill value without a rule", dict(boundary=None)), ("neither", dict(boundary=None, fill_value=None))):
        inst = f"cumsum center->left called with {what}"
        try:
            outs = _run_cumsum(P, "center", "left", **kw)
        except Unmodelled as e:
            ctx.unknown("R09.3", inst, str(e))
            continue
        from .c02 import same_option

        bad = None
        for o in outs:
            pads = [e for e in (o.value.eff if o.kind == "return" and isinstance(o.value, Obj) else ()) if e[0] == "PAD"]
            if len(pads) != 1:
                bad = f"{o.kind} {o.value!r}: exactly one pad() expected"
                continue
            want_b = None if "boundary" in kw else Sym("USER_BOUNDARY")
            want_f = None if "fill_value" in kw else Sym("USER_FILL")
            if not same_option(P, "boundary", pads[0][2], want_b):
                bad = f"pad() receives boundary={pads[0][2]!r} although the caller gave {'none' if want_b is None else 'one'}: the Grid-level rule no longer applies"
            elif not same_option(P, "fill_value", pads[0][3], want_f):
                bad = f"pad() receives fill_value={pads[0][3]!r} although the caller gave {'none' if want_f is None else 'one'}: the Grid-level fill value no longer applies"
        if bad:
            ctx.report("R09.3", fi, inst, bad)
        else:
            ctx.ok("R09.3", inst, "left out all the way to pad()")

    # ---------------- R09.3 default shift / mapping / order
    for pos in POSITIONS:
        for dflt in POSITIONS:
            if not valid_shift(pos, dflt):
                continue
            inst = f"to=None, default {pos}->{dflt}"
            try:
                a = _run_cumsum(P, pos, None, default_shifts={pos: dflt})
                b = _run_cumsum(P, pos, dflt, default_shifts={pos: dflt})
            except Unmodelled as e:
                ctx.unknown("R09.3", inst, str(e))
                continue
            ka = sorted((o.kind, _eff_key(o.value)) for o in a)
            kb = sorted((o.kind, _eff_key(o.value)) for o in b)
            if ka == kb and all(o.kind == "return" for o in a):
                ctx.ok("R09.3", inst, "omitting `to` uses the axis' default shift")
            else:
                ctx.report("R09.3", fi, inst, f"with `to` omitted the result differs from to='{dflt}' (the axis' default shift for `{pos}`)")
    inst = "to=None over two axes whose default shifts differ"
    try:
        shifts = {"AX": {"center": "left"}, "AY": {"center": "right"}}
        a = _run_cumsum(P, "center", None, axnames=("AX", "AY"), axis_arg=[Sym("AX"), Sym("AY")], per_axis_shifts=shifts)
        b = _run_cumsum(P, "center", {Sym("AX"): "left", Sym("AY"): "right"}, axnames=("AX", "AY"), axis_arg=[Sym("AX"), Sym("AY")], per_axis_shifts=shifts)
        if sorted((o.kind, _eff_key(o.value)) for o in a) == sorted((o.kind, _eff_key(o.value)) for o in b) and all(o.kind == "return" for o in a):
            ctx.ok("R09.3", inst, "each axis uses its own default shift")
        else:
            ctx.report("R09.3", fi, inst, "with `to` omitted the result differs from to={'AX': 'left', 'AY': 'right'}, the default shifts of the two axes: each axis has its own table")
    except Unmodelled as e:
        ctx.unknown("R09.3", inst, str(e))
    try:
        a = _run_cumsum(P, "center", {Sym("AX"): "left"})
        b = _run_cumsum(P, "center", "left")
        if sorted((o.kind, _eff_key(o.value)) for o in a) == sorted((o.kind, _eff_key(o.value)) for o in b):
            ctx.ok("R09.3", "to as per-axis mapping", "same as the scalar spelling")
        else:
            ctx.report("R09.3", fi, "to as per-axis mapping", "to={'AX': 'left'} does not give the result of to='left'")
    except Unmodelled as e:
        ctx.unknown("R09.3", "to as per-axis mapping", str(e))
    for order in (("AX", "AY"), ("AY", "AX")):
        inst = f"axis order {list(order)}"
        try:
            outs = _run_cumsum(P, "center", "left", axnames=("AX", "AY"), axis_arg=[Sym(order[0]), Sym(order[1])])
        except Unmodelled as e:
            ctx.unknown("R09.3", inst, str(e))
            continue
        ok = True
        for o in outs:
            if o.kind != "return" or not isinstance(o.value, Obj):
                ok = False
                continue
            cs = [dict(e[2]).get("dim", e[1][0] if e[1] else None) for e in o.value.eff if e[0] == "cumsum"]
            if cs != [dimsym(order[0], "center"), dimsym(order[1], "center")]:
                ok = False
            for axn in order:
                try:
                    pr = _check_sequence(ctx, "R09.3", inst, o.value, "center", "left", axname=axn)
                except Unmodelled as e:
                    pr = [str(e)]
                if pr:
                    ok = False
        if ok:
            ctx.ok("R09.3", inst, "axes are summed in the given order, each on the previous result")
        else:
            ctx.report("R09.3", fi, inst, "with two axes the axes are not processed one after another in the order given, each on the result of the previous one")

    # two axes with *different* per-axis rules and fill values in one call: the pad() of each axis must resolve to that
    # axis' own entry (pad completes a mapping per axis; a scalar handed over stands for every axis)
    for order in (("AX", "AY"), ("AY", "AX")):
        inst = f"per-axis boundary / fill_value mappings, axis order {list(order)}"
        bmap = {Sym("AX"): "fill", Sym("AY"): "extend"}
        fmap = {Sym("AX"): 1.0, Sym("AY"): 2.0}
        ev2 = cumsum_evaluator(P)

        def make(order=order):
            g = make_grid(("AX", "AY"))
            da = make_da("da", [Sym("t"), dimsym("AY", "center"), dimsym("AX", "center")])
            return dict(self=g, da=da, axis=[Sym(order[0]), Sym(order[1])], to="left", boundary=dict(bmap), fill_value=dict(fmap), metric_weighted=None, keep_coords=Sym("USER_KEEP"))

        try:
            outs = ev2.run_paths(fi, make)
        except Unmodelled as e:
            ctx.unknown("R09.3", inst, str(e))
            continue
        bad = None
        for o in outs:
            pads = [e for e in (o.value.eff if isinstance(o.value, Obj) else []) if e[0] == "PAD"]
            if o.kind != "return" or len(pads) != 2:
                bad = f"{o.kind}: {len(pads)} pad() calls for two axes"
                continue
            for axn, p in zip(order, pads):
                ax = Sym(axn)
                for what, given, want in (("boundary", p[2], bmap[ax]), ("fill_value", p[3], fmap[ax])):
                    eff = given.get(ax, "<axis default>") if isinstance(given, dict) else given
                    if eff != want:
                        bad = bad or f"axis {axn}: pad() is given {what}={given!r}, which resolves to {eff!r} for this axis; the caller asked for {want!r} (an earlier axis' entry must not stand in for a later axis)"
        if bad:
            ctx.report("R09.3", fi, inst, bad)
        else:
            ctx.ok("R09.3", inst, "each axis padded with its own rule and fill value")

    # ---------------- R09.2 sibling registry
    try:
        entries = [e for e in extract(P) if e.name.startswith("cumsum")]
    except Unmodelled as e:
        entries = []
        ctx.unknown("R09.2", "registry", str(e))
    ctx.floor("R09.2", "cumsum_* entries in gridops", len(entries), 8)
    seen = {}
    for e in entries:
        inst = f"gridops.{e.name}"
        if not e.parsed or len(e.parsed[0]) != 1 or len(e.parsed[1]) != 1 or len(e.parsed[0][0]) != 1 or len(e.parsed[1][0]) != 1:
            ctx.unknown("R09.2", inst, f"signature {e.signature!r} is not a 1-D signature")
            continue
        (dn, fr), (dn2, to) = e.parsed[0][0][0], e.parsed[1][0][0]
        seen[(fr, to)] = seen.get((fr, to), 0) + 1
        if e.result == "RAISES":
            continue
        if not isinstance(e.result, Obj):
            ctx.unknown("R09.2", inst, f"kernel body not modelled: {e.result}")
            continue
        if not valid_shift(fr, to):
            ctx.report("R09.2", e.fi, inst, f"registers a cumsum for the impossible shift {fr}->{to}")
            continue
        bw = (e.attrs.get("boundary_width") or {}).get(dn, (0, 0))
        before = e.attrs.get("pad_before_func")
        prob = None
        try:
            for N in NS:
                n = length(fr, N)
                if before:
                    seq = _kernel_on(e.result, pad_seq_len(n, bw), bw, n)
                else:
                    seq = pad_seq(interp_np(e.result, n), bw[0], bw[1])
                spec = running_sum_spec(fr, to, N)
                if len(seq) != len(spec):
                    prob = f"N={N}: {len(seq)} output points, the `{to}` position has {len(spec)}"
                    break
                for k, (got, want) in enumerate(zip(seq, spec)):
                    exp = None if want == "B" else lin({("x", i): 1 for i in want})
                    if want == "B":
                        if not (len(got) == 1 and got[0][0][0] == "lo" and got[0][1] == 1):
                            prob = f"N={N}: target point {k} needs the boundary value, got {_show(got)}"
                            break
                    elif got != exp:
                        prob = f"N={N}: target point {k} must be the sum of inputs {sorted(want)}, got {_show(got)}"
                        break
                if prob:
                    break
        except (AxisDiscipline, LengthMismatch) as ex:
            prob = str(ex)
        except Unmodelled as ex:
            ctx.unknown("R09.2", inst, str(ex))
            continue
        if prob:
            ctx.report("R09.2", e.fi, inst, f"{fr}->{to}: {prob}", e.fi.node)
        else:
            ctx.ok("R09.2", inst, f"{fr}->{to}: kernel + boundary_width {bw} (pad {'before' if before else 'after'}) = running sum")

    # ---------------- R09.4 cumint
    ci = P.func("grid:Grid.cumint")

    def m_cumsum(ev, args, kw, node):
        names = ["self", "da", "axis", "to", "boundary", "fill_value", "metric_weighted", "keep_coords"]
        b = dict(zip(names, args))
        b.update(kw)
        ev.events.append(("cumsum", b))
        return Obj("Result", "cumsum_result", (), {"call": b})

    models = _models()
    models["grid:Grid.cumsum"] = m_cumsum
    ev = Evaluator(P, models=models)
    try:
        outs = ev.run_paths(ci, lambda: dict(self=make_grid(), da=make_da("da", [Sym("t"), dimsym("AX", "center")]), axis=Sym("AX"),
                                             kwargs={"to": Sym("USER_TO"), "boundary": Sym("USER_BOUNDARY")}))
        for o in outs:
            ok = False
            why = "cumint does not return cumsum(da * get_metric(da, axis), axis, **kwargs)"
            if o.kind == "return" and isinstance(o.value, Obj) and o.value.kind == "Result":
                b = o.value.attrs["call"]
                d = b.get("da")
                if isinstance(d, Obj) and d.name == "da" and len(d.eff) == 1 and d.eff[0][0] in ("mult", "rmult"):
                    m = d.eff[0][1]
                    if isinstance(m, Obj) and m.kind == "Metric" and isinstance(m.attrs["array"], Obj) and m.attrs["array"].name == "da" and not m.attrs["array"].eff and m.attrs["axes"] == Sym("AX"):
                        if b.get("axis") == Sym("AX") and b.get("to") == Sym("USER_TO") and b.get("boundary") == Sym("USER_BOUNDARY"):
                            ok = True
                        else:
                            why = "cumint does not forward axis / keyword arguments to cumsum"
                    else:
                        why = "the weight is not get_metric(da, axis) of the array being weighted"
                else:
                    why = "cumsum is not applied to da * metric"
            if ok:
                ctx.ok("R09.4", "cumint", "cumsum(da * get_metric(da, axis), axis, **kwargs)")
            else:
                ctx.report("R09.4", ci, "cumint", why)
    except Unmodelled as e:
        ctx.unknown("R09.4", "cumint", str(e))


def pad_seq_len(n, bw):
    return n + bw[0] + bw[1]


def _kernel_on(result, m, bw, n):
    """Kernel applied to an array padded before the call: interpret on length m, then rename padded cells."""
    seq = interp_np(result, m)
    lo, hi = bw

    def ren(k):
        kind, j = k
        if kind != "x":
            return k
        if j < lo:
            return ("lo", lo - j)
        if j >= lo + n:
            return ("hi", j - lo - n + 1)
        return ("x", j - lo)

    out = []
    for e in seq:
        if isinstance(e, tuple):
            out.append(lin({ren(k): c for k, c in e}))
        else:
            from ..seqsem import Red

            out.append(Red(e.op, [lin({ren(k): c for k, c in it}) for it in e.items]))
    return out


def _eff_key(v):
    if isinstance(v, Obj):
        return repr([(e[0],) + tuple(repr(x) for x in e[1:] if not isinstance(x, Obj)) for e in v.eff])
    return repr(v)
