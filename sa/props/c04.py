"""C04 - vector components cross rotated face links with the right partner and sign.

  R04.1 partner and sign table - the 16 vector cells (8 link kinds x component parallel / tangential to the
        padded axis) of _pad_face_connections by abstract evaluation: source = partner component exactly when
        the link swaps axes, net negation = sign of the orientation map for that component, cells as for scalars;
  R04.2 threading of other_component - Grid.diff/interp -> 1-D dispatch -> GridUFunc.__call__ ->
        apply_as_grid_ufunc -> pad -> face-connection padding: every hop evaluated abstractly, the caller's
        object must arrive; diff_2d_vector/interp_2d_vector pair each component with the other one;
  R04.3 simple-grid acceptance - on a grid without face connections pad() treats {axis: component} exactly like
        the bare component (padded path and zero-width path); a vector without other_component on a connected
        grid is refused.
"""
from __future__ import annotations

from ..absint import Evaluator, Obj, Sym, Unmodelled
from ..facepad import AX, AY, FACE, run as run_face, table_for
from ..harness import run_apply, run_dispatch
from ..xmodel import dimsym, make_da, make_grid
from .c02 import run_pad
from .c05 import check_link_cells, check_shared_source, check_single_links

EXPLANATION = (
    "Abstract evaluation of _pad_face_connections for the 16 vector cells against the orientation-map signs and partner rule; "
    "of every hop that carries other_component from the public methods to the face padding; of pad() with a vector dictionary "
    "on a grid without face connections; and of _apply_vector_function. The discrete divergence itself is not computed."
)
ASSUMPTIONS = ["orientation maps of DESIGN 3.7", "xarray semantics", "C-grid components live on (left, center) / (center, left) positions"]
TECHNIQUE = "decision-table extraction (vector rows) + option threading by abstract evaluation of each call hop"
LEVEL_TEXT = (
    "Decided on the source by abstract interpretation: across each of the 8 link kinds the halo of a vector component is taken from the partner "
    "component exactly when the link swaps axes and negated exactly when the orientation map reverses that component; the caller's other_component "
    "object reaches the face padding through all five call hops; on a grid without face connections the vector form is handled as the bare component. "
    "Necessary conditions of the divergence identity; the identity itself (global, numerical) is not executed."
)
LEVEL_TEXT += ' Also decided (sixth seeded round): a face that is the source of a same-axis and of an axis-swapping (or a normal and a reversed) link in one call gives each halo the component, edge, order and sign its own link prescribes; the same cells on a three-axis grid with the third padded axis declared first.'
LEVEL_NOTE = "Trusted: orientation-map geometry; xarray semantics; abstract evaluator."

RULE_MAP = {"R05.1": "R04.1", "R05.2": "R04.1", "R05.3": "R04.1", "R05.4": "R04.1", "R05.5": "R04.1", "R05.6": "R04.1"}


def check(ctx):
    P = ctx.project
    check_link_cells(ctx, P, ("parallel", "tangential"), rule_of=lambda r: RULE_MAP.get(r, r), floor_rule="R05.1")
    check_single_links(ctx, P, ("parallel", "tangential"), rule_of=lambda r: RULE_MAP.get(r, r), floor_rule="R05.1")
    check_shared_source(ctx, P, ("parallel", "tangential"), rule_of=lambda r: RULE_MAP.get(r, r))
    _threading(ctx, P)
    _simple_grid(ctx, P)


def _threading(ctx, P):
    # hop 1: public methods -> dispatch
    for meth in ("diff", "interp"):
        fi = P.func(f"grid:Grid.{meth}")
        calls = []

        def m(ev, args, kw, node, calls=calls):
            calls.append(dict(kw))
            return Obj("Result", "r")

        ev = Evaluator(P, models={"grid:Grid._1d_grid_ufunc_dispatch": m})
        try:
            ev.run_paths(fi, lambda: dict(self=make_grid(), da=Obj("DataArray", "da"), axis=Sym("A"), kwargs={"other_component": Sym("USER_OTHER")}))
            if len(calls) == 1 and calls[0].get("other_component") == Sym("USER_OTHER"):
                ctx.ok("R04.2", f"Grid.{meth} -> dispatch", "other_component forwarded")
            else:
                ctx.report("R04.2", fi, f"Grid.{meth} -> dispatch", f"Grid.{meth} does not forward other_component to the dispatch")
        except Unmodelled as e:
            ctx.unknown("R04.2", f"Grid.{meth} -> dispatch", str(e))
    # hop 2: dispatch -> ufunc call, every axis
    disp = P.func("grid:Grid._1d_grid_ufunc_dispatch")
    try:
        outs = run_dispatch(P, "diff", {"AX": "left", "AY": "center"}, "center", axnames=("AX", "AY"), axis_arg=[Sym("AX")], data_as_vector=True,
                            dims=[Sym("t"), dimsym("AX", "left"), dimsym("AY", "center")])
        bad = None
        for o in outs:
            ufs = [e for e in o.events if e[0] == "ufunc"]
            if o.kind != "return" or not ufs:
                bad = "the dispatch does not apply a ufunc to a vector component"
            for u in ufs:
                if u[4].get("other_component") != Sym("USER_OTHER"):
                    bad = "the caller's other_component does not reach the grid ufunc call"
                if not (isinstance(u[3][0], dict) and list(u[3][0]) == [Sym("AX")]):
                    bad = bad or "the vector component is not handed on as {axis: component} (the padding could not know its direction)"
        if bad:
            ctx.report("R04.2", disp, "dispatch -> grid ufunc", bad)
        else:
            ctx.ok("R04.2", "dispatch -> grid ufunc", "other_component and the {axis: component} form forwarded")
    except Unmodelled as e:
        ctx.unknown("R04.2", "dispatch -> grid ufunc", str(e))
    # hop 3: GridUFunc.__call__ -> apply_as_grid_ufunc
    callf = P.func("grid_ufunc:GridUFunc.__call__")
    calls = []

    def m2(ev, args, kw, node):
        calls.append(dict(kw))
        return Obj("Result", "r")

    try:
        ev = Evaluator(P, models={"grid_ufunc:apply_as_grid_ufunc": m2})
        me = Obj("GridUFunc", "self", (), {"__class__": "grid_ufunc:GridUFunc", "ufunc": Obj("func", "f"), "signature": Obj("Signature", "s"),
                                          "boundary_width": None, "boundary": None, "fill_value": None, "dask": "forbidden", "map_overlap": False, "pad_before_func": True})
        ev.run_paths(callf, lambda: dict(self=me, grid=make_grid(), args=(Obj("DataArray", "da"),), axis=Sym("A"), kwargs={"other_component": Sym("USER_OTHER")}))
        if len(calls) == 1 and calls[0].get("other_component") == Sym("USER_OTHER"):
            ctx.ok("R04.2", "GridUFunc.__call__ -> apply_as_grid_ufunc", "other_component forwarded")
        else:
            ctx.report("R04.2", callf, "GridUFunc.__call__ -> apply_as_grid_ufunc", "other_component is not forwarded")
    except Unmodelled as e:
        ctx.unknown("R04.2", "GridUFunc.__call__ -> apply_as_grid_ufunc", str(e))
    # hop 4: apply_as_grid_ufunc -> pad (both pad paths)
    app = P.func("grid_ufunc:apply_as_grid_ufunc")
    for before in (True, False):
        inst = f"apply_as_grid_ufunc -> pad ({'pad before' if before else 'pad after'})"
        oc = {AY: make_da("vpartner", [dimsym("AX", "center"), dimsym("AY", "left")])}
        try:
            outs = run_apply(P, "(X:left)->(X:center)", [(AX,)], args=lambda: ({AX: make_da("u", [Sym("t"), dimsym("AX", "left"), dimsym("AY", "center")])},),
                             boundary_width={"X": (0, 1)}, pad_before_func=before, other_component=oc)
            bad = None
            for o in outs:
                pads = [e for e in o.events if e[0] == "pad"]
                if o.kind != "return" or not pads:
                    bad = f"no padding happens ({o.kind} {o.value})"
                for p in pads:
                    got = p[5]
                    if not (isinstance(got, dict) and list(got) == [AY] and isinstance(got[AY], Obj) and got[AY].name == "vpartner"):
                        bad = f"pad() receives other_component={got!r} instead of the caller's dictionary"
                    else:
                        # the partner's values are what is spliced into the halo: they reach pad() as given
                        from ..harness import foreign_ops

                        changing, unknown_ops = foreign_ops(got[AY].eff)
                        if unknown_ops:
                            raise Unmodelled(f"operation(s) {unknown_ops} on the partner component")
                        if changing:
                            bad = f"the partner component reaches pad() after {changing}: the values spliced into the halo across an axis-swapping link are no longer the partner's (a cast to the other component's type truncates / rounds them)"
            if bad:
                ctx.report("R04.2", app, inst, bad)
            else:
                ctx.ok("R04.2", inst, "caller's other_component reaches pad()")
        except Unmodelled as e:
            ctx.unknown("R04.2", inst, str(e))
    # hop 5: pad -> face padding: checked with the wiring of C03 (R03.4); repeated here for the vector form
    padfi = P.func("padding:pad")
    table = table_for(True, True, False)
    try:
        oc = {AY: make_da("vpartner", [FACE, dimsym("AY", "left"), dimsym("AX", "center")])}
        outs, calls = run_pad(P, None, None, {AX: (0, 1)}, grid=lambda: make_grid(("AX", "AY"), face_connections=table, facedim=FACE, boundary="fill", fill_value=0.0), other=oc,
                              data=lambda: {AX: make_da("u", [FACE, dimsym("AY", "center"), dimsym("AX", "left")])})
        ok = calls and all(c.get("__face__") and isinstance(c.get("other_component"), dict) and list(c["other_component"]) == [AY] for c in calls) and \
            all(isinstance(c.get("da"), dict) and list(c["da"]) == [AX] for c in calls)
        if ok and all(o.kind == "return" for o in outs):
            ctx.ok("R04.2", "pad -> face-connection padding (vector)", "{axis: component} and other_component arrive")
        else:
            ctx.report("R04.2", padfi, "pad -> face-connection padding (vector)", "the vector dictionary or other_component does not reach the face-connection padding")
    except Unmodelled as e:
        ctx.unknown("R04.2", "pad -> face-connection padding (vector)", str(e))
    # a vector without partner on a connected grid is refused
    fc = P.func("padding:_pad_face_connections")
    try:
        outs = run_face(P, table, vector="parallel", other_component=None)
        if all(o.kind == "raise" for o in outs):
            ctx.ok("R04.2", "vector without other_component on a connected grid", "refused")
        else:
            ctx.report("R04.2", fc, "vector without other_component on a connected grid", "padding a vector component across face links without its partner is answered")
    except Unmodelled as e:
        ctx.unknown("R04.2", "vector without other_component", str(e))
    # the 2-D vector helpers
    avf = P.func("grid:Grid._apply_vector_function")
    calls = []

    def fn_model(ev, args, kw, node):
        calls.append((list(args), dict(kw)))
        return Obj("Result", f"component{len(calls)}")

    try:
        ev = Evaluator(P, models={"warnings.warn": lambda ev, a, k, n: None})
        u = make_da("u", [dimsym("AX", "left"), dimsym("AY", "center")])
        v = make_da("v", [dimsym("AX", "center"), dimsym("AY", "left")])
        from ..absint import Builtin

        USER_KW = {n: Sym("USER_" + n) for n in ("boundary", "fill_value", "metric_weighted", "keep_coords", "some_future_option")}
        USER_KW["to"] = "center"  # the only target these helpers accept

        def make():
            return dict(self=make_grid(("AX", "AY")), function=Obj("callable", "fn"), vector={AX: u, AY: v}, kwargs=dict(USER_KW))

        ev2 = Evaluator(P, models={"warnings.warn": lambda ev, a, k, n: None}, call_hook=lambda ev, f, a, k, n: fn_model(ev, a, k, n) if isinstance(f, Obj) and f.kind == "callable" else NotImplemented)
        outs = ev2.run_paths(avf, make)
        bad = None
        if len(calls) != 2 or any(o.kind != "return" for o in outs):
            bad = "the function is not applied once per component"
        else:
            (a1, k1), (a2, k2) = calls
            ok1 = isinstance(a1[0], dict) and list(a1[0]) == [AX] and a1[0][AX] is u and a1[1] == AX and list(k1.get("other_component", {})) == [AY] and k1["other_component"][AY] is v
            ok2 = isinstance(a2[0], dict) and list(a2[0]) == [AY] and a2[0][AY] is v and a2[1] == AY and list(k2.get("other_component", {})) == [AX] and k2["other_component"][AX] is u
            if not (ok1 and ok2):
                bad = "a component is not paired with the other component as other_component along its own axis"
            elif any(k.get(n) != val for k in (k1, k2) for n, val in USER_KW.items()):
                lost = sorted({n for k in (k1, k2) for n, val in USER_KW.items() if k.get(n) != val})
                bad = f"the caller's keyword argument(s) {lost} do not reach both component operations"
            else:
                res = outs[0].value
                if not (isinstance(res, dict) and list(res) == [AX, AY] and res[AX].name == "component1" and res[AY].name == "component2"):
                    bad = "the results are not returned as {x axis: x result, y axis: y result}"
        if bad:
            ctx.report("R04.2", avf, "_apply_vector_function", bad)
        else:
            ctx.ok("R04.2", "_apply_vector_function", "each component differenced along its own axis with the other one as partner")
    except Unmodelled as e:
        ctx.unknown("R04.2", "_apply_vector_function", str(e))


def _simple_grid(ctx, P):
    padfi = P.func("padding:pad")
    u = lambda: make_da("u", [Sym("t"), dimsym("AX", "left"), dimsym("AY", "center")])
    oc = {AY: make_da("vpartner", [dimsym("AX", "center"), dimsym("AY", "left")])}
    for name, widths in (("padded path", {AX: (0, 1)}), ("zero-width path", {AX: (0, 0)})):
        inst = f"vector on a grid without face connections, {name}"
        try:
            outs_v, calls_v = run_pad(P, None, None, widths, data=lambda: {AX: u()}, other=oc)
            calls_v = list(calls_v)
            outs_s, calls_s = run_pad(P, None, None, widths, data=u, other=None)
        except Unmodelled as e:
            ctx.unknown("R04.3", inst, str(e))
            continue
        bad = None
        for o in outs_v:
            if o.kind != "return":
                bad = f"raises {o.value} (line {getattr(getattr(o.exc, 'node', None), 'lineno', '?')})"
            elif not isinstance(o.value, Obj) or o.value.name != "u":
                bad = f"returns {o.value!r} instead of the (padded) component as a plain array"
        for c in calls_v:
            if not isinstance(c.get("da"), Obj):
                bad = bad or f"the basic padding receives {type(c.get('da')).__name__} instead of the component array"
        if not bad:
            kv = sorted(repr([e[0] for e in o.value.eff]) for o in outs_v)
            ks = sorted(repr([e[0] for e in o.value.eff]) for o in outs_s if o.kind == "return")
            if kv != ks:
                bad = f"the vector form is processed differently ({kv}) from the bare component ({ks})"
        if bad:
            ctx.report("R04.3", padfi, inst, bad)
        else:
            ctx.ok("R04.3", inst, "handled exactly like the bare component")
