"""C05 - halo cells across every kind of face link come from the documented cell.

Whole-function abstract evaluation of padding._pad_face_connections (symbolic pre-pad width w, symbolic
face size n, opaque arrays) on a two-face table for each of the 8 link kinds x {scalar, vector parallel,
vector tangential}; the lineage of the halo piece and of the kept part of the target is brought into the
affine-selection normal form (affsel) and compared with the table derived from the orientation maps of
geometry.link_table:
  R05.1 source cells   - the w interior cells of the neighbour adjacent to the linked edge, in the depth
                         order the orientation demands (orthogonal flip iff reversed);
  R05.2 target / side  - the target's own pre-padded halo is cut off on the padded side only and the source
                         piece is concatenated on that side, along the padded dimension;
  R05.3 along-edge     - the full along-edge extent, mirrored exactly for swapped non-reversed links;
  R05.4 pre-pad / trim - every connection axis and requested axis is pre-padded by max(all widths) with the
                         basic rule in force, and finally cut to exactly the requested (lower, upper) halo;
  R05.5 vectors        - partner component across swapped links, negated exactly when the orientation map
                         reverses the component's direction;
  R05.6 open edges     - a side without link keeps the basic pre-padding (no replacement).
"""
from __future__ import annotations

import itertools

from ..absint import Lin, Obj, SliceV, Sym, Unmodelled
from ..affsel import Sel, ZeroStep
from ..facepad import AX, AY, FACE, axis_of_dim, face_parts, halo_pieces, norm_form, run, table_for
from ..harness import foreign_ops
from ..geometry import link_table
from ..xmodel import dimsym

EXPLANATION = (
    "Abstract evaluation of the whole of _pad_face_connections with symbolic widths for the 8 link kinds x 3 input kinds "
    "(24 cells, each on both arms of the coordinate-bookkeeping branch), normalisation of the recorded isel/rename/flip/"
    "negation lineage into affine index selections, comparison with the table computed from the orientation maps; plus "
    "pre-pad and final-trim linear forms for several requested width sets and the open-edge rows."
)
ASSUMPTIONS = ["xarray isel/rename/concat/pad semantics", "faces are square (n x n) and requested widths do not exceed n", "orientation maps of DESIGN 3.7 (rotations for swapped links, reflection for the same-axis reversed link)"]
TECHNIQUE = "decision-table extraction by abstract evaluation + affine index-selection normal form vs. orientation-map geometry"
LEVEL_TEXT = (
    "Abstract interpretation of the source over the finite guard alphabet side x reversed x swapped x input kind with symbolic width: the halo piece "
    "is proven to be the w interior cells adjacent to the linked edge of the right face and component, in the depth and along-edge order the "
    "orientation map prescribes, with the sign the map demands, attached on the padded side after removing only that side's pre-padding; pre-padding "
    "uses the rule in force with max width and the final trim leaves exactly the requested widths; unlinked sides keep the basic padding. Necessary "
    "conditions of the behavioural statement for every table (each link is handled by this code alone); xarray's isel/concat are trusted, corner "
    "cells are outside this property."
    " Link tables are also evaluated with links as lists and 0/1 reverse flags, the self-link under every Grid-level default, and source arrays are never written in place."
)
LEVEL_TEXT += ' Also decided (sixth seeded round): two target faces reading one source face across links of every ordered pair of distinct kinds; a third padded axis declared before the horizontal ones.'
LEVEL_NOTE = "Trusted: xarray isel/rename/concat semantics; orientation-map geometry; square faces."

W = Lin.sym("w")
N = Lin.sym("n")
L = N + W.scale(2)


def expected(is_right, swap, reverse):
    t = link_table(is_right, swap, reverse)
    # axes pre-padded = axes named in the table + requested axes (here: AX requested; AY only if the link swaps axes)
    along_len = L if swap else N
    if t["source_edge"] == "low":
        orth = Sel(W, 1, W)
    else:
        orth = Sel(L - W.scale(2), 1, W)
    if t["ortho_flip"]:
        orth = orth.slice(SliceV(None, None, -1))
    tang = Sel(0, 1, along_len)
    if t["tang_flip"]:
        tang = tang.slice(SliceV(None, None, -1))
    target = Sel(0, 1, L - W) if is_right else Sel(W, 1, L - W)
    t["along_len"] = along_len
    return t, orth, tang, target


def inplace_on_source(o):
    """An augmented assignment (`x *= -1`, `x += ...`) applied to a selection of the data or of the pre-padded array: the
    selection is a view, so the cells of the source are altered for every later link (and, without pre-padding, for the
    caller).  Returns a description or None; a selection that was copied first is its own array."""
    for e in o.events:
        if e[0] == "inplace-op" and isinstance(e[1], Obj) and e[1].name in ("MAIN", "PARTNER"):
            ops = [x[0] for x in e[1].eff]
            if "copy" not in ops and not any(x in ops for x in ("neg", "mult", "rmult", "CONCAT")):
                return (f"in-place `{ {'Mult': '*', 'Add': '+', 'Sub': '-', 'Div': '/'}.get(e[2], e[2]) }=` on a selection of {e[1].name} ({'.'.join(ops)}), line {getattr(e[3], 'lineno', '?')}: the selection is a view of the "
                        "pre-padded array, so the neighbour's cells themselves are changed and every later link that reads them (a face that is the source of two links) gets the change again")
    return None


def analyse_cell(P, is_right, swap, reverse, vector, respelled=False, trailing_dim=False, third_axis=False):
    table = table_for(is_right, swap, reverse)
    if respelled:
        from ..facepad import respell

        table = respell(table)
    outs = run(P, table, vector=vector, trailing_dim=trailing_dim, third_axis=third_axis)
    rows = []
    for o in outs:
        if o.kind != "return":
            rows.append(("raise", o.value, o))
            continue
        faces, facedim, trim = face_parts(o.value)
        f0 = faces[0]
        chain = halo_pieces(f0)
        rows.append(("ok", (f0, chain, faces, trim), o))
    return rows


def check_link_cells(ctx, P, vectors, rule_of=None, floor_rule="R05.1"):
    """Evaluate face 0 of a three-face table whose left and right links are of every combination of kinds
    (swapped, reversed) and judge each side by its own kind; rule_of maps C05 rule ids to the caller's."""
    from ..affsel import flatten_concat
    from ..facepad import table_pair

    rule_of = rule_of or (lambda r: r)
    fi = P.func("padding:_pad_face_connections")
    kinds = [(sw, rv) for sw in (False, True) for rv in (False, True)]
    n_cells = 0
    verdict = {}  # (side, swap, reverse, vector) -> {rule: message} or {}
    inplace = {}
    for kl in kinds:
        for kr in kinds:
            for vector in vectors:
                for swapped_dims in ((False, True) if vector else (False,)):
                    tag = f"left {_kind(kl)}, right {_kind(kr)}, {vector or 'scalar'}" + (", components with different dimension order" if swapped_dims else "")
                    try:
                        outs = run(P, table_pair(kl, kr), vector=vector, n_faces=3, partner_dims_swapped=swapped_dims, prune=True)
                    except Unmodelled as e:
                        ctx.unknown(rule_of("R05.1"), tag, str(e))
                        continue
                    for o in outs:
                        cells = [((False,) + kl, 1), ((True,) + kr, 2)]
                        ip = inplace_on_source(o)
                        if ip:
                            inplace.setdefault(ip.split(", line")[0], ip + f" [{tag}]")
                        if o.kind != "return":
                            for (is_right, swap, reverse), nb in cells:
                                verdict.setdefault((is_right, swap, reverse, vector), {}).setdefault("R05.1", f"raises {o.value} (line {getattr(getattr(o.exc, 'node', None), 'lineno', '?')}) [{tag}]")
                            continue
                        try:
                            faces, facedim, trim = face_parts(o.value)
                            _, leaves = flatten_concat(faces[0], FACE, axis_of_dim)
                            forms = [norm_form(p) for p in leaves]
                        except ZeroStep:
                            for (is_right, swap, reverse), nb in cells:
                                verdict.setdefault((is_right, swap, reverse, vector), {}).setdefault("R05.1", f"a halo is selected with a slice of step 0: indexing raises ValueError (slice step cannot be zero) [{tag}]")
                            continue
                        except Unmodelled as e:
                            ctx.unknown(rule_of("R05.1"), tag, str(e))
                            continue
                        got_faces = [f.face for f in forms]
                        for (is_right, swap, reverse), nb in cells:
                            key = (is_right, swap, reverse, vector)
                            pr = verdict.setdefault(key, {})
                            if got_faces != [1, 0, 2]:
                                pr.setdefault("R05.2", f"face 0 is assembled from faces {got_faces} (lower halo, interior, upper halo); expected [1, 0, 2] [{tag}]")
                                continue
                            t, e_orth, e_tang, _ = expected(is_right, swap, reverse)
                            # the along-edge extent: AY is pre-padded iff some link of the table swaps axes
                            along = L if (kl[0] or kr[0]) else N
                            e_tang = Sel(0, 1, along) if not t["tang_flip"] else Sel(0, 1, along).slice(SliceV(None, None, -1))
                            fs = forms[2] if is_right else forms[0]
                            for k, v in _check_piece(fs, forms[1], swap, reverse, vector, t, e_orth, e_tang, along).items():
                                pr.setdefault(k, v + f" [{tag}]")
                            n_cells += 1
    for (is_right, swap, reverse, vector), pr in sorted(verdict.items(), key=lambda kv: repr(kv[0])):
        kind = f"{'right' if is_right else 'left'} side, {'swapped' if swap else 'same'} axis, {'reversed' if reverse else 'normal'}, {vector or 'scalar'}"
        if pr:
            for rule, msg in sorted(pr.items()):
                ctx.report(rule_of(rule), fi, f"link kind: {kind}", msg)
        else:
            ctx.ok(rule_of("R05.1" if vector is None else "R05.5"), f"link kind: {kind}", "in every combination with the other side's link: source cells, depth and along-edge order, sign/partner as the orientation map demands")
    ctx.floor(rule_of(floor_rule), "link cells evaluated (side x kind x other side's kind x input)", n_cells, 32 * len(vectors))
    for msg in list(inplace.values())[:2]:
        ctx.report(rule_of("R05.5"), fi, "source arrays are read, never written", msg)
    if not inplace:
        ctx.ok(rule_of("R05.5"), "source arrays are read, never written", "no in-place operation on a selection of the data or the pre-padded array")
    _self_link(ctx, P, fi, rule_of)


def _kind(k):
    return ("swapped" if k[0] else "same-axis") + ("/reversed" if k[1] else "")


def _check_piece(fs, ft, swap, reverse, vector, t, e_orth, e_tang, along, target_sel=None):
    """fs: normal form of the halo piece, ft: of the kept interior of the target (target_sel: what it must keep along the
    padded dimension; default: its own n cells, both pre-padded halos replaced)."""
    pr = {}
    tdim = [p for n_, p in ft.names.items() if axis_of_dim(p) == AX]
    if ft.sel[tdim[0]] != (target_sel or Sel(W, 1, N)):
        pr["R05.2"] = f"the target keeps {ft.sel[tdim[0]]!r} along the padded dimension; " + ("with links on both sides exactly its own n cells must remain" if target_sel is None else f"expected {target_sel!r}")
    want_base = "PARTNER" if (vector and t["partner"]) else "MAIN"
    if fs.base != want_base:
        pr["R05.5" if vector else "R05.1"] = f"halo taken from the {'partner' if fs.base == 'PARTNER' else 'same'} component; a {'swapped' if swap else 'same-axis'} link requires the {'partner' if want_base == 'PARTNER' else 'same'} component"
    b_axis = AY if swap else AX
    o_axis = AX if swap else AY
    orth_p = [p for p in fs.sel if axis_of_dim(p) == b_axis]
    tang_p = [p for p in fs.sel if axis_of_dim(p) == o_axis]
    if len(orth_p) != 1 or len(tang_p) != 1:
        raise Unmodelled("source dimensions not identified")
    so, stg = fs.sel[orth_p[0]], fs.sel[tang_p[0]]
    if so != e_orth:
        if so.step != e_orth.step and so.slice(SliceV(None, None, -1)) == e_orth:
            pr.setdefault("R05.3", f"depth order across the link is {'not ' if e_orth.step < 0 else ''}reversed but must {'' if e_orth.step < 0 else 'not '}be (orthogonal flip iff the link is reversed)")
        else:
            pr.setdefault("R05.1", f"source cells along the neighbour's link axis are {so!r} (pre-padded coordinates); the {t['source_edge']} edge is the linked one, so they must be {e_orth!r}")
    if stg != e_tang:
        pr.setdefault("R05.3", f"along-edge selection is {stg!r}; expected {e_tang!r} (mirrored exactly for an axis-swapping non-reversed link)")
    cur_names = {p: n_ for n_, p in fs.names.items()}
    if axis_of_dim(cur_names.get(orth_p[0])) != AX or axis_of_dim(cur_names.get(tang_p[0])) != AY:
        pr.setdefault("R05.1", f"after the link the source's dimensions are named {cur_names}; its link axis must become the padded dimension and its other axis the along-edge dimension")
    if vector:
        want_neg = (t["sign_parallel"] if vector == "parallel" else t["sign_tangential"]) < 0
        if bool(fs.neg) != want_neg:
            pr.setdefault("R05.5", f"the {vector} component is {'negated' if fs.neg else 'not negated'} across this link; the orientation map {'reverses' if want_neg else 'keeps'} its direction")
    elif fs.neg:
        pr.setdefault("R05.5", "a scalar is negated across the link")
    if ft.neg:
        pr.setdefault("R05.5", "the target's own values are negated")
    if fs.prepad is None or ft.prepad is None:
        pr.setdefault("R05.4", "source or target not taken from the pre-padded array")
    return pr


def _self_link(ctx, P, fi, rule_of):
    """A domain one face wide that is joined to itself: the halo must come from the face's own interior cells at
    the opposite edge - the basic pre-padding (which obeys the axis' rule, not necessarily 'periodic') must not survive."""
    table = {FACE: {0: {AX: ((0, AX, False), (0, AX, False))}}}
    # the rule in force for the call is opaque; the Grid-level default is opaque too, or one of the words: what the halo of
    # a link is made of may depend on neither
    for gb in (None, "periodic", "fill", "extend"):
        _self_link_case(ctx, P, fi, rule_of, table, gb)


def _self_link_case(ctx, P, fi, rule_of, table, gb):
    from ..affsel import flatten_concat

    name = "link kind: face joined to itself (same axis, normal)" + (f", Grid default rule {gb!r}" if gb else "")
    try:
        outs = run(P, table, n_faces=1, grid_boundary=gb)
    except Unmodelled as e:
        ctx.unknown(rule_of("R05.1"), name, str(e))
        return
    bad = None
    for o in outs:
        if o.kind != "return":
            bad = f"raises {o.value}"
            continue
        try:
            faces, facedim, trim = face_parts(o.value)
            _, leaves = flatten_concat(faces[0], FACE, axis_of_dim)
            forms = [norm_form(p) for p in leaves]
        except Unmodelled as e:
            ctx.unknown(rule_of("R05.1"), name, str(e))
            return
        dx = lambda st: [s_ for p, s_ in st.sel.items() if axis_of_dim(p) == AX][0]
        if len(forms) != 3:
            bad = f"a face joined to itself is assembled from {len(forms)} piece(s): its halo is left to the basic pre-padding, which follows the axis' boundary rule instead of the link"
        elif [f.face for f in forms] != [0, 0, 0] or dx(forms[0]) != Sel(N, 1, W) or dx(forms[2]) != Sel(W, 1, W) or dx(forms[1]) != Sel(W, 1, N):
            bad = f"self-link halo pieces are {[dx(f) for f in forms]}; expected the face's own interior cells at the opposite edges"
    if bad:
        ctx.report(rule_of("R05.1"), fi, name, bad)
    else:
        ctx.ok(rule_of("R05.1"), name, "halo = own interior cells at the opposite edge, whatever the axis' rule")


def check_single_links(ctx, P, vectors, rule_of=None, floor_rule="R05.1"):
    """Evaluate the link-kind cells for the given input kinds; rule_of maps C05 rule ids to the caller's."""
    rule_of = rule_of or (lambda r: r)
    fi = P.func("padding:_pad_face_connections")
    n_cells = 0
    for is_right, swap, reverse, variant in itertools.product([False, True], [False, True], [False, True], ["", "respelled", "trailing", "third axis"]):
        respelled, trailing, third = variant == "respelled", variant == "trailing", variant == "third axis"
        if third and not swap:
            continue  # a third padded axis matters where the code has to tell the along-edge dimension from the others
        for vector in vectors:
            if respelled and vector == "parallel":
                continue  # the spelling of the table is exercised on scalars and on the component that changes sign
            if trailing and not swap:
                continue  # an extra dimension stored last matters where the along-edge direction is flipped
            kind = f"{'right' if is_right else 'left'} side, {'swapped' if swap else 'same'} axis, {'reversed' if reverse else 'normal'}, {vector or 'scalar'}" + (", links as lists with 0/1 flags" if respelled else "") + (", an extra dimension stored last" if trailing else "") + (", a third padded axis declared before the horizontal ones" if third else "")
            try:
                rows = analyse_cell(P, is_right, swap, reverse, vector, respelled, trailing, third)
            except Unmodelled as e:
                ctx.unknown(rule_of("R05.1"), kind, str(e))
                continue
            n_cells += 1
            t, e_orth, e_tang, e_target = expected(is_right, swap, reverse)
            problems = {}
            for status, payload, o in rows:
                if status == "raise":
                    problems.setdefault("R05.1", f"raises {payload} (line {getattr(getattr(o.exc, 'node', None), 'lineno', '?')})")
                    continue
                f0, chain, faces, trim = payload
                try:
                    pr = _check_face0(chain, is_right, swap, reverse, vector, t, e_orth, e_tang, e_target)
                except Unmodelled as e:
                    ctx.unknown(rule_of("R05.1"), kind, str(e))
                    pr = {}
                for k, v in pr.items():
                    problems.setdefault(k, v)
            if problems:
                for rule, msg in sorted(problems.items()):
                    ctx.report(rule_of(rule), fi, f"single link: {kind}", msg)
            else:
                ctx.ok(rule_of("R05.1" if vector is None else "R05.5"), f"single link: {kind}", f"source {e_orth!r} along the link axis, along-edge {e_tang!r}, sign/partner as the orientation map demands")
    ctx.floor(rule_of(floor_rule), "single-link cells evaluated", n_cells, 8 * len(vectors))  # + the respelled tables


def check_shared_source(ctx, P, vectors, rule_of=None):
    """One face (2) that is the source of two links of different kind in one call: faces 0 and 1 both take the halo on the same
    side of AX from face 2, across links of every ordered pair of distinct kinds (same-axis / axis-swapping x normal / reversed) -
    every corner of a cubed sphere has such a face.  What a halo is made of (component, edge, depth and along-edge order, sign)
    is decided per link; nothing computed for one link may be handed to another."""
    from ..affsel import flatten_concat
    from ..geometry import reciprocal_side

    rule_of = rule_of or (lambda r: r)
    fi = P.func("padding:_pad_face_connections")
    kinds = [(sw, rv) for sw in (False, True) for rv in (False, True)]
    n = 0
    for is_right in (True, False):
        side = 1 if is_right else 0
        for k0 in kinds:
            for k1 in kinds:
                if k0 == k1:
                    continue  # two links of the same kind would need the same edge of face 2
                t = {0: {AX: [None, None]}, 1: {AX: [None, None]}, 2: {AX: [None, None], AY: [None, None]}}
                for f, (swap, rev) in ((0, k0), (1, k1)):
                    b_axis = AY if swap else AX
                    t[f][AX][side] = (2, b_axis, rev)
                    t[2][b_axis][reciprocal_side(side, rev)] = (f, AX, rev)
                table = {FACE: {f: {ax: tuple(v) for ax, v in per.items() if any(x is not None for x in v)} for f, per in t.items()}}
                any_swap = k0[0] or k1[0]
                for vector in vectors:
                    inst = f"faces 0 and 1 take their {'right' if is_right else 'left'} halo from face 2 across a {_kind(k0)} and a {_kind(k1)} link, {vector or 'scalar'}"
                    rule = rule_of("R05.5" if vector else "R05.1")
                    try:
                        outs = run(P, table, vector=vector, n_faces=3, prune=True)
                    except Unmodelled as e:
                        ctx.unknown(rule, inst, str(e))
                        continue
                    problems = {}
                    unknown = None
                    for o in outs:
                        if o.kind != "return":
                            problems.setdefault("R05.1", f"raises {o.value} (line {getattr(getattr(o.exc, 'node', None), 'lineno', '?')})")
                            continue
                        try:
                            faces, facedim, trim = face_parts(o.value)
                            for f, (swap, rev) in ((0, k0), (1, k1)):
                                _, leaves = flatten_concat(faces[f], FACE, axis_of_dim)
                                forms = [norm_form(x) for x in leaves]
                                want_faces = [f, 2] if is_right else [2, f]
                                if [x.face for x in forms] != want_faces:
                                    problems.setdefault("R05.2", f"face {f} is assembled from faces {[x.face for x in forms]}; expected {want_faces}")
                                    continue
                                tt, e_orth, e_tang, e_target = expected(is_right, swap, rev)
                                along = L if any_swap else N  # AY is pre-padded iff some link of the table swaps axes
                                e_tang = Sel(0, 1, along) if not tt["tang_flip"] else Sel(0, 1, along).slice(SliceV(None, None, -1))
                                fs, ft = (forms[1], forms[0]) if is_right else (forms[0], forms[1])
                                for k, v in _check_piece(fs, ft, swap, rev, vector, tt, e_orth, e_tang, along, target_sel=e_target).items():
                                    problems.setdefault(k, f"halo of face {f} across its {_kind((swap, rev))} link (face 2 is also the source of the other face's {_kind(k1 if f == 0 else k0)} link): " + v)
                        except Unmodelled as e:
                            unknown = str(e)
                            break
                    n += 1
                    if unknown:
                        ctx.unknown(rule, inst, unknown)
                    elif problems:
                        for r_, msg in sorted(problems.items()):
                            ctx.report(rule_of(r_), fi, inst, msg)
                    else:
                        ctx.ok(rule, inst, "each halo cut as its own link prescribes")
    return n


def check_one_sided(ctx, P, rule_of=None):
    """A halo requested on one side only, {AX: (0, w)} or {AX: (w, 0)}, on a face linked on both sides: the requested side is
    still assembled from its neighbour (whether the other side is built and trimmed away again, or skipped, is immaterial)."""
    from ..affsel import flatten_concat
    from ..facepad import table_pair

    rule_of = rule_of or (lambda r: r)
    fi = P.func("padding:_pad_face_connections")
    w = Lin.sym("w")
    kinds = [(sw, rv) for sw in (False, True) for rv in (False, True)]
    for side_right in (False, True):
        widths = {AX: (Lin.of(0), w) if side_right else (w, Lin.of(0))}
        problems = {}
        n = 0
        for kl in kinds:
            for kr in kinds:
                tag = f"left {_kind(kl)}, right {_kind(kr)}"
                try:
                    outs = run(P, table_pair(kl, kr), n_faces=3, prune=True, widths={AX: (0, w) if side_right else (w, 0)})
                except Unmodelled as e:
                    ctx.unknown(rule_of("R05.4"), f"one-sided request, {tag}", str(e))
                    continue
                for o in outs:
                    if o.kind != "return":
                        problems.setdefault("R05.4", f"raises {o.value} [{tag}]")
                        continue
                    try:
                        faces, facedim, trim = face_parts(o.value)
                        _, leaves = flatten_concat(faces[0], FACE, axis_of_dim)
                        forms = [norm_form(p) for p in leaves]
                    except Unmodelled as e:
                        ctx.unknown(rule_of("R05.4"), f"one-sided request, {tag}", str(e))
                        continue
                    got_faces = [f.face for f in forms]
                    nb = 2 if side_right else 1
                    ok_shapes = ([1, 0, 2], [0, 2]) if side_right else ([1, 0, 2], [1, 0])
                    if got_faces not in [list(x) for x in ok_shapes]:
                        problems.setdefault("R05.4", f"only the {'upper' if side_right else 'lower'} halo of axis AX is requested, but face 0 is assembled from faces {got_faces}: the requested side is not taken from its neighbour (face {nb}) [{tag}]")
                        continue
                    swap, reverse = kr if side_right else kl
                    t, e_orth, e_tang, _ = expected(side_right, swap, reverse)
                    along = L if (kl[0] or kr[0]) else N
                    e_tang = Sel(0, 1, along) if not t["tang_flip"] else Sel(0, 1, along).slice(SliceV(None, None, -1))
                    fs = forms[-1] if side_right else forms[0]
                    ft = forms[got_faces.index(0)]
                    # if the side nobody asked for is skipped, the target keeps its basic pre-padding there (trimmed off at the end)
                    tsel = None
                    if len(got_faces) == 2:
                        tsel = Sel(W, 1, N + W) if not side_right else Sel(0, 1, N + W)
                    for k, v in _check_piece(fs, ft, swap, reverse, None, t, e_orth, e_tang, along, target_sel=tsel).items():
                        problems.setdefault(k, v + f" [{tag}, halo requested on the {'upper' if side_right else 'lower'} side only]")
                    n += 1
        inst = f"halo requested on the {'upper' if side_right else 'lower'} side only, both sides linked"
        if problems:
            for rule, msg in sorted(problems.items()):
                ctx.report(rule_of(rule), fi, inst, msg)
        else:
            ctx.ok(rule_of("R05.4"), inst, f"{n} link combinations: the requested side comes from its neighbour with the cells the orientation map demands")


def _check_face0(chain, is_right, swap, reverse, vector, t, e_orth, e_tang, e_target):
    pr = {}
    padded_dim_axis = AX
    # exactly one replacement on face 0 (only one of its sides is linked)
    if len(chain) != 1:
        pr["R05.6"] = f"face 0 has one linked side but {len(chain)} halo replacements were assembled"
        return pr
    dim, parts, kw = chain[0]
    if axis_of_dim(dim) != padded_dim_axis:
        pr["R05.2"] = f"the halo is concatenated along {dim!r}, not along the padded axis' dimension"
        return pr
    if len(parts) != 2:
        pr["R05.2"] = f"{len(parts)} pieces concatenated, expected target and source"
        return pr
    forms = [norm_form(p) for p in parts]
    # which piece is the target (face 0) and which the source (face 1)?
    idx_t = [i for i, f in enumerate(forms) if f.face == 0]
    idx_s = [i for i, f in enumerate(forms) if f.face == 1]
    if len(idx_t) != 1 or len(idx_s) != 1:
        pr["R05.1"] = f"the pieces come from faces {[f.face for f in forms]}; expected the target face 0 and the linked neighbour face 1"
        return pr
    ft, fs = forms[idx_t[0]], forms[idx_s[0]]
    if (idx_s[0] == 1) != is_right:
        pr["R05.2"] = f"the source piece is attached on the {'upper' if idx_s[0] == 1 else 'lower'} side but the {'right' if is_right else 'left'} side is being padded"
    # target: only the padded side's pre-padding removed
    tdim = [p for n, p in ft.names.items() if axis_of_dim(p) == AX]
    tsel = ft.sel[tdim[0]]
    if tsel != e_target:
        pr.setdefault("R05.2", f"the target keeps {tsel!r} along the padded dimension; expected {e_target!r} (its pre-padded halo removed on the padded side only)")
    for n_, p_ in ft.names.items():
        if axis_of_dim(p_) == AY and ft.sel[p_] != Sel(0, 1, t["along_len"]):
            pr.setdefault("R05.2", f"the target is cut along the along-edge dimension: {ft.sel[p_]!r}")
    if ft.neg:
        pr.setdefault("R05.5", "the target's own values are negated")
    # source: which base array
    want_base = "PARTNER" if (vector and t["partner"]) else "MAIN"
    if fs.base != want_base:
        pr["R05.5" if vector else "R05.1"] = f"halo taken from the {'partner' if fs.base == 'PARTNER' else 'same'} component; the orientation map of a {'swapped' if swap else 'same-axis'} link requires the {'partner' if want_base == 'PARTNER' else 'same'} component"
    b_axis = AY if swap else AX
    o_axis = AX if swap else AY
    # physical dims of the source by axis
    orth_p = [p for p in fs.sel if axis_of_dim(p) == b_axis]
    tang_p = [p for p in fs.sel if axis_of_dim(p) == o_axis]
    if len(orth_p) != 1 or len(tang_p) != 1:
        raise Unmodelled("source dimensions not identified")
    so, stg = fs.sel[orth_p[0]], fs.sel[tang_p[0]]
    if so != e_orth:
        if Sel(so.start, so.step, so.count).count == e_orth.count and so.step != e_orth.step and so.slice(SliceV(None, None, -1)) == e_orth:
            pr.setdefault("R05.3", f"depth order across the link is {'not ' if e_orth.step < 0 else ''}reversed but must {'' if e_orth.step < 0 else 'not '}be (orthogonal flip iff the link is reversed)")
        else:
            pr.setdefault("R05.1", f"source cells along the neighbour's link axis are {so!r} (pre-padded coordinates); the {t['source_edge']} edge is the linked one, so they must be {e_orth!r}")
    if stg != e_tang:
        pr.setdefault("R05.3", f"along-edge selection is {stg!r}; expected {e_tang!r} (mirrored exactly for an axis-swapping non-reversed link)")
    # the source piece must end up named like the target: link axis -> padded dim
    cur_names = {p: n for n, p in fs.names.items()}
    if axis_of_dim(cur_names.get(orth_p[0])) != AX or axis_of_dim(cur_names.get(tang_p[0])) != AY:
        pr.setdefault("R05.1", f"after the link the source's dimensions are named {cur_names}; its link axis must become the padded dimension and its other axis the along-edge dimension")
    # sign
    if vector:
        want_neg = (t["sign_parallel"] if vector == "parallel" else t["sign_tangential"]) < 0
        if bool(fs.neg) != want_neg:
            pr.setdefault("R05.5", f"the {vector} component is {'negated' if fs.neg else 'not negated'} across this link; the orientation map {'reverses' if want_neg else 'keeps'} its direction")
    elif fs.neg:
        pr.setdefault("R05.5", "a scalar is negated across the link")
    # pre-padding of the source with the rule in force
    if fs.prepad is None or ft.prepad is None:
        pr.setdefault("R05.4", "source or target not taken from the pre-padded array")
    return pr


def check(ctx):
    P = ctx.project
    fi = P.func("padding:_pad_face_connections")
    check_link_cells(ctx, P, (None, "parallel", "tangential"))
    check_single_links(ctx, P, (None, "parallel", "tangential"))
    check_shared_source(ctx, P, (None, "parallel", "tangential"))
    check_one_sided(ctx, P)
    for rule, sub in (("R05.4", _check_prepad_and_trim), ("R05.6", _check_open_edges)):
        try:
            sub(ctx, P, fi)
        except Unmodelled as e:  # a lineage the normal form cannot read: no verdict for that rule, never a crash
            ctx.unknown(rule, sub.__name__.strip("_"), str(e))


def _check_face0(chain, is_right, swap, reverse, vector, t, e_orth, e_tang, e_target):
    pr = {}
    padded_dim_axis = AX
    # exactly one replacement on face 0 (only one of its sides is linked)
    if len(chain) != 1:
        pr["R05.6"] = f"face 0 has one linked side but {len(chain)} halo replacements were assembled"
        return pr
    dim, parts, kw = chain[0]
    if axis_of_dim(dim) != padded_dim_axis:
        pr["R05.2"] = f"the halo is concatenated along {dim!r}, not along the padded axis' dimension"
        return pr
    if len(parts) != 2:
        pr["R05.2"] = f"{len(parts)} pieces concatenated, expected target and source"
        return pr
    forms = [norm_form(p) for p in parts]
    # which piece is the target (face 0) and which the source (face 1)?
    idx_t = [i for i, f in enumerate(forms) if f.face == 0]
    idx_s = [i for i, f in enumerate(forms) if f.face == 1]
    if len(idx_t) != 1 or len(idx_s) != 1:
        pr["R05.1"] = f"the pieces come from faces {[f.face for f in forms]}; expected the target face 0 and the linked neighbour face 1"
        return pr
    ft, fs = forms[idx_t[0]], forms[idx_s[0]]
    if (idx_s[0] == 1) != is_right:
        pr["R05.2"] = f"the source piece is attached on the {'upper' if idx_s[0] == 1 else 'lower'} side but the {'right' if is_right else 'left'} side is being padded"
    # target: only the padded side's pre-padding removed
    tdim = [p for n, p in ft.names.items() if axis_of_dim(p) == AX]
    tsel = ft.sel[tdim[0]]
    if tsel != e_target:
        pr.setdefault("R05.2", f"the target keeps {tsel!r} along the padded dimension; expected {e_target!r} (its pre-padded halo removed on the padded side only)")
    for n_, p_ in ft.names.items():
        if axis_of_dim(p_) == AY and ft.sel[p_] != Sel(0, 1, t["along_len"]):
            pr.setdefault("R05.2", f"the target is cut along the along-edge dimension: {ft.sel[p_]!r}")
    if ft.neg:
        pr.setdefault("R05.5", "the target's own values are negated")
    # source: which base array
    want_base = "PARTNER" if (vector and t["partner"]) else "MAIN"
    if fs.base != want_base:
        pr["R05.5" if vector else "R05.1"] = f"halo taken from the {'partner' if fs.base == 'PARTNER' else 'same'} component; the orientation map of a {'swapped' if swap else 'same-axis'} link requires the {'partner' if want_base == 'PARTNER' else 'same'} component"
    b_axis = AY if swap else AX
    o_axis = AX if swap else AY
    # physical dims of the source by axis
    orth_p = [p for p in fs.sel if axis_of_dim(p) == b_axis]
    tang_p = [p for p in fs.sel if axis_of_dim(p) == o_axis]
    if len(orth_p) != 1 or len(tang_p) != 1:
        raise Unmodelled("source dimensions not identified")
    so, stg = fs.sel[orth_p[0]], fs.sel[tang_p[0]]
    if so != e_orth:
        if Sel(so.start, so.step, so.count).count == e_orth.count and so.step != e_orth.step and so.slice(SliceV(None, None, -1)) == e_orth:
            pr.setdefault("R05.3", f"depth order across the link is {'not ' if e_orth.step < 0 else ''}reversed but must {'' if e_orth.step < 0 else 'not '}be (orthogonal flip iff the link is reversed)")
        else:
            pr.setdefault("R05.1", f"source cells along the neighbour's link axis are {so!r} (pre-padded coordinates); the {t['source_edge']} edge is the linked one, so they must be {e_orth!r}")
    if stg != e_tang:
        pr.setdefault("R05.3", f"along-edge selection is {stg!r}; expected {e_tang!r} (mirrored exactly for an axis-swapping non-reversed link)")
    # the source piece must end up named like the target: link axis -> padded dim
    cur_names = {p: n for n, p in fs.names.items()}
    if axis_of_dim(cur_names.get(orth_p[0])) != AX or axis_of_dim(cur_names.get(tang_p[0])) != AY:
        pr.setdefault("R05.1", f"after the link the source's dimensions are named {cur_names}; its link axis must become the padded dimension and its other axis the along-edge dimension")
    # sign
    if vector:
        want_neg = (t["sign_parallel"] if vector == "parallel" else t["sign_tangential"]) < 0
        if bool(fs.neg) != want_neg:
            pr.setdefault("R05.5", f"the {vector} component is {'negated' if fs.neg else 'not negated'} across this link; the orientation map {'reverses' if want_neg else 'keeps'} its direction")
    elif fs.neg:
        pr.setdefault("R05.5", "a scalar is negated across the link")
    # pre-padding of the source with the rule in force
    if fs.prepad is None or ft.prepad is None:
        pr.setdefault("R05.4", "source or target not taken from the pre-padded array")
    return pr


def _check_prepad_and_trim(ctx, P, fi, rule="R05.4", with_vector=True):
    """R05.4 with concrete requested widths: pre-pad = max width on every axis; trim leaves exactly the request."""
    cases = [
        {AX: (1, 2)},
        {AX: (0, 1), AY: (2, 0)},
        {AY: (1, 1)},
        {AX: (3, 0), AY: (0, 0)},
    ]
    # the last case is a vector component across a swapped-axis link: its partner is pre-padded as well, and the partner's
    # pre-padded cells are what ends up in the corners of the halo
    for widths, vec in [(w_, None) for w_ in cases] + ([({AX: (1, 2)}, "parallel")] if with_vector else []):
        inst = f"requested widths {{{', '.join(f'{k.name}: {v}' for k, v in widths.items())}}}" + (", vector component and its partner" if vec else "")
        table = table_for(True, True, False) if vec else table_for(True, False, False)
        try:
            outs = run(P, table, widths=widths, vector=vec) if vec else run(P, table, widths=widths)
        except Unmodelled as e:
            ctx.unknown(rule, inst, str(e))
            continue
        wmax = max(x for v in widths.values() for x in v)
        bad = None
        for o in outs:
            if o.kind != "return":
                bad = f"raises {o.value}"
                continue
            pb = [e for e in o.events if e[0] == "pad_basic"]
            if not pb:
                bad = "no basic pre-padding"
                continue
            from ..facepad import FILLS_IN_FORCE, RULES_IN_FORCE

            want_axes = ({AX, AY} if vec else {AX}) | set(widths)  # axes named in the table + requested axes
            padded_names = set()
            for ev_ in pb:  # the array itself and, for a vector component, its partner
                b = ev_[1]
                who = getattr(b.get("da"), "name", "?")
                padded_names.add(who)
                pw = b["padding_width"]
                if set(pw) != want_axes or any(tuple(v) != (wmax, wmax) for v in pw.values()):
                    bad = bad or f"pre-padding widths {pw!r} ({who}); every connection axis and requested axis must be pre-padded by the maximum requested width ({wmax}, {wmax})"
                fills_ok = b["fill_value"] == FILLS_IN_FORCE or (b.get("__fill_only_where_constant__") and isinstance(b["fill_value"], dict)
                                                                 and all(v == FILLS_IN_FORCE[k] for k, v in b["fill_value"].items() if RULES_IN_FORCE.get(k) == "fill"))
                if b["padding"] != RULES_IN_FORCE or not fills_ok:
                    bad = bad or f"the basic pre-padding of {who} does not use the per-axis rule and fill value in force"
            if vec and not {"MAIN", "PARTNER"} <= padded_names:
                bad = bad or f"only {sorted(padded_names)} are pre-padded; the partner component supplies the halo across a swapped-axis link and needs the same pre-padding"
            faces, facedim, trim = face_parts(o.value)
            extra, unknown_ops = foreign_ops([e for e in trim if e[0] != "isel"])
            if unknown_ops:
                ctx.unknown(rule, inst, f"operation(s) {unknown_ops} after the faces are re-assembled")
                continue
            if extra:
                bad = bad or f"after the faces are re-assembled the result goes through {extra}: only the trim to the requested widths may follow"
            # final trim: compose selections on the concatenated result
            sel = {a: Sel(0, 1, N + Lin.of(2 * wmax)) if a in want_axes else Sel(0, 1, N) for a in (AX, AY)}
            try:
                for e in trim:
                    if e[0] != "isel":
                        continue
                    for d, s in e[1].items():
                        a = axis_of_dim(d)
                        if a is None or not isinstance(s, SliceV):
                            raise Unmodelled(f"trim indexer {d!r}: {s!r}")
                        sel[a] = sel[a].slice(s)
            except Unmodelled as ex:
                ctx.unknown(rule, inst, str(ex))
                continue
            for a in (AX, AY):
                lo, hi = widths.get(a, (0, 0))
                want = Sel(wmax - lo, 1, N + Lin.of(lo + hi)) if a in want_axes else Sel(0, 1, N)
                if sel[a] != want:
                    bad = bad or f"after the final trim axis {a.name} keeps {sel[a]!r} of the pre-padded array; expected {want!r} (exactly {lo} lower and {hi} upper halo cells)"
            if len(faces) != 2 or facedim != FACE:
                bad = bad or "faces are not re-assembled along the face dimension"
        if bad:
            ctx.report(rule, fi, inst, bad)
        else:
            ctx.ok(rule, inst, f"pre-pad ({wmax}, {wmax}) on both axes with the rule in force; trim leaves the requested halo")


def _check_open_edges(ctx, P, fi, rule="R05.6"):
    """R05.6: a face without any link keeps the basic pre-padding untouched; faces are visited by index, in order."""
    table = {FACE: {0: {AX: (None, None)}, 1: {AX: (None, None)}}}
    try:
        outs = run(P, table)
    except Unmodelled as e:
        ctx.unknown(rule, "no links", str(e))
        return
    bad = None
    for o in outs:
        if o.kind != "return":
            bad = f"raises {o.value}"
            continue
        faces, facedim, trim = face_parts(o.value)
        for i, f in enumerate(faces):
            if not isinstance(f, Obj) or f.name != "MAIN":
                bad = f"face {i} without links is replaced by {f!r}"
                continue
            st = norm_form(f)
            if st.face != i:
                bad = f"position {i} of the result holds face {st.face}"
            if st.prepad is None or any(s != Sel(0, 1, L) for p, s in st.sel.items() if axis_of_dim(p) == AX):
                bad = bad or f"face {i}: an unlinked side does not keep the basic pre-padding"
    if bad:
        ctx.report(rule, fi, "faces without links", bad)
    else:
        ctx.ok(rule, "faces without links", "keep the basic pre-padding; faces re-assembled in index order")
