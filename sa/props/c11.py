"""C11 - grid ufuncs: padded core dims last, declared positions out, bound options.

Whole-function abstract evaluation of GridUFunc.__init__/__call__, as_grid_ufunc, Grid.apply_as_grid_ufunc,
apply_as_grid_ufunc (with _apply, _pad_then_rechunk, _substitute_dummy_axis_names,
_identify_dummy_axes_with_real_axes inlined) with opaque arrays and opaque labels:
  R11.1 option binding  - every option of {boundary_width, boundary, fill_value, dask, map_overlap,
                          pad_before_func} given at definition is stored and reaches apply_as_grid_ufunc;
                          a call-time value overrides it; unknown options are refused;
  R11.2 dummy->real     - dummy names are bound to real axes in order of first appearance; out_ax_names and
                          boundary_width are translated through that binding; arity mismatches raise;
  R11.3 core dims       - input/output core dims = grid dimension of (real axis, signature position) in
                          signature order, passed to xr.apply_ufunc with exclude_dims = their union;
  R11.4 guards          - inputs not on the signature's positions, and wrong numbers of arguments / axes /
                          other_component, are refused before anything is padded or applied;
  R11.5 padding         - each input (pad-before) or output (pad-after) goes through pad() with the translated
                          widths, the caller's boundary, fill_value and other_component.
"""
from __future__ import annotations

from ..core import AnalysisError
from ..absint import TOP, Evaluator, Obj, Sym, Unmodelled
from ..harness import foreign_ops, apply_attr_models, apply_models, da_method_models, run_apply
from ..xmodel import COMMON_MODELS, dimsym, make_da, make_grid

EXPLANATION = (
    "Abstract evaluation (opaque arrays, opaque labels) of GridUFunc.__init__/__call__, as_grid_ufunc, Grid.apply_as_grid_ufunc "
    "and the whole of apply_as_grid_ufunc for several signature shapes and bindings; the recorded calls of pad, "
    "xr.apply_ufunc, _reattach_coords are compared with what the property prescribes (options, widths, core dims, "
    "order of first appearance). The user function itself and xarray.apply_ufunc are not executed."
)
ASSUMPTIONS = ["xarray.apply_ufunc moves input_core_dims last and labels outputs with output_core_dims", "pad() pads by the widths it is given (C02/C05)"]
TECHNIQUE = "abstract evaluation of the grid-ufunc call chain (option threading, dummy->real binding, core-dim construction, guards)"
LEVEL_TEXT = (
    "Abstract interpretation of the source of the grid-ufunc call chain: all six definition-time options are stored and reach apply_as_grid_ufunc, "
    "call-time values override them (falsy ones too), an option that is not bound defaults to what apply_as_grid_ufunc itself defaults to, and unknown options are refused; dummy axis names are bound to real axes in order of first appearance and the "
    "binding translates output names and boundary_width; input/output core dims are the grid dimensions of (real axis, signature position) in "
    "signature order and are what xr.apply_ufunc receives; every input is padded by exactly the translated widths with the caller's rule, fill value "
    "and other_component on both the pad-before and pad-after paths; wrongly positioned inputs and arity mismatches raise before any padding. "
    "Structural necessary conditions for every signature and user function; what the user function receives is produced by xarray (trusted)."
)
LEVEL_TEXT += ' Also decided: rule / fill-value mappings keyed by a real axis that is called like a dummy name reach pad() as keyed by the caller; every argument keeps its own order of core dimensions; fewer `axis` entries than signature inputs are refused.'
LEVEL_NOTE = "Trusted: xarray.apply_ufunc core-dim semantics; the abstract evaluator. User functions are opaque."

OPTIONS = ["boundary_width", "boundary", "fill_value", "dask", "map_overlap", "pad_before_func"]


def _capture_apply():
    calls = []

    def m(ev, args, kw, node):
        calls.append((list(args), dict(kw)))
        return Obj("Result", "applied")

    return calls, m


def check(ctx):
    P = ctx.project
    _r11_1(ctx, P)
    _r11_2(ctx, P)
    _r11_345(ctx, P)
    _omitted_options(ctx, P)


# ------------------------------------------------------------------ R11.1
def _r11_1(ctx, P):
    init = P.func("grid_ufunc:GridUFunc.__init__")
    callf = P.func("grid_ufunc:GridUFunc.__call__")

    def m_sig(ev, args, kw, node):
        return Obj("Signature", "sig-from-ctor", (), {"src": args})

    # -- definition: every option stored
    ev = Evaluator(P, models={"grid_ufunc:GridUFunc._get_signature_from_str_or_type_hints": m_sig})
    try:
        outs = ev.run_paths(init, lambda: dict(self=Obj("GridUFunc", "self", (), {"__class__": "grid_ufunc:GridUFunc"}), ufunc=Obj("func", "userfunc"),
                                               kwargs={"signature": "(X:center)->(X:left)", **{o: Sym("DEF_" + o) for o in OPTIONS}}))
        for o in outs:
            if o.kind != "return":
                ctx.report("R11.1", init, "definition with all options", f"raises {o.value}: an option of {OPTIONS} is not accepted at definition time")
                continue
            me = o.env.get("self")
            sg = me.attrs.get("signature")
            src = sg.attrs.get("src") if isinstance(sg, Obj) else None
            if not (isinstance(src, list) and len(src) == 2 and isinstance(src[0], Obj) and src[0].name == "userfunc" and src[1] == "(X:center)->(X:left)"):
                ctx.report("R11.1", init, "definition stores the signature", f"the signature of the ufunc is not derived from (the function, the signature text) in that order (found {src!r})")
            else:
                ctx.ok("R11.1", "definition stores the signature", "from the function's hints or the text")
            uf = me.attrs.get("ufunc")
            if not (isinstance(uf, Obj) and uf.name == "userfunc"):
                ctx.report("R11.1", init, "definition stores the function", f"the wrapped function is not stored (found {uf!r})")
            for opt in OPTIONS:
                if me.attrs.get(opt) != Sym("DEF_" + opt):
                    ctx.report("R11.1", init, f"definition stores {opt}", f"the definition-time `{opt}` is not stored on the GridUFunc (found {me.attrs.get(opt)!r})")
                else:
                    ctx.ok("R11.1", f"definition stores {opt}", "stored")
        outs = ev.run_paths(init, lambda: dict(self=Obj("GridUFunc", "self", (), {"__class__": "grid_ufunc:GridUFunc"}), ufunc=Obj("func", "userfunc"),
                                               kwargs={"signature": "(X:center)->(X:left)", "no_such_option": 1}))
        if all(o.kind == "raise" for o in outs):
            ctx.ok("R11.1", "definition with an unknown option", "refused")
        else:
            ctx.report("R11.1", init, "definition with an unknown option", "an unknown keyword is silently accepted at definition time")
    except Unmodelled as e:
        ctx.unknown("R11.1", "GridUFunc.__init__", str(e))

    # -- an option given neither at definition nor at call: the ufunc must behave like apply_as_grid_ufunc called without it,
    #    i.e. what the constructor stores by default equals that function's own default (two sibling default tables)
    from ..registry import gridufunc_attrs

    try:
        stored = gridufunc_attrs(P, {})
        app = P.func("grid_ufunc:apply_as_grid_ufunc")
        a = app.node.args
        names = [x.arg for x in a.posonlyargs + a.args]
        defaults = dict(zip(names[len(names) - len(a.defaults):], a.defaults))
        defaults.update({x.arg: d for x, d in zip(a.kwonlyargs, a.kw_defaults) if d is not None})
        mod = P.module("grid_ufunc")
        for opt in OPTIONS:
            inst = f"default of {opt}"
            if opt not in defaults:
                ctx.unknown("R11.1", inst, f"apply_as_grid_ufunc has no default for `{opt}`")
                continue
            try:
                want = P.fold(defaults[opt], mod)
            except ValueError:
                ctx.unknown("R11.1", inst, "default of apply_as_grid_ufunc is not a constant")
                continue
            if opt not in stored or stored[opt] != want or type(stored[opt]) != type(want):
                ctx.report("R11.1", init, inst, f"a GridUFunc defined without `{opt}` stores {stored.get(opt, '<nothing>')!r}, but apply_as_grid_ufunc called without it uses {want!r}: "
                           "an option that is not bound does not act as if it had not been passed")
            else:
                ctx.ok("R11.1", inst, f"{want!r} in both tables")
    except (Unmodelled, AnalysisError) as e:
        ctx.unknown("R11.1", "defaults", str(e))

    class _Skip(Exception):
        pass

    # -- call: bound options reach apply_as_grid_ufunc; call-time overrides
    def run_call(call_kwargs, bound=None):
        calls, m = _capture_apply()
        ev2 = Evaluator(P, models={"grid_ufunc:apply_as_grid_ufunc": m})
        attrs = {"__class__": "grid_ufunc:GridUFunc", "ufunc": Obj("func", "userfunc"), "signature": Obj("Signature", "bound-sig")}
        attrs.update({o: Sym("DEF_" + o) for o in OPTIONS})
        attrs.update(bound or {})
        me = Obj("GridUFunc", "self", (), attrs)
        g = make_grid()
        da = make_da("da", [dimsym("AX", "center")])
        try:
            outs = ev2.run_paths(callf, lambda: dict(self=me, grid=g, args=(da,), axis=Sym("USER_AXIS"), kwargs=dict(call_kwargs)))
        except Unmodelled as e:
            # opaque option values (one token per option) cannot be followed through this tree: no verdict for this case only
            ctx.unknown("R11.1", f"GridUFunc.__call__ with call-time {sorted(call_kwargs)} on {'concrete' if bound else 'opaque'} bound options", str(e))
            raise _Skip()
        return outs, calls, me, g, da

    try:
        try:
            outs, calls, me, g, da = run_call({"other_component": Sym("USER_OTHER"), "keep_coords": Sym("USER_KEEP")})
        except _Skip:
            outs, calls = [], []
        if not outs and not calls:
            pass
        elif len(calls) != 1 or any(o.kind != "return" for o in outs):
            ctx.report("R11.1", callf, "call without call-time options", "calling a GridUFunc does not result in exactly one call of apply_as_grid_ufunc")
        else:
            args, kw = calls[0]
            b = dict(zip(["func"], args[:1]))
            if args[:1] != [me.attrs["ufunc"]] or args[1:] != [da] or kw.get("grid") is not g or kw.get("axis") != Sym("USER_AXIS") or kw.get("signature") is not me.attrs["signature"]:
                ctx.report("R11.1", callf, "call forwards ufunc/args/grid/axis/signature", "the bound function, the data arguments, grid, axis or the bound signature do not reach apply_as_grid_ufunc unchanged")
            else:
                ctx.ok("R11.1", "call forwards ufunc/args/grid/axis/signature", "unchanged")
            if kw.get("other_component") != Sym("USER_OTHER") or kw.get("keep_coords") != Sym("USER_KEEP"):
                ctx.report("R11.1", callf, "call forwards other keyword arguments", "other_component / keep_coords given at call time do not reach apply_as_grid_ufunc")
            for opt in OPTIONS:
                if kw.get(opt) != Sym("DEF_" + opt):
                    ctx.report("R11.1", callf, f"bound {opt} used at call", f"the `{opt}` bound at definition does not reach apply_as_grid_ufunc when the call gives none (it receives {kw.get(opt, '<nothing>')!r}): the option acts as if it had not been given")
                else:
                    ctx.ok("R11.1", f"bound {opt} used at call", "reaches apply_as_grid_ufunc")
        for opt in OPTIONS:
            try:
                outs, calls, me, g, da = run_call({opt: Sym("CALL_" + opt)})
            except _Skip:
                continue
            inst = f"call-time {opt} overrides"
            if any(o.kind != "return" for o in outs):
                o = [o for o in outs if o.kind != "return"][0]
                ctx.report("R11.1", callf, inst, f"passing `{opt}` at call time raises {o.value} ({getattr(o.exc, 'msg', '') or ''}) instead of overriding the bound value")
            elif len(calls) != 1 or calls[0][1].get(opt) != Sym("CALL_" + opt):
                ctx.report("R11.1", callf, inst, f"a call-time `{opt}` does not override the value bound at definition")
            else:
                others = [o2 for o2 in OPTIONS if o2 != opt and calls[0][1].get(o2) != Sym("DEF_" + o2)]
                if others:
                    ctx.report("R11.1", callf, inst, f"overriding `{opt}` disturbs the bound {others}")
                else:
                    ctx.ok("R11.1", inst, "call-time value wins, the other bound options are kept")
        # options that are mappings are replaced as a whole, not merged entry by entry: "call-time values override" means the
        # call acts exactly as if the option had been passed to apply_as_grid_ufunc directly
        for opt, bound_v, call_v in (("boundary_width", {"X": (1, 0), "Y": (0, 1)}, {"X": (2, 2)}), ("boundary", {"X": "fill", "Y": "extend"}, {"Y": "periodic"}), ("fill_value", {"X": 1.5, "Y": 2.5}, {"X": 0.0})):
            inst = f"call-time {opt} mapping replaces the bound mapping"
            try:
                outs, calls, me, g, da = run_call({opt: dict(call_v)}, bound={opt: dict(bound_v)})
            except _Skip:
                continue
            if any(o.kind != "return" for o in outs) or len(calls) != 1:
                ctx.report("R11.1", callf, inst, f"passing a {opt} mapping at call time fails")
            elif calls[0][1].get(opt) != call_v:
                ctx.report("R11.1", callf, inst, f"with {opt}={bound_v!r} bound at definition and {call_v!r} given at call time apply_as_grid_ufunc receives {calls[0][1].get(opt)!r}: the call does not act as if {call_v!r} had been passed directly")
            else:
                ctx.ok("R11.1", inst, "the call-time mapping is what apply_as_grid_ufunc receives")
        # a call-time value that happens to be falsy (0, False) is still a value
        for opt, val in (("fill_value", 0), ("fill_value", 0.0), ("map_overlap", False), ("pad_before_func", False)):
            try:
                outs, calls, me, g, da = run_call({opt: val})
            except _Skip:
                continue
            inst = f"call-time {opt}={val!r} overrides"
            if any(o.kind != "return" for o in outs) or len(calls) != 1:
                ctx.report("R11.1", callf, inst, f"passing {opt}={val!r} at call time fails")
            elif calls[0][1].get(opt) != val or type(calls[0][1].get(opt)) is not type(val):
                ctx.report("R11.1", callf, inst, f"a call-time {opt}={val!r} is treated as 'not given': apply_as_grid_ufunc receives {calls[0][1].get(opt)!r} (the value bound at definition)")
            else:
                ctx.ok("R11.1", inst, "falsy call-time value wins")
    except Unmodelled as e:
        ctx.unknown("R11.1", "GridUFunc.__call__", str(e))

    # -- decorator
    deco = P.func("grid_ufunc:as_grid_ufunc")
    made = []

    def m_cls(ev, args, kw, node):
        made.append((list(args), dict(kw)))
        return Obj("GridUFunc", "constructed")

    try:
        ev3 = Evaluator(P, models={"grid_ufunc:GridUFunc": m_cls})
        opts = {o: Sym("DEF_" + o) for o in OPTIONS if o != "boundary_width"}
        outs = ev3.run_paths(deco, lambda: dict(signature="(X:center)->(X:left)", boundary_width=Sym("DEF_boundary_width"), kwargs=dict(opts)))
        ok = True
        for o in outs:
            if o.kind != "return":
                ctx.report("R11.1", deco, "as_grid_ufunc accepts the options", f"as_grid_ufunc raises {o.value} for the documented options {sorted(opts)}")
                ok = False
                continue
            uf = Obj("func", "userfunc")
            made.clear()
            ev3.call(o.value, [uf], {}, None)
            if len(made) != 1:
                ctx.report("R11.1", deco, "as_grid_ufunc constructs GridUFunc", "the decorator does not construct exactly one GridUFunc")
                ok = False
                continue
            a, kw = made[0]
            exp = dict(opts, signature="(X:center)->(X:left)", boundary_width=Sym("DEF_boundary_width"))
            if a != [uf] or kw != exp:
                ctx.report("R11.1", deco, "as_grid_ufunc forwards the options", f"GridUFunc is constructed with {kw!r}; expected every option given to the decorator {exp!r}")
                ok = False
        if ok:
            ctx.ok("R11.1", "as_grid_ufunc forwards the options", "all options reach GridUFunc")
        outs = ev3.run_paths(deco, lambda: dict(signature="(X:center)->(X:left)", boundary_width=None, kwargs={"bogus": 1}))
        if all(o.kind == "raise" for o in outs):
            ctx.ok("R11.1", "as_grid_ufunc with an unknown option", "refused")
        else:
            ctx.report("R11.1", deco, "as_grid_ufunc with an unknown option", "unknown option accepted by the decorator")
    except Unmodelled as e:
        ctx.unknown("R11.1", "as_grid_ufunc", str(e))

    # -- Grid.apply_as_grid_ufunc method
    meth = P.func("grid:Grid.apply_as_grid_ufunc")
    calls, m = _capture_apply()
    try:
        ev4 = Evaluator(P, models={"grid_ufunc:apply_as_grid_ufunc": m})
        g = make_grid()
        da = make_da("da", [dimsym("AX", "center")])
        # every keyword the module-level function understands (plus one for xarray.apply_ufunc) is given to the method -
        # as an explicit parameter where the method has one, through its **kwargs otherwise - and must arrive unchanged
        target = P.func("grid_ufunc:apply_as_grid_ufunc")
        t_pos, t_va, t_ko, t_kw = target.params
        names = [n for n in list(t_pos) + list(t_ko) if n not in ("func", "grid")]
        vals = {n: Sym("USER_" + n) for n in names}
        m_pos, m_va, m_ko, m_kw = meth.params
        explicit = {n: v for n, v in vals.items() if n in list(m_pos) + list(m_ko)}
        through_kw = {n: v for n, v in vals.items() if n not in explicit}
        through_kw["extra_option"] = Sym("USER_EXTRA")
        if not m_kw and len(through_kw) > 1:
            raise Unmodelled("Grid.apply_as_grid_ufunc has no **kwargs")
        outs = ev4.run_paths(meth, lambda: {"self": g, "func": Obj("func", "userfunc"), (m_va or "args"): (da,), (m_kw or "kwargs"): dict(through_kw), **explicit})
        if len(calls) != len(outs) or any(o.kind != "return" for o in outs):
            ctx.report("R11.1", meth, "Grid.apply_as_grid_ufunc", "does not call apply_as_grid_ufunc exactly once")
        else:
            a, kw = calls[0]
            exp = dict(vals, grid=g, extra_option=Sym("USER_EXTRA"))
            if len(a) != 2 or a[1] is not da or {k: kw.get(k) for k in exp} != exp:
                ctx.report("R11.1", meth, "Grid.apply_as_grid_ufunc", f"arguments are not forwarded unchanged (got {kw!r})")
            else:
                ctx.ok("R11.1", "Grid.apply_as_grid_ufunc", "forwards every argument with grid=self")
    except Unmodelled as e:
        ctx.unknown("R11.1", "Grid.apply_as_grid_ufunc", str(e))


# ------------------------------------------------------------------ R11.2
def _r11_2(ctx, P):
    fi = P.func("grid_ufunc:_identify_dummy_axes_with_real_axes")
    S = Sym
    cases = [
        ([("X",)], [(S("A"),)], {"X": S("A")}),
        ([("X", "Y")], [(S("A"), S("B"))], {"X": S("A"), "Y": S("B")}),
        ([("Y", "X")], [(S("A"), S("B"))], {"Y": S("A"), "X": S("B")}),
        ([("X", "Y"), ("Y",)], [(S("A"), S("B")), (S("B"),)], {"X": S("A"), "Y": S("B")}),
        ([("X",), ("Y", "X")], [(S("B"),), (S("A"), S("B"))], {"X": S("B"), "Y": S("A")}),
        ([("X",), ("X",)], [(S("A"),), (S("A"),)], {"X": S("A")}),
        ([("Z", "Y", "X")], [(S("C"), S("A"), S("B"))], {"Z": S("C"), "Y": S("A"), "X": S("B")}),
        ([("X",)], [(S("A"),), (S("B"),)], "raise"),
        # fewer entries in `axis` than the signature has inputs (zip would silently stop at the shorter one)
        ([("X",), ("X",)], [(S("A"),)], "raise"),
        ([("X", "Y"), ("Y",)], [(S("A"), S("B"))], "raise"),
        ([("X",), ("X",), ("X",)], [(S("A"),), (S("A"),)], "raise"),
        ([("X", "Y")], [(S("A"),)], "raise"),
        ([("X",), ("Y",)], [(S("A"),), (S("A"),)], "raise"),
        # the per-argument counts differ although the totals of distinct names agree
        ([("X", "Y"), ("X",)], [(S("A"),), (S("A"), S("B"))], "raise"),
        ([("X",)], [(S("A"), S("A"))], "raise"),
        # only an *earlier* argument has the wrong number of axes; the last one and the totals of distinct names fit
        ([("X", "Y"), ("Y",)], [(S("A"),), (S("B"),)], "raise"),
        ([("X",), ("X", "Y"), ("Y",)], [(S("A"),), (S("B"),), (S("B"),)], "raise"),
    ]
    ev = Evaluator(P)
    for names, axis, want in cases:
        inst = f"bind {names} to {axis}"
        try:
            outs = ev.run_paths(fi, lambda: dict(sig_in_dummy_ax_names=[tuple(n) for n in names], axis=[tuple(a) for a in axis]))
        except Unmodelled as e:
            ctx.unknown("R11.2", inst, str(e))
            continue
        bad = None
        for o in outs:
            if want == "raise":
                if o.kind != "raise":
                    bad = f"mismatching numbers of axes are accepted (returns {o.value!r})"
            elif o.kind != "return":
                bad = f"raises {o.value}"
            elif not isinstance(o.value, dict) or dict(o.value) != want or list(o.value) != list(want):
                bad = f"binding {o.value!r}; dummy names must be bound to real axes in order of first appearance: {want!r}"
        if bad:
            ctx.report("R11.2", fi, inst, bad)
        else:
            ctx.ok("R11.2", inst, "order of first appearance" if want != "raise" else "refused")


def _omitted_options(ctx, P):
    """R11.5: an option the caller leaves out stays left out on its way to pad() - and the one that is given arrives - so that the
    Grid-level setting applies to the former (a fill value without a rule is used with the Grid's rule, and the other way round)."""
    from .c02 import same_option

    fi = P.func("grid_ufunc:apply_as_grid_ufunc")
    for what, over in (("a fill value without a rule", dict(boundary=None)), ("a rule without a fill value", dict(fill_value=None)), ("neither", dict(boundary=None, fill_value=None))):
        for before in (True, False):
            inst = f"apply_as_grid_ufunc with {what}, {'pad before' if before else 'pad after'}"
            try:
                outs = run_apply(P, "(X:center)->(X:left)" if before else "(X:center)->(X:outer)", [(Sym("AX"),)], boundary_width={"X": (1, 0)}, pad_before_func=before, **over)
            except Unmodelled as e:
                ctx.unknown("R11.5", inst, str(e))
                continue
            bad = None
            n = 0
            for o in outs:
                for e in o.events:
                    if e[0] != "pad":
                        continue
                    n += 1
                    want_b = None if "boundary" in over else Sym("USER_BOUNDARY")
                    want_f = None if "fill_value" in over else Sym("USER_FILL")
                    if not same_option(P, "boundary", e[2], want_b, ("AX", "AY")):
                        bad = bad or f"pad() receives boundary={e[2]!r}; the caller gave {'none' if want_b is None else 'one'}"
                    if not same_option(P, "fill_value", e[3], want_f, ("AX", "AY")):
                        bad = bad or f"pad() receives fill_value={e[3]!r}; the caller gave {'none: the Grid-level value must apply' if want_f is None else 'one: it is dropped'}"
            if not n:
                ctx.unknown("R11.5", inst, "no pad() call seen")
            elif bad:
                ctx.report("R11.5", fi, inst, bad)
            else:
                ctx.ok("R11.5", inst, "given options arrive, omitted ones stay omitted")


# ------------------------------------------------------------------ R11.3 - R11.5
def _oc_key(oc):
    if isinstance(oc, dict):
        return tuple((k, v.name if isinstance(v, Obj) else repr(v)) for k, v in oc.items())
    return repr(oc)


def _events(o, name):
    return [e for e in o.events if e[0] == name]


def _r11_345(ctx, P):
    fi = P.func("grid_ufunc:apply_as_grid_ufunc")
    AXs, AYs = Sym("AX"), Sym("AY")

    # -- a two-axis signature with swapped dummy order and one output
    def case(name, signature, axis, args, bw, exp_in, exp_out, exp_bw, pad_before=True, n_out=1, other=None, exp_other=None):
        try:
            outs = run_apply(P, signature, axis, args=args, boundary_width=bw, pad_before_func=pad_before, other_component=other)
        except Unmodelled as e:
            ctx.unknown("R11.3", name, str(e))
            return
        probs = {}
        for o in outs:
            if o.kind != "return":
                probs.setdefault("R11.3", f"raises {o.value} (line {getattr(getattr(o.exc, 'node', None), 'lineno', '?')})")
                continue
            au = _events(o, "xr.apply_ufunc")
            pads = _events(o, "pad")
            if len(au) != 1:
                probs.setdefault("R11.3", f"xr.apply_ufunc called {len(au)} times")
                continue
            a, kw = au[0][1], au[0][2]
            if kw.get("input_core_dims") != exp_in:
                probs.setdefault("R11.3", f"input_core_dims={kw.get('input_core_dims')!r}; expected the grid dimensions of (real axis, signature position) per input in signature order: {exp_in!r}")
            if kw.get("output_core_dims") != exp_out:
                probs.setdefault("R11.3", f"output_core_dims={kw.get('output_core_dims')!r}; expected {exp_out!r} (output dummy names translated through the binding)")
            want_ex = {d for arg in exp_in + exp_out for d in arg}
            if kw.get("exclude_dims") != want_ex:
                probs.setdefault("R11.3", f"exclude_dims={kw.get('exclude_dims')!r}; expected the union of all core dims {want_ex!r}")
            if kw.get("dask") != Sym("USER_DASK") or kw.get("extra_option") != Sym("USER_EXTRA"):
                probs.setdefault("R11.3", "the caller's dask mode / extra keyword arguments do not reach xr.apply_ufunc")
            # padding
            n_in = len(exp_in)
            want_n_pads = n_in if pad_before else n_out
            if len(pads) != want_n_pads:
                probs.setdefault("R11.5", f"pad() called {len(pads)} times; expected once per {'input' if pad_before else 'output'} ({want_n_pads})")
            g = o.env.get("grid")
            for i, p in enumerate(pads):
                _, widths, boundary, fill, grid_, oc, data, _node = p
                if widths != exp_bw:
                    probs.setdefault("R11.5", f"pad() receives widths {widths!r}; expected boundary_width translated to real axes {exp_bw!r}")
                if boundary != Sym("USER_BOUNDARY") or fill != Sym("USER_FILL"):
                    from .c02 import same_option

                    if not (same_option(P, "boundary", boundary, Sym("USER_BOUNDARY"), ("AX", "AY")) and same_option(P, "fill_value", fill, Sym("USER_FILL"), ("AX", "AY"))):
                        probs.setdefault("R11.5", "the caller's boundary / fill_value do not reach pad()")
                if grid_ is not g:
                    probs.setdefault("R11.5", "pad() is not given the grid")
                if exp_other is not None and _oc_key(oc) != _oc_key(exp_other[i]):
                    probs.setdefault("R11.5", f"other_component for argument {i} is {oc!r}, expected {exp_other[i]!r}")
            if pad_before:
                # the function must be applied to the padded arrays, in order
                fed = a[1:]
                if len(fed) != n_in or any(not (isinstance(x, Obj) and any(e[0] == "PAD" for e in x.eff)) for x in fed):
                    probs.setdefault("R11.5", "xr.apply_ufunc is not applied to the padded inputs")
            else:
                res = o.value if isinstance(o.value, (list, tuple)) else [o.value]
                if any(not (isinstance(x, Obj) and any(e[0] == "PAD" for e in x.eff)) for x in res):
                    probs.setdefault("R11.5", "with pad_before_func=False the outputs are not padded")
            ra = _events(o, "reattach")
            if len(ra) != 1 or ra[0][1] is not g or ra[0][2] != Sym("USER_KEEP"):
                probs.setdefault("R11.3", "results are not passed through _reattach_coords with the grid and the caller's keep_coords")
            # what comes back is what the function returned (padded afterwards if asked), re-labelled - nothing else
            for x in (o.value if isinstance(o.value, (list, tuple)) else [o.value]):
                if isinstance(x, Obj):
                    others, unknown_ops = foreign_ops(x.eff, expected=("PAD", "REATTACH", "RECHUNK"))
                    if unknown_ops:
                        raise Unmodelled(f"operation(s) {unknown_ops} on a returned array")
                    if x.name != "RESULT" or others:
                        probs.setdefault("R11.3", f"a returned array is {x.name!r} after {[e[0] for e in x.eff]}: the function's output is altered by {others or 'something else'} on its way back")
        if probs:
            for r, msg in sorted(probs.items()):
                ctx.report(r, fi, name, msg)
        else:
            ctx.ok("R11.3", name, f"core dims {exp_in} -> {exp_out}, pad widths {exp_bw}")

    def one(pos_x="center", pos_y="center"):
        return lambda: (make_da("da", [Sym("t"), dimsym("AX", pos_x), dimsym("AY", pos_y)]),)

    dX = lambda p: dimsym("AX", p)
    dY = lambda p: dimsym("AY", p)
    case("1 input, 1 axis", "(X:center)->(X:left)", [(AXs,)], one(), {"X": (1, 0)}, [[dX("center")]], [[dX("left")]], {AXs: (1, 0)})
    case("dummy bound to the second grid axis", "(X:center)->(X:outer)", [(AYs,)], one(), {"X": (1, 1)}, [[dY("center")]], [[dY("outer")]], {AYs: (1, 1)})
    case("2 axes, dummy order swapped", "(Y:center,X:left)->(X:center,Y:left)", [(AYs, AXs)], one("left", "center"), {"X": (0, 1), "Y": (2, 0)},
         [[dY("center"), dX("left")]], [[dX("center"), dY("left")]], {AXs: (0, 1), AYs: (2, 0)})
    case("2 inputs", "(X:center),(X:left)->(X:center)", [(AXs,), (AXs,)],
         lambda: (make_da("da", [Sym("t"), dX("center")]), make_da("db", [dX("left"), Sym("t")])), {"X": (1, 1)},
         [[dX("center")], [dX("left")]], [[dX("center")]], {AXs: (1, 1)})
    # every argument has its own order of core dimensions: the user function receives each array as *its* entry of the signature says
    case("2 inputs listing the same axes in different order", "(X:center,Y:center),(Y:left,X:center)->(X:center,Y:center)", [(AXs, AYs), (AYs, AXs)],
         lambda: (make_da("da", [Sym("t"), dX("center"), dY("center")]), make_da("db", [Sym("t"), dX("center"), dY("left")])), {"X": (1, 0), "Y": (0, 2)},
         [[dX("center"), dY("center")], [dY("left"), dX("center")]], [[dX("center"), dY("center")]], {AXs: (1, 0), AYs: (0, 2)})
    case("output listing the axes in another order than the input", "(X:center,Y:center)->(Y:left,X:center)", [(AXs, AYs)], one(), {"X": (0, 0), "Y": (1, 0)},
         [[dX("center"), dY("center")]], [[dY("left"), dX("center")]], {AXs: (0, 0), AYs: (1, 0)})
    case("2 outputs", "(X:center)->(X:left),(X:right)", [(AXs,)], one(), {"X": (1, 1)}, [[dX("center")]], [[dX("left")], [dX("right")]], {AXs: (1, 1)}, n_out=2)
    case("no boundary_width", "(X:center,Y:center)->(X:center,Y:center)", [(AXs, AYs)], one(), None, [[dX("center"), dY("center")]], [[dX("center"), dY("center")]], {AXs: (0, 0), AYs: (0, 0)})
    case("pad after the function", "(X:center)->(X:outer)", [(AXs,)], one(), {"X": (1, 0)}, [[dX("center")]], [[dX("outer")]], {AXs: (1, 0)}, pad_before=False)
    oc1, oc2 = {AYs: make_da("vpartner", [dX("center"), dY("left")])}, {AXs: make_da("upartner", [dX("left"), dY("center")])}
    case("vector inputs with other_component", "(X:left),(Y:left)->(X:center)", [(AXs,), (AYs,)],
         lambda: ({AXs: make_da("u", [Sym("t"), dX("left"), dY("center")])}, {AYs: make_da("v", [Sym("t"), dX("center"), dY("left")])}), {"X": (0, 1), "Y": (0, 1)},
         [[dX("left")], [dY("left")]], [[dX("center")]], {AXs: (0, 1), AYs: (0, 1)}, other=[oc1, oc2], exp_other=[oc1, oc2])

    # dummy names that coincide, crosswise, with the names of the real axes
    try:
        def grid_xy():
            g = make_grid(("X", "Y"))
            g.attrs["axes"] = {k.name: v for k, v in g.attrs["axes"].items()}  # axes keyed by the plain strings "X", "Y"
            return g

        outs = run_apply(P, "(X:center,Y:center)->(X:center,Y:center)", [("Y", "X")], args=lambda: (make_da("da", [Sym("t"), dimsym("Y", "center"), dimsym("X", "center")]),),
                         boundary_width={"X": (1, 0), "Y": (0, 2)}, grid=grid_xy)
        bad = None
        for o in outs:
            pads = _events(o, "pad")
            if o.kind != "return" or not pads:
                bad = f"{o.kind} {o.value}"
            for p in pads:
                if p[1] != {"Y": (1, 0), "X": (0, 2)}:
                    bad = f"with signature axes (X, Y) bound to the real axes (Y, X), boundary_width {{X: (1, 0), Y: (0, 2)}} reaches pad() as {p[1]!r}; the dummy X is the real Y, so it must be {{Y: (1, 0), X: (0, 2)}}"
        if bad:
            ctx.report("R11.5", fi, "dummy names equal to real axis names, bound crosswise", bad)
        else:
            ctx.ok("R11.5", "dummy names equal to real axis names, bound crosswise", "widths follow the binding, not the spelling")
    except Unmodelled as e:
        ctx.unknown("R11.5", "dummy names equal to real axis names, bound crosswise", str(e))

    # per-axis mappings of rules / fill values are keyed by REAL axis names: a real axis that happens to be called like a dummy
    # name of the signature (every predefined ufunc says "X") keeps its own entry - only boundary_width speaks the signature's names
    def _real(opt, a, default):
        return opt.get(a, default) if isinstance(opt, dict) else opt

    for oname, b_opt, f_opt in (("partial mappings naming the other real axis", {"X": "extend"}, {"X": 7.0}),
                                ("total mappings listing the operated axis first", {"Y": "fill", "X": "extend"}, {"Y": 1.0, "X": 7.0}),
                                ("total mappings listing the operated axis last", {"X": "extend", "Y": "fill"}, {"X": 7.0, "Y": 1.0})):
        inst = f"real axis called like the dummy name, {oname}"
        try:
            import copy as _copy
            outs = run_apply(P, "(X:center)->(X:left)", [("Y",)], args=lambda: (make_da("da", [Sym("t"), dimsym("Y", "center"), dimsym("X", "center")]),),
                             boundary_width={"X": (1, 0)}, grid=grid_xy, boundary=_copy.deepcopy(b_opt), fill_value=_copy.deepcopy(f_opt))
            bad = None
            for o in outs:
                pads = _events(o, "pad")
                if o.kind != "return" or not pads:
                    bad = f"{o.kind} {o.value}"
                for pd in pads:
                    NOTHING = object()
                    for a in ("X", "Y"):
                        for what, got, want in (("boundary", pd[2], b_opt), ("fill_value", pd[3], f_opt)):
                            g, w = _real(got, a, NOTHING), _real(want, a, NOTHING)
                            # "nothing for this axis" may also arrive spelled out: None, or the axis' own default (options completed before pad())
                            if g is None or (w is NOTHING and g == Sym(("boundary_default_" if what == "boundary" else "fill_default_") + a)):
                                g = NOTHING
                            if g is not w and g != w:
                                bad = bad or (f"the caller's {what}={want!r} (keyed by real axis names; the ufunc's dummy X is bound to the real axis Y) reaches pad() as "
                                              f"{got!r}: the entry of the real axis {a} is " + ("lost" if g is NOTHING else "not the caller's"))
            if bad:
                ctx.report("R11.5", fi, inst, bad)
            else:
                ctx.ok("R11.5", inst, "rule / fill value mappings reach pad() keyed as the caller keyed them")
        except Unmodelled as e:
            ctx.unknown("R11.5", inst, str(e))

    # -- R11.4 guards: must raise, and before anything is padded or applied
    def refuse(name, signature, axis, args, other=None, bw=None):
        try:
            outs = run_apply(P, signature, axis, args=args, boundary_width=bw or {"X": (1, 0)}, other_component=other)
        except Unmodelled as e:
            ctx.unknown("R11.4", name, str(e))
            return
        bad = None
        for o in outs:
            if o.kind != "raise":
                bad = "is answered instead of refused"
            elif _events(o, "pad") or _events(o, "xr.apply_ufunc"):
                bad = "is refused only after padding / applying the function"
        if bad:
            ctx.report("R11.4", fi, name, f"{name} {bad}")
        else:
            ctx.ok("R11.4", name, "refused before any padding")

    refuse("input on the wrong position", "(X:center)->(X:left)", [(AXs,)], one("left"))
    refuse("second of two inputs on the wrong position", "(X:center),(X:left)->(X:center)", [(AXs,), (AXs,)],
           lambda: (make_da("da", [dX("center")]), make_da("db", [dX("center")])))
    refuse("second axis of one input on the wrong position", "(X:center,Y:center)->(X:left,Y:center)", [(AXs, AYs)], one("center", "left"), bw={"X": (1, 0)})
    refuse("position the axis does not have", "(X:center)->(X:left)", [(AXs,)], one(), bw=None) if False else None
    refuse("more data arguments than axis entries", "(X:center)->(X:left)", [(AXs,)], lambda: (make_da("da", [dX("center")]), make_da("db", [dX("center")])))
    refuse("fewer data arguments than signature inputs", "(X:center),(X:center)->(X:left)", [(AXs,), (AXs,)], one())
    refuse("axis entry with too many axes", "(X:center)->(X:left)", [(AXs, AYs)], one())
    refuse("fewer real axes than dummy axes", "(X:center,Y:center)->(X:left,Y:center)", [(AXs, AXs)], one())
    refuse("other_component for one of two inputs only", "(X:left),(Y:left)->(X:center)", [(AXs,), (AYs,)],
           lambda: ({AXs: make_da("u", [dX("left"), dY("center")])}, {AYs: make_da("v", [dX("center"), dY("left")])}), other=[oc1, oc2, oc1])
    # axis missing / grid missing
    for nm, over in (("no grid", {"grid": None}), ("no axis", {})):
        try:
            if nm == "no grid":
                outs = run_apply(P, "(X:center)->(X:left)", [(AXs,)], args=one(), grid=lambda: None)
            else:
                outs = run_apply(P, "(X:center)->(X:left)", None, args=one())
            if all(o.kind == "raise" for o in outs):
                ctx.ok("R11.4", nm, "refused")
            else:
                ctx.report("R11.4", fi, nm, f"a call with {nm} is answered")
        except Unmodelled as e:
            ctx.unknown("R11.4", nm, str(e))
