"""C20 - ill-posed requests raise instead of returning an array.

For each class of the property an ill-posed request is evaluated abstractly through the real call chain
(dispatch -> _select_grid_ufunc on the extracted registry -> GridUFunc.__call__ -> apply_as_grid_ufunc -> pad, or
cumsum / transform / Axis.__init__ / pad directly); every path must end in an exception and none may return:
  G1 unknown axis          G2 zero or two axis dimensions on the data     G3 shift to the same position / to a
  position the axis lacks  G4 unknown position word                        G5 unknown boundary word (every pad
  path, per call and as Grid default)   G6 non-numeric fill value          G7 transform along a periodic axis
  G8 non-monotonic conservative bins    G9 conservative transform without outer positions
  G10 grid-ufunc inputs on wrong positions / wrong numbers (shared with C11 R11.4)
and the matching well-posed request must *not* raise (so a guard that refuses everything is reported too).
"""
from __future__ import annotations

import copy

from ..absint import Lin, TOP, Evaluator, Obj, Sym, Unmodelled
from ..harness import apply_attr_models, apply_models, da_attr_models, da_method_models, dispatch_models, m_from_string, m_sig_ctor, run_apply
from ..registry import extract, parse_signature
from ..xmodel import COMMON_MODELS, dimsym, make_da, make_grid
from .c01 import _canon, run_axis_init
from .c02 import run_pad
from .c09 import _run_cumsum

EXPLANATION = (
    "A battery of ill-posed requests, one or more per class of the property, each evaluated abstractly through the real call "
    "chain with the registry extracted from gridops.py; every path must raise, and the well-posed twin of each request must "
    "return. Guards are thereby checked for presence, condition and position (before an array is answered) at once."
)
ASSUMPTIONS = ["exceptions raised inside xarray/numpy are outside the analysis", "the abstract evaluator models KeyError/IndexError/TypeError/AttributeError of Python containers"]
TECHNIQUE = "abstract evaluation of ill-posed requests through the call chain (every path must raise; well-posed twin must return)"
LEVEL_TEXT = (
    "For every error class of the property, representative ill-posed requests (unknown axis, data without / with two axis dimensions, impossible shifts, "
    "unknown position or boundary words on every pad path, non-numeric fill values, periodic transform, non-monotonic bins, missing outer position, wrong "
    "grid-ufunc arity/positions) are interpreted abstractly through the real call chain and must raise on every path while the corresponding valid request "
    "returns. This decides presence, condition and placement of each guard for opaque data and names; it samples each class by construction of the "
    "request, not all members of the class on all layouts."
    " Refusals include metric registration for an unknown axis, the impossible shift on the second of two cumsum axes, falsy unknown words, NaN bin edges, and position words in signatures and annotations."
)
LEVEL_TEXT += ' Also decided: falsy spellings of unknown words / non-numeric fill values at the constructor, a falsy target position in the dispatch and cumsum, fewer arguments and axis entries than signature inputs.'
LEVEL_NOTE = "Trusted: abstract evaluator's exception model for Python containers. Each class is represented by a small family of requests (listed in the evidence)."

AX, AY = Sym("AX"), Sym("AY")


def full_dispatch(P, funcname, pos, to, positions=None, axis_arg=None, dims=None, kwargs=None, axnames=("AX",)):
    """Dispatch -> real selection on the extracted registry -> GridUFunc.__call__ -> apply_as_grid_ufunc (inlined)."""
    entries = extract(P)
    members = []
    for e in entries:
        ins, outs = e.parsed if e.parsed else ([], [])
        sig = Obj("Signature", e.signature, (), {"parsed": e.parsed, "text": e.signature, "__isinstance__": ("_GridUFuncSignature",),
                                                "in_ax_names": [tuple(n for n, _ in a) for a in ins], "in_ax_positions": [tuple(p for _, p in a) for a in ins],
                                                "out_ax_names": [tuple(n for n, _ in a) for a in outs], "out_ax_positions": [tuple(p for _, p in a) for a in outs]})
        attrs = {"__class__": "grid_ufunc:GridUFunc", "signature": sig, "ufunc": Obj("func", e.name), "__isinstance__": ("GridUFunc",),
                 "boundary_width": e.attrs.get("boundary_width"), "boundary": e.attrs.get("boundary"), "fill_value": e.attrs.get("fill_value"),
                 "dask": e.attrs.get("dask"), "map_overlap": e.attrs.get("map_overlap"), "pad_before_func": e.attrs.get("pad_before_func")}
        members.append((e.name, Obj("GridUFunc", e.name, (), attrs)))
    members.sort(key=lambda m: m[0])

    def m_getmembers(ev, args, kw, node):
        pred = args[1] if len(args) > 1 else kw.get("predicate")
        return [(n, o) for n, o in members if pred is None or ev.truth(ev.call(pred, [o], {}, node), node, None)]

    def m_equivalent(ev, recv, args, kw, node):
        a, b = recv.attrs.get("parsed"), args[0].attrs.get("parsed") if isinstance(args[0], Obj) else None
        return bool(a and b and _canon(a) == _canon(b))

    models = apply_models()
    models.pop("padding:pad", None)  # the real pad() is evaluated; only the innermost padding is modelled

    def m_pad_basic(ev, args, kw, node):
        d = args[0] if args else kw.get("da")
        return d.with_eff(("PAD",)) if isinstance(d, Obj) else TOP

    models["padding:_pad_basic"] = m_pad_basic
    models["inspect.getmembers"] = m_getmembers
    mm = dict(da_method_models())
    mm[("Signature", "equivalent")] = m_equivalent
    # the data is taken to be in memory: the dask-mode forks are C06's subject and only multiply paths here
    ev = Evaluator(P, models=models, attr_models=apply_attr_models(), method_models=mm, assume_false=("Dask_Array", ".chunks", "_is_dim_chunked"))
    fi = P.func("grid:Grid._1d_grid_ufunc_dispatch")
    from ..geometry import POSITIONS

    def make():
        g = make_grid(axnames, positions=positions or POSITIONS, boundary="fill", fill_value=0.0)
        dd = dims if dims is not None else [Sym("t")] + [dimsym(a, pos) for a in axnames]
        da = make_da("da", dd, name=Sym("nm"))
        return dict(self=g, funcname=funcname, data=da, axis=axis_arg if axis_arg is not None else Sym(axnames[0]), to=to, keep_coords=False, metric_weighted=None,
                    other_component=None, kwargs=dict(kwargs or {}))

    return ev.run_paths(fi, make)


class Battery:
    def __init__(self, ctx):
        self.ctx = ctx

    def must_raise(self, rule, fi, name, thunk):
        try:
            outs = thunk()
        except Unmodelled as e:
            self.ctx.unknown(rule, name, str(e))
            return
        outs = outs[0] if isinstance(outs, tuple) else outs
        ret = [o for o in outs if o.kind != "raise"]
        if ret:
            self.ctx.report(rule, fi, name, f"{name}: the request is answered ({ret[0].value!r}) instead of refused" + (f" on the path {[d[1:] for d in ret[0].decisions]}" if ret[0].decisions else ""))
        else:
            kinds = sorted({o.value for o in outs})
            self.ctx.ok(rule, name, f"raises {', '.join(map(str, kinds))}")

    def must_return(self, rule, fi, name, thunk):
        try:
            outs = thunk()
        except Unmodelled as e:
            self.ctx.unknown(rule, name, str(e))
            return
        outs = outs[0] if isinstance(outs, tuple) else outs
        bad = [o for o in outs if o.kind != "return"]
        if bad:
            self.ctx.report(rule, fi, name, f"{name}: a well-posed request is refused with {bad[0].value} (line {getattr(getattr(bad[0].exc, 'node', None), 'lineno', '?')})")
        else:
            self.ctx.ok(rule, name, "answered")


def check(ctx):
    P = ctx.project
    B = Battery(ctx)
    disp = P.func("grid:Grid._1d_grid_ufunc_dispatch")
    cums = P.func("grid:Grid.cumsum")
    padfi = P.func("padding:pad")

    # ---- well-posed baseline through the full chain
    B.must_return("G0", disp, "valid: diff center->left through the full call chain", lambda: full_dispatch(P, "diff", "center", "left"))
    B.must_return("G0", disp, "valid: interp with the default shift", lambda: full_dispatch(P, "interp", "left", None))

    # ---- G1 unknown axis
    B.must_raise("G1", disp, "unknown axis in diff", lambda: full_dispatch(P, "diff", "center", "left", axis_arg=Sym("NOPE")))
    B.must_raise("G1", disp, "unknown axis among several", lambda: full_dispatch(P, "diff", "center", "left", axis_arg=[AX, Sym("NOPE")]))
    B.must_raise("G1", cums, "unknown axis in cumsum", lambda: _run_cumsum(P, "center", "left", axis_arg=Sym("NOPE")))
    gd = P.func("grid:Grid._get_dims_from_axis")
    ev = Evaluator(P)
    B.must_raise("G1", gd, "unknown axis in integrate/average (_get_dims_from_axis)", lambda: ev.run_paths(gd, lambda: dict(self=make_grid(), da=make_da("da", [dimsym("AX", "center")]), axis=[Sym("NOPE")])))
    B.must_return("G1", gd, "valid: _get_dims_from_axis", lambda: ev.run_paths(gd, lambda: dict(self=make_grid(), da=make_da("da", [dimsym("AX", "center")]), axis=Sym("AX"))))
    from .c16 import run_set_metrics

    smf = P.func("grid:Grid.set_metrics")
    B.must_raise("G1", smf, "metric registered for an axis the grid lacks", lambda: run_set_metrics(P, (Sym("NOPE"),), "dx_c"))
    B.must_raise("G1", smf, "metric registered for an axis the grid lacks, given as a bare name", lambda: run_set_metrics(P, Sym("NOPE"), "dx_c"))
    B.must_raise("G1", smf, "metric registered for a known and an unknown axis", lambda: run_set_metrics(P, (AX, Sym("NOPE")), "a_cc"))
    B.must_raise("G1", smf, "metric registered for two unknown axes", lambda: run_set_metrics(P, (Sym("NOPE"), Sym("NADA")), "a_cc"))
    B.must_return("G1", smf, "valid: metric registered for the grid's axes", lambda: run_set_metrics(P, (AX, AY), "a_cc"))
    B.must_raise("G1", P.func("grid_ufunc:apply_as_grid_ufunc"), "unknown axis in apply_as_grid_ufunc", lambda: run_apply(P, "(X:center)->(X:left)", [(Sym("NOPE"),)], boundary_width={"X": (1, 0)}))
    # ---- G2 zero or two dimensions of the axis
    B.must_raise("G2", disp, "data without a dimension of the axis", lambda: full_dispatch(P, "diff", "center", "left", dims=[Sym("t"), Sym("other")]))
    B.must_raise("G2", disp, "data with two dimensions of the axis", lambda: full_dispatch(P, "diff", "center", "left", dims=[dimsym("AX", "center"), dimsym("AX", "left")]))
    B.must_raise("G2", cums, "cumsum on data without a dimension of the axis", lambda: _run_cumsum(P, "center", "left", extra_dims=("t",), da_pos={"AX": "nonexistent"}))
    B.must_raise("G2", gd, "integrate on data with two dimensions of the axis", lambda: ev.run_paths(gd, lambda: dict(self=make_grid(), da=make_da("da", [dimsym("AX", "center"), dimsym("AX", "left")]), axis=[AX])))
    gp = P.func("axis:Axis._get_position_name")
    from ..xmodel import make_axis

    for n, dims in ((0, [Sym("t")]), (2, [dimsym("AX", "center"), dimsym("AX", "outer")])):
        B.must_raise("G2", gp, f"_get_position_name with {n} axis dimensions", lambda dims=dims: ev.run_paths(gp, lambda: dict(self=make_axis("AX"), da=make_da("da", dims))))
    B.must_return("G2", gp, "valid: _get_position_name with one axis dimension", lambda: ev.run_paths(gp, lambda: dict(self=make_axis("AX"), da=make_da("da", [Sym("t"), dimsym("AX", "right")]))))
    # ---- G3 impossible shifts
    for pos in ("center", "left", "outer"):
        B.must_raise("G3", disp, f"shift {pos}->{pos} (same position)", lambda pos=pos: full_dispatch(P, "interp", pos, pos))
    B.must_raise("G3", disp, "shift left->right (no such stencil)", lambda: full_dispatch(P, "diff", "left", "right"))
    B.must_raise("G3", disp, "shift to a position the axis lacks (axis has other positions)", lambda: full_dispatch(P, "diff", "center", "outer", positions=["center", "left", "right"]))
    B.must_raise("G3", disp, "shift to a position the axis lacks, second of two axes", lambda: full_dispatch(P, "diff", "center", {AX: "left", AY: "inner"}, positions=["center", "left", "outer"], axnames=("AX", "AY"), axis_arg=[AX, AY]))
    B.must_raise("G3", disp, "default shift missing: axis with the centre position only", lambda: full_dispatch(P, "diff", "center", None, positions=["center"]))
    B.must_raise("G3", disp, "unknown position word as target", lambda: full_dispatch(P, "diff", "center", "middle"))
    # a target word that happens to be falsy is an unknown word, not "no target given" (None alone means the default shift)
    B.must_raise("G3", disp, "the empty string as target position", lambda: full_dispatch(P, "diff", "center", ""))
    B.must_raise("G3", disp, "the empty string as target position of the second of two axes", lambda: full_dispatch(P, "diff", "center", {AX: "left", AY: ""}, axnames=("AX", "AY"), axis_arg=[AX, AY]))
    B.must_raise("G3", cums, "cumsum to the empty string as target position", lambda: _run_cumsum(P, "center", ""))
    B.must_raise("G3", cums, "cumsum to a position the axis lacks", lambda: _run_cumsum_positions(P, "center", "outer", ["center", "left"]))
    B.must_raise("G3", cums, "cumsum to the same position", lambda: _run_cumsum(P, "left", "left"))
    # the impossible shift on the second of two axes: nothing computed for the first axis may stand in for it
    B.must_raise("G3", cums, "cumsum over two axes, same position on the second", lambda: _run_cumsum(P, "center", {AX: "left", AY: "center"}, axnames=("AX", "AY"), axis_arg=[AX, AY]))
    B.must_raise("G3", cums, "cumsum over two axes, left->right on the second", lambda: _run_cumsum(P, "left", {AX: "center", AY: "right"}, axnames=("AX", "AY"), axis_arg=[AX, AY]))
    B.must_raise("G3", cums, "cumsum over two axes, unknown position word on the second", lambda: _run_cumsum(P, "center", {AX: "right", AY: "middle"}, axnames=("AX", "AY"), axis_arg=[AX, AY]))
    B.must_return("G3", cums, "valid: cumsum over two axes", lambda: _run_cumsum(P, "center", {AX: "left", AY: "right"}, axnames=("AX", "AY"), axis_arg=[AX, AY]))
    # ---- G4 unknown position word
    ax_init = P.func("axis:Axis.__init__")
    B.must_raise("G4", ax_init, "Axis with an unknown position word", lambda: run_axis_init(P, ["center", "middle"]))
    B.must_raise("G4", ax_init, "Axis with an unknown position word for which a default shift is given", lambda: run_axis_init(P, ["center", "middle"], default_shifts={"middle": "center"}))
    B.must_return("G4", ax_init, "valid: Axis with center/left and a default shift given", lambda: run_axis_init(P, ["center", "left"], default_shifts={"left": "center"}))
    B.must_raise("G4", ax_init, "Axis whose dimension is not in the dataset", lambda: run_axis_init(P, ["center", "left"], bad_dim=True))
    B.must_return("G4", ax_init, "valid: Axis with center/left", lambda: run_axis_init(P, ["center", "left"]))
    # ... and in a grid-ufunc signature, given as text or as annotations (a word that merely starts like a position is unknown too)
    from .c15 import _hint, run_from_string, run_hints

    sfi, hfi = P.func("grid_ufunc:_parse_signature_from_string"), P.func("grid_ufunc:_parse_signature_from_type_hints")
    for word in ("middle", "leftmost", "center_point", "Outer"):
        B.must_raise("G4", sfi, f"signature text with the unknown position word {word!r}", lambda word=word: run_from_string(P, f"(X:{word})->(X:left)"))
        B.must_raise("G4", sfi, f"signature text with the unknown output position word {word!r}", lambda word=word: run_from_string(P, f"(X:center)->(X:{word})"))
        B.must_raise("G4", hfi, f"annotation with the unknown position word {word!r}", lambda word=word: run_hints(P, {"a": _hint(f"X:{word}"), "return": _hint("X:left")}))
        B.must_raise("G4", hfi, f"return annotation with the unknown position word {word!r}", lambda word=word: run_hints(P, {"a": _hint("X:center"), "return": _hint(f"X:{word}")}))
    B.must_return("G4", sfi, "valid: signature text (X:center)->(X:left)", lambda: run_from_string(P, "(X:center)->(X:left)"))
    B.must_return("G4", hfi, "valid: annotations X:center -> X:left", lambda: run_hints(P, {"a": _hint("X:center"), "return": _hint("X:left")}))
    # ---- G5 / G6 boundary word and fill value, on every pad path
    for wname, widths in (("zero widths", {AX: (0, 0)}), ("non-zero widths", {AX: (1, 0)}), ("no widths", None)):
        B.must_raise("G5", padfi, f"unknown boundary word, scalar, {wname}", lambda widths=widths: run_pad(P, "bogus", None, widths))
        # a word that happens to be falsy is an unknown word like any other (not "nothing given")
        B.must_raise("G5", padfi, f"empty string as boundary word, {wname}", lambda widths=widths: run_pad(P, "", None, widths))
        B.must_raise("G6", padfi, f"empty tuple as fill value, {wname}", lambda widths=widths: run_pad(P, "fill", (), widths))
        B.must_raise("G5", padfi, f"unknown boundary word for one axis of a mapping, {wname}", lambda widths=widths: run_pad(P, {AY: "bogus"}, None, widths))
        B.must_raise("G6", padfi, f"non-numeric fill value, scalar, {wname}", lambda widths=widths: run_pad(P, None, "abc", widths))
        B.must_raise("G6", padfi, f"non-numeric fill value for one axis of a mapping, {wname}", lambda widths=widths: run_pad(P, "fill", {AX: None, AY: "abc"}, widths) if False else run_pad(P, "fill", {AY: "abc"}, widths))
        B.must_return("G5", padfi, f"valid: known rule and numeric fill value, {wname}", lambda widths=widths: run_pad(P, {AX: "extend"}, 2.5, widths))
    B.must_raise("G5", ax_init, "Axis with an unknown boundary word", lambda: run_axis_init(P, ["center", "left"], boundary="bogus"))
    B.must_raise("G6", ax_init, "Axis with a non-numeric fill value", lambda: run_axis_init(P, ["center", "left"], fill_value="abc"))
    # the constructor tells "nothing given" (None) from a given value that happens to be falsy, like pad() does
    B.must_raise("G5", ax_init, "Axis with the empty string as boundary word", lambda: run_axis_init(P, ["center", "left"], boundary=""))
    B.must_raise("G6", ax_init, "Axis with an empty string as fill value", lambda: run_axis_init(P, ["center", "left"], fill_value=""))
    B.must_raise("G6", ax_init, "Axis with an empty list as fill value", lambda: run_axis_init(P, ["center", "left"], fill_value=[]))
    B.must_return("G6", ax_init, "valid: Axis with fill value 0 and rule 'fill'", lambda: run_axis_init(P, ["center", "left"], boundary="fill", fill_value=0))
    B.must_raise("G5", disp, "unknown boundary word through diff outer->center (zero-width stencil)", lambda: full_dispatch(P, "diff", "outer", "center", kwargs={"boundary": "bogus"}))
    B.must_raise("G5", disp, "unknown boundary word through diff center->left", lambda: full_dispatch(P, "diff", "center", "left", kwargs={"boundary": "bogus"}))
    # ... also when it stands for an axis the operation does not act along (pad() validates the rule of every grid axis)
    B.must_raise("G5", disp, "unknown boundary word for another axis of a mapping, through diff", lambda: full_dispatch(P, "diff", "center", "left", axnames=("AX", "AY"), axis_arg=AX, kwargs={"boundary": {AX: "extend", AY: "bogus"}}))
    B.must_raise("G6", disp, "non-numeric fill value for another axis of a mapping, through diff", lambda: full_dispatch(P, "diff", "center", "left", axnames=("AX", "AY"), axis_arg=AX, kwargs={"boundary": "fill", "fill_value": {AX: 1.0, AY: "abc"}}))
    B.must_return("G5", disp, "valid: per-axis mapping of known words through diff", lambda: full_dispatch(P, "diff", "center", "left", axnames=("AX", "AY"), axis_arg=AX, kwargs={"boundary": {AX: "extend", AY: "fill"}}))
    B.must_raise("G6", disp, "non-numeric fill value through interp center->inner (zero-width stencil)", lambda: full_dispatch(P, "interp", "center", "inner", kwargs={"fill_value": "abc"}))
    B.must_raise("G5", cums, "unknown boundary word through cumsum center->right (zero width)", lambda: _cumsum_real_pad(P, "center", "right", boundary="bogus"))
    B.must_return("G5", cums, "valid: cumsum center->right with boundary 'extend'", lambda: _cumsum_real_pad(P, "center", "right", boundary="extend"))
    # ---- G11 malformed data arguments
    cdi = P.func("grid_ufunc:_check_data_input")
    ev2 = Evaluator(P)
    da_ = make_da("da", [dimsym("AX", "center")])
    for name, data in (("vector dictionary with two entries", {AX: da_, AY: da_}), ("vector dictionary for an unknown axis", {Sym("NOPE"): da_}),
                       ("vector dictionary whose value is not an array", {AX: 3.0}), ("data that is neither an array nor a dictionary", [1, 2, 3]), ("empty vector dictionary", {})):
        B.must_raise("G11", cdi, name, lambda data=data: ev2.run_paths(cdi, lambda: dict(data=data, grid=make_grid(("AX", "AY")))))
    B.must_return("G11", cdi, "valid: single-entry vector dictionary", lambda: ev2.run_paths(cdi, lambda: dict(data={AX: da_}, grid=make_grid(("AX", "AY")))))
    B.must_return("G11", cdi, "valid: plain array", lambda: ev2.run_paths(cdi, lambda: dict(data=da_, grid=make_grid(("AX", "AY")))))
    B.must_raise("G11", disp, "dispatch on a two-entry vector dictionary", lambda: _dispatch_bad_data(P))
    # ---- G7-G9 transform
    _transform(ctx, P, B)
    # ---- G10 grid ufunc positions / numbers
    app = P.func("grid_ufunc:apply_as_grid_ufunc")
    B.must_raise("G10", app, "grid ufunc input on the wrong position", lambda: run_apply(P, "(X:center)->(X:left)", [(AX,)], args=lambda: (make_da("da", [dimsym("AX", "left")]),), boundary_width={"X": (1, 0)}))
    B.must_raise("G10", app, "grid ufunc: wrong position on the second of two inputs", lambda: run_apply(P, "(X:center),(X:left)->(X:center)", [(AX,), (AX,)], args=lambda: (make_da("a", [dimsym("AX", "center")]), make_da("b", [dimsym("AX", "right")])), boundary_width={"X": (1, 1)}))
    B.must_raise("G10", app, "grid ufunc: more arguments than the signature has inputs", lambda: run_apply(P, "(X:center)->(X:left)", [(AX,), (AX,)], args=lambda: (make_da("a", [dimsym("AX", "center")]), make_da("b", [dimsym("AX", "center")])), boundary_width={"X": (1, 0)}))
    B.must_raise("G10", app, "grid ufunc: fewer arguments and axis entries than the signature has inputs", lambda: run_apply(P, "(X:center),(X:center)->(X:left)", [(AX,)], args=lambda: (make_da("a", [dimsym("AX", "center")]),), boundary_width={"X": (1, 0)}))
    B.must_raise("G10", app, "grid ufunc: fewer arguments than axis entries", lambda: run_apply(P, "(X:center),(X:center)->(X:left)", [(AX,), (AX,)], args=lambda: (make_da("a", [dimsym("AX", "center")]),), boundary_width={"X": (1, 0)}))
    B.must_raise("G10", app, "grid ufunc: signature position the axis lacks", lambda: run_apply(P, "(X:outer)->(X:center)", [(AX,)], args=lambda: (make_da("a", [dimsym("AX", "outer")]),), positions=["center", "left"], axnames=("AX",)))
    B.must_raise("G10", app, "grid ufunc: signature position the axis lacks, second pair of one argument",
                 lambda: run_apply(P, "(X:center,Y:outer)->(X:center)", [(AX, AY)], args=lambda: (make_da("a", [dimsym("AX", "center"), dimsym("AY", "center")]),), positions=["center", "left"]))
    B.must_raise("G10", app, "grid ufunc: signature position the axis lacks, second argument",
                 lambda: run_apply(P, "(X:center),(X:outer)->(X:center)", [(AX,), (AX,)], args=lambda: (make_da("a", [dimsym("AX", "center")]), make_da("b", [dimsym("AX", "center")])), positions=["center", "left"], axnames=("AX",)))
    B.must_raise("G10", app, "grid ufunc: the first of two inputs is given fewer axes than its signature entry",
                 lambda: run_apply(P, "(X:center,Y:center),(Y:center)->(X:center)", [(AX,), (AY,)], args=lambda: (make_da("a", [dimsym("AX", "center"), dimsym("AY", "center")]), make_da("b", [dimsym("AY", "center")]))))
    B.must_return("G10", app, "valid: grid ufunc with matching inputs", lambda: run_apply(P, "(X:center),(X:left)->(X:center)", [(AX,), (AX,)], args=lambda: (make_da("a", [dimsym("AX", "center")]), make_da("b", [dimsym("AX", "left")])), boundary_width={"X": (1, 1)}))


def _run_cumsum_positions(P, pos, to, positions):
    from ..absint import Evaluator as E

    from .c09 import cumsum_evaluator

    ev = cumsum_evaluator(P)
    fi = P.func("grid:Grid.cumsum")
    return ev.run_paths(fi, lambda: dict(self=make_grid(("AX",), positions=positions), da=make_da("da", [Sym("t"), dimsym("AX", pos)]), axis=AX, to=to, boundary=None, fill_value=None, metric_weighted=None, keep_coords=False))


def _cumsum_real_pad(P, pos, to, boundary=None, fill_value=None):
    """cumsum with the real pad() inlined (only the innermost padding helpers are modelled)."""
    def m_pad_basic(ev, args, kw, node):
        return args[0].with_eff(("PAD_BASIC",)) if isinstance(args[0], Obj) else TOP

    from ..harness import coord_tracking_models

    models = {"padding:_pad_basic": m_pad_basic, "grid_ufunc:_reattach_coords": COMMON_MODELS["grid_ufunc:_reattach_coords"]}
    mm, am = coord_tracking_models()
    ev = Evaluator(P, models=models, attr_models={**da_attr_models(), **am}, method_models={**da_method_models(), **mm})
    fi = P.func("grid:Grid.cumsum")
    return ev.run_paths(fi, lambda: dict(self=make_grid(("AX",), boundary="fill", fill_value=0.0), da=make_da("da", [Sym("t"), dimsym("AX", pos)]), axis=AX, to=to,
                                         boundary=boundary, fill_value=fill_value, metric_weighted=None, keep_coords=False))


def _transform(ctx, P, B):
    if not P.has_func("transform:transform"):
        ctx.unknown("G7", "transform", "anchor function transform:transform missing")
        return
    tfi = P.func("transform:transform")
    AZ = Sym("AZ")
    interp_calls = []

    def run_t(boundary, method="linear", positions=None, target_on="center", target_data=True):
        interp_calls.clear()

        def m_lin(ev, args, kw, node):
            interp_calls.append("linear")
            return Obj("DataArray", "LINEAR-RESULT")

        def m_cons(ev, args, kw, node):
            interp_calls.append("conservative")
            return Obj("DataArray", "CONSERVATIVE-RESULT")

        def m_grid_interp(ev, args, kw, node):
            return make_da("td_on_outer", [Sym("t"), dimsym("AZ", "outer")], name=Sym("tdn"))

        def chunk(ev, recv, args, kw, node):
            return recv

        mm = dict(da_method_models())
        mm[("DataArray", "chunk")] = chunk
        ev = Evaluator(P, models={"warnings.warn": lambda ev, a, k, n: None, "transform:linear_interpolation": m_lin, "transform:conservative_interpolation": m_cons,
                                  "grid:Grid.interp": m_grid_interp}, attr_models=da_attr_models(), method_models=mm)
        from ..geometry import POSITIONS

        def mk():
            g = make_grid(("AZ",), positions=positions or POSITIONS, boundary=boundary, fill_value=0.0)
            da = make_da("da", [Sym("t"), dimsym("AZ", "center")], name=Sym("nm"))
            td = make_da("td", [Sym("t"), dimsym("AZ", target_on)], name=Sym("tdn")) if target_data else None
            return dict(grid=g, axis_name=AZ, da=da, target=make_da("target", [Sym("lev")]), target_data=td, target_dim=None, method=method, mask_edges=True, bypass_checks=False, suffix="_t")

        return ev.run_paths(tfi, mk)

    for method in ("linear", "log", "conservative"):
        def thunk(method=method):
            outs = run_t("periodic", method)
            if interp_calls:
                # an interpolation was started before the refusal
                outs = outs + [type(outs[0])("return", "interpolation started before the periodic-axis refusal", outs[0].env, [], [])]
            return outs

        B.must_raise("G7", tfi, f"transform(method='{method}') along a periodic axis", thunk)
        B.must_return("G7", tfi, f"valid: transform(method='{method}') along a non-periodic axis", lambda method=method: run_t("fill", method, target_on="outer" if method == "conservative" else "center"))
    B.must_raise("G7", tfi, "transform with an unknown axis", lambda: _bad_axis_transform(P, tfi))
    B.must_raise("G9", tfi, "conservative transform on an axis without outer positions", lambda: run_t("fill", "conservative", positions=["center", "left"], target_on="center"))
    B.must_return("G9", tfi, "valid: conservative transform with target_data on centres (interpolated to outer)", lambda: run_t("fill", "conservative", target_on="center"))
    # G8 non-monotonic bins in interp_1d_conservative
    kfi = P.func("transform:interp_1d_conservative")
    kcalls = []

    def m_kernel(ev, args, kw, node):
        kcalls.append(1)
        return Obj("ndarray", "KERNEL-OUT")

    from ..concrete import REPRESENTATIVES_ALL, truth_hook

    # bins given as representatives of each order class; the source's monotonicity test is evaluated on them
    try:
        res = {"increasing": [], "decreasing": [], "neither": [], "unordered": []}
        for cls, vec in [(c, v) for c in res for v in REPRESENTATIVES_ALL[c]]:
            ev = Evaluator(P, models={"transform:_interp_1d_conservative": m_kernel}, call_hook=truth_hook({"bins": vec}))
            res[cls] += ev.run_paths(kfi, lambda: dict(phi=Obj("ndarray", "phi", (), {"shape": (Lin.sym("cols"), Lin.sym("n")), "ndim": 2}), theta=Obj("ndarray", "theta", (), {"shape": (Lin.sym("cols"), Lin.sym("n") + Lin.of(1)), "ndim": 2}), target_theta_bins=Obj("ndarray", "bins", (), {"ndim": 1})))
        if any(o.kind != "raise" for o in res["neither"]):
            ctx.report("G8", kfi, "non-monotonic conservative bins", "bins that are neither strictly increasing nor strictly decreasing are answered instead of refused")
        elif any(o.kind != "raise" for o in res["unordered"]):
            ctx.report("G8", kfi, "conservative bins with an edge that is not a number", "bins with a NaN edge are neither increasing nor decreasing, yet they are answered instead of refused")
        elif any(o.kind != "return" for cls in ("increasing", "decreasing") for o in res[cls]):
            ctx.report("G8", kfi, "valid: monotonic conservative bins", "strictly monotonic bins are refused")
        else:
            ctx.ok("G8", "non-monotonic conservative bins", "refused; monotonic bins accepted")
    except Unmodelled as e:
        ctx.unknown("G8", "non-monotonic conservative bins", str(e))


def _bad_axis_transform(P, tfi):
    ev = Evaluator(P, models={"warnings.warn": lambda ev, a, k, n: None}, attr_models=da_attr_models(), method_models=da_method_models())
    return ev.run_paths(tfi, lambda: dict(grid=make_grid(("AZ",), boundary="fill"), axis_name=Sym("NOPE"), da=make_da("da", [dimsym("AZ", "center")]), target=make_da("t", [Sym("lev")]),
                                          target_data=None, target_dim=None, method="linear", mask_edges=True, bypass_checks=False, suffix="_t"))


def _dispatch_bad_data(P):
    from ..harness import dispatch_models

    ev = Evaluator(P, models=dispatch_models(), attr_models=da_attr_models(), method_models=da_method_models(), assume_false=("Dask_Array", ".chunks", "_is_dim_chunked"))
    fi = P.func("grid:Grid._1d_grid_ufunc_dispatch")
    da_ = make_da("da", [dimsym("AX", "left"), dimsym("AY", "center")])
    return ev.run_paths(fi, lambda: dict(self=make_grid(("AX", "AY")), funcname="diff", data={AX: da_, AY: da_}, axis=AX, to="center", keep_coords=False, metric_weighted=None,
                                         other_component=None, kwargs={}))
