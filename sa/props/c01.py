"""C01 - staggered stencil operators are exact on simple grids (structural necessary conditions).

  R01.1 registry <-> geometry: for each Grid method (diff/interp/min/max) the name prefix it dispatches
        with is extracted; for each of the 8 centre<->face shifts exactly one gridops entry with that
        prefix has the 1-D signature (X:from)->(X:to); its kernel applied to the array padded by its
        boundary_width must give, for N = 2..6, at every target point the difference / mean / min / max
        of the two adjacent inputs (boundary cells beyond the ends) and the target's length.
  R01.2 dispatch wiring: whole-function abstract evaluation of Grid._1d_grid_ufunc_dispatch: per axis,
        in the order given, select(funcname, (ax:from)->(ax:to)) with from = the data's position and
        to = `to[ax]` or the axis' default shift; the ufunc is applied to the previous result with the
        caller's keyword arguments; _select_grid_ufunc picks by prefix + signature equivalence.
  R01.3 dimension order: the result is transposed to the input's order with only the axis dimension replaced.
  R01.4 default shifts: Axis.__init__ on all 16 position sets; FALLBACK table semantics.
  R01.5 boundary rule translation in _pad_basic (periodic->wrap, fill->constant+constant_values, extend->edge).
"""
from __future__ import annotations

import itertools

from ..absint import TOP, Evaluator, Obj, Sym, Unmodelled
from ..geometry import FACES, NS, POSITIONS, SHIFTS, length, neighbours
from ..harness import foreign_ops, dispatch_models, run_dispatch, sig_1d, da_attr_models, da_method_models
from ..registry import extract, parse_signature
from ..seqsem import AxisDiscipline, LengthMismatch, Red, interp_np, lin
from ..xmodel import COMMON_MODELS, dimsym, make_da, make_grid
from .c09 import _kernel_on, _show

EXPLANATION = (
    "R01.1: every @as_grid_ufunc entry of gridops.py is extracted (signature, boundary_width, kernel lineage by abstract "
    "evaluation of the body incl. helper calls) and, composed with its padding, compared point by point on a symbolic axis "
    "(N=2..6) with the two-neighbour stencil derived from the position geometry; uniqueness of (prefix, shift). R01.2/3: "
    "whole-function abstract evaluation of _1d_grid_ufunc_dispatch and _select_grid_ufunc for every shift, default shift, "
    "two axes in both orders and several dimension orders. R01.4: Axis.__init__ evaluated on all 16 position sets. R01.5: "
    "_pad_basic's mode table. No value is computed; xarray.pad/apply_ufunc semantics are trusted."
)
ASSUMPTIONS = [
    "xarray.pad pads with wrap/constant/edge as numpy documents; xarray.apply_ufunc moves core dims last",
    "doc/grids.rst position model",
    "GridUFunc.__call__/apply_as_grid_ufunc pad by boundary_width before calling the kernel (checked under C11)",
]
TECHNIQUE = "registry extraction + stencil interpretation vs. geometry; abstract evaluation of the dispatch (decision-table extraction)"
LEVEL_TEXT = (
    "Abstract interpretation of the source, compared with an oracle computed from the documented position geometry: all 32 stencil entries "
    "(kernel composed with boundary_width) equal the difference/mean/min/max of the two adjacent inputs at every target point for N=2..6 and "
    "are uniquely selectable per (operator, shift); the dispatch builds (ax:from)->(ax:to) from the data's position and `to`/default shift, "
    "applies axes sequentially in the given order with the caller's options, restores the input's dimension order; default-shift table and "
    "boundary-rule->pad-mode table. These are necessary conditions of the behavioural statement for every data array and layout; numerical "
    "results of numpy/xarray are not executed."
)
LEVEL_NOTE = "Trusted: numpy/xarray pad and apply_ufunc semantics, doc/grids.rst geometry, the abstract evaluator (self-tested on seeded variants)."

OPS = {"diff": ("lin", {"lo": -1, "hi": 1}), "interp": ("lin", {"lo": 0.5, "hi": 0.5}), "min": ("min",), "max": ("max",)}


def expected_element(op, lo_cell, hi_cell):
    from fractions import Fraction as F

    if op == "diff":
        return lin({hi_cell: 1, lo_cell: -1})
    if op == "interp":
        return lin({hi_cell: F(1, 2), lo_cell: F(1, 2)}) if hi_cell != lo_cell else lin({hi_cell: 1})
    return Red(op, [lin({lo_cell: 1}), lin({hi_cell: 1})])


def method_prefixes(ctx, P):
    """funcname each public stencil method hands to the dispatch, and whether it forwards (da, axis, **kwargs)."""
    out = {}
    for meth in ("diff", "interp", "min", "max"):
        fi = P.func(f"grid:Grid.{meth}")
        calls = []

        def m_dispatch(ev, args, kw, node, calls=calls):
            calls.append((args, kw))
            return Obj("Result", "dispatch-result")

        models = dict(COMMON_MODELS)
        models["grid:Grid._1d_grid_ufunc_dispatch"] = m_dispatch
        ev = Evaluator(P, models=models)
        g = make_grid()
        da = make_da("da", [Sym("t"), dimsym("AX", "center")])
        try:
            outs = ev.run_paths(fi, lambda: dict(self=g, da=da, axis=Sym("USER_AXIS"), kwargs={"to": Sym("USER_TO"), "boundary": Sym("USER_BOUNDARY")}))
        except Unmodelled as e:
            ctx.unknown("R01.2", f"Grid.{meth}", str(e))
            continue
        if len(calls) != 1 or len(outs) != 1 or outs[0].kind != "return" or not (isinstance(outs[0].value, Obj) and outs[0].value.kind == "Result"):
            ctx.report("R01.2", fi, f"Grid.{meth} -> dispatch", f"Grid.{meth} does not return the result of exactly one call of the 1-D dispatch")
            continue
        args, kw = calls[0]
        b = dict(zip(["self", "funcname", "data", "axis", "to", "keep_coords", "metric_weighted", "other_component"], args))
        b.update(kw)
        if b.get("data") is not da or b.get("axis") != Sym("USER_AXIS") or b.get("to") != Sym("USER_TO") or b.get("boundary") != Sym("USER_BOUNDARY"):
            ctx.report("R01.2", fi, f"Grid.{meth} -> dispatch", f"Grid.{meth} does not forward its array, axis and keyword arguments unchanged to the dispatch")
            continue
        if not isinstance(b.get("funcname"), str):
            ctx.unknown("R01.2", f"Grid.{meth}", "function-name prefix is not a constant")
            continue
        out[meth] = b["funcname"]
        ctx.ok("R01.2", f"Grid.{meth} -> dispatch('{b['funcname']}', da, axis, **kwargs)", "forwards unchanged")
    return out


def check(ctx):
    P = ctx.project
    entries = extract(P)
    ctx.floor("R01.1", "@as_grid_ufunc entries in gridops", len(entries), 32)
    prefixes = method_prefixes(ctx, P)
    ctx.floor("R01.1", "stencil methods with a constant prefix", len(prefixes), 4)

    # ---------------- R01.1
    onedim = []
    for e in entries:
        if not e.parsed:
            ctx.report("R01.1", e.fi, f"gridops.{e.name} signature", f"signature {e.signature!r} is not well-formed", e.deco)
            continue
        ins, outs = e.parsed
        if len(ins) == 1 and len(outs) == 1 and len(ins[0]) == 1 and len(outs[0]) == 1 and ins[0][0][0] == outs[0][0][0]:
            onedim.append((e, ins[0][0][0], ins[0][0][1], outs[0][0][1]))
    for meth, prefix in sorted(prefixes.items()):
        fam = [(e, dn, fr, to) for (e, dn, fr, to) in onedim if e.name.startswith(prefix)]
        for fr, to in SHIFTS:
            inst = f"{meth} {fr}->{to}"
            cands = [(e, dn) for (e, dn, f_, t_) in fam if (f_, t_) == (fr, to)]
            if len(cands) == 0:
                ctx.report("R01.1", "gridops:<module>", f"missing {inst}", f"no predefined ufunc whose name starts with '{prefix}' has signature (X:{fr})->(X:{to}): grid.{meth} cannot make this shift")
                continue
            if len(cands) > 1:
                ctx.report("R01.1", cands[1][0].fi, f"ambiguous {inst}", f"{[c[0].name for c in cands]} all start with '{prefix}' and have signature (X:{fr})->(X:{to}): the selection is ambiguous and raises", cands[1][0].deco)
                continue
            e, dn = cands[0]
            if e.result == "RAISES":
                ctx.report("R01.1", e.fi, f"{inst} kernel", f"gridops.{e.name} only raises: grid.{meth} {fr}->{to} is unavailable", e.fi.node)
                continue
            if not isinstance(e.result, Obj):
                ctx.unknown("R01.1", inst, f"kernel of gridops.{e.name} not modelled: {e.result}")
                continue
            bw = e.attrs.get("boundary_width")
            if bw is None:
                bw = {}
            if not isinstance(bw, dict) or any(k != dn for k in bw):
                ctx.report("R01.1", e.fi, f"{inst} boundary_width", f"gridops.{e.name}: boundary_width {bw!r} does not name the signature's axis `{dn}`", e.deco)
                continue
            w = bw.get(dn, (0, 0))
            if e.attrs.get("pad_before_func") is not True:
                ctx.report("R01.1", e.fi, f"{inst} pad_before_func", f"gridops.{e.name} pads after the stencil: boundary cells would not enter the stencil", e.deco)
                continue
            prob = None
            try:
                for N in NS:
                    n = length(fr, N)
                    seq = _kernel_on(e.result, n + w[0] + w[1], w, n)
                    nb = neighbours(fr, to, N)
                    if len(seq) != len(nb):
                        prob = f"N={N}: {len(seq)} output points but the `{to}` position has {len(nb)} (boundary_width={w})"
                        break
                    for k, (got, (lo_c, hi_c)) in enumerate(zip(seq, nb)):
                        want = expected_element(meth, lo_c, hi_c)
                        if got != want:
                            prob = f"N={N}: target point {k} must be {_show_el(want)} but the entry computes {_show_el(got)} (boundary_width={w})"
                            break
                    if prob:
                        break
            except AxisDiscipline as ex:
                prob = str(ex)
            except LengthMismatch as ex:
                prob = f"N={N}: {ex}"
            except Unmodelled as ex:
                ctx.unknown("R01.1", inst, f"gridops.{e.name}: {ex}")
                continue
            if prob:
                ctx.report("R01.1", e.fi, f"{inst} stencil", f"gridops.{e.name}: {prob}", e.fi.node)
            else:
                ctx.ok("R01.1", f"{inst} = gridops.{e.name}", f"kernel o pad{w} = {meth} of the two adjacent inputs, N=2..6")
    # entries that map a position to itself or outside the 8 shifts must only raise
    for e, dn, fr, to in onedim:
        if (fr, to) not in SHIFTS and e.result != "RAISES" and any(e.name.startswith(p) for p in prefixes.values()):
            ctx.report("R01.1", e.fi, f"gridops.{e.name} impossible shift", f"gridops.{e.name} answers the impossible shift {fr}->{to}", e.fi.node)

    # ---------------- R01.2 / R01.3 dispatch
    disp = P.func("grid:Grid._1d_grid_ufunc_dispatch")

    def expect_run(inst, outs, steps, in_dims, funcname="diff", kwargs=None):
        """steps: [(axis, from, to)] in order."""
        problems = []
        for o in outs:
            if o.kind != "return":
                problems.append(f"raises {o.value}")
                continue
            sel = [e for e in o.events if e[0] == "select"]
            ufs = [e for e in o.events if e[0] == "ufunc"]
            if len(sel) != len(steps) or len(ufs) != len(steps):
                problems.append(f"{len(sel)} selections / {len(ufs)} applications for {len(steps)} axes")
                continue
            prev = None
            for i, ((ax, fr, to), s, u) in enumerate(zip(steps, sel, ufs)):
                got = sig_1d(s[2])
                if s[1] != funcname:
                    problems.append(f"axis {ax}: ufunc family {s[1]!r} selected instead of {funcname!r}")
                if got != (ax, fr, to):
                    problems.append(f"axis {ax}: signature {s[2].attrs.get('text') if isinstance(s[2], Obj) else s[2]!r} selected, expected ({ax}:{fr})->({ax}:{to})")
                exp_kw = kwargs if kwargs is not None else {"boundary": Sym("USER_BOUNDARY"), "fill_value": Sym("USER_FILL")}
                if s[3] != exp_kw and not (isinstance(s[3], dict) and set(s[3]) == set(exp_kw) and all(_same_opt(P, k, s[3][k], v, steps) for k, v in exp_kw.items())):
                    problems.append(f"axis {ax}: keyword arguments {s[3]!r} reach the selection instead of the caller's")
                _, uf, grid, data, kw, _n = u
                if grid is not o.env.get("self"):
                    problems.append(f"axis {ax}: ufunc not applied with this grid")
                arr = data[0] if len(data) == 1 else None
                if isinstance(arr, dict) and len(arr) == 1:
                    (arr,) = arr.values()
                if not isinstance(arr, Obj) or arr.name != "da":
                    problems.append(f"axis {ax}: the ufunc is not applied to the data")
                else:
                    n_prev = sum(1 for e in arr.eff if e[0] == "UFUNC")
                    if n_prev != i:
                        problems.append(f"axis {ax}: applied to an array that went through {n_prev} previous axes, expected {i} (each axis must act on the previous result)")
                if kw.get("axis") != [(Sym(ax),)]:
                    problems.append(f"axis {ax}: axis argument {kw.get('axis')!r}")
                for k, v in exp_kw.items():
                    if kw.get(k) != v and not _same_opt(P, k, kw.get(k), v, steps):
                        problems.append(f"axis {ax}: caller's {k} does not reach the ufunc call")
                if kw.get("keep_coords") != Sym("USER_KEEP"):
                    problems.append(f"axis {ax}: caller's keep_coords does not reach the ufunc call")
            # R01.3
            v = o.value
            if isinstance(v, Obj):
                exp_dims = list(in_dims)
                for ax, fr, to in steps:
                    exp_dims = [dimsym(ax, to) if d == dimsym(ax, fr) else d for d in exp_dims]
                if v.attrs.get("dims") != tuple(exp_dims):
                    problems.append(f"R01.3: result dimensions {v.attrs.get('dims')} instead of the input's order with the axis dimension replaced {tuple(exp_dims)}")
                # between the input and the returned array only the per-axis applications and re-orderings may happen:
                # a cast, rounding, masking ... of the stencil's result changes the values the property fixes
                extra, unknown_ops = foreign_ops(v.eff, expected=("UFUNC",))
                if unknown_ops:
                    raise Unmodelled(f"operation(s) {unknown_ops} on the dispatch result")
                if v.name != "da" or extra:
                    problems.append(f"the returned array is {v.name!r} after {[e[0] for e in v.eff]}: the stencil result is altered by {extra or 'another array'} before it is returned")
            else:
                problems.append(f"returns {v!r}")
        return problems

    # all 8 shifts, explicit `to`, one extra dim before and after
    for fr, to in SHIFTS:
        in_dims = [Sym("t"), dimsym("AX", fr), Sym("z")]
        inst = f"dispatch {fr}->{to}"
        try:
            outs = run_dispatch(P, "diff", {"AX": fr}, to, dims=in_dims)
            pr = expect_run(inst, outs, [("AX", fr, to)], in_dims)
        except Unmodelled as e:
            ctx.unknown("R01.2", inst, str(e))
            continue
        _verdict(ctx, disp, inst, pr)
    # whatever order the per-axis step leaves the other dimensions in (padding across faces concatenates along the face
    # dimension and brings it to the front), the result comes back in the input's order
    for in_dims, axes_, tos in (([Sym("t"), Sym("face"), Sym("z"), dimsym("AX", "center")], ["AX"], "left"), ([Sym("t"), dimsym("AX", "center"), Sym("face"), dimsym("AY", "center")], ["AX", "AY"], "left")):
        inst = f"dispatch with an intermediate result whose other dimensions are reordered, dims {[str(d) for d in in_dims]}"
        try:
            outs = run_dispatch(P, "diff", {a: "center" for a in axes_}, tos, axnames=tuple(axes_) if len(axes_) > 1 else ("AX",), axis_arg=[Sym(a) for a in axes_], dims=in_dims, reorder_noncore=True)
            pr = expect_run(inst, outs, [(a, "center", tos) for a in axes_], in_dims)
        except Unmodelled as e:
            ctx.unknown("R01.3", inst, str(e))
            continue
        _verdict(ctx, disp, inst, pr)
    # default shifts
    for fr in POSITIONS:
        for dflt in POSITIONS:
            if (fr, dflt) not in SHIFTS:
                continue
            in_dims = [dimsym("AX", fr), Sym("t")]
            inst = f"dispatch to=None default {fr}->{dflt}"
            try:
                outs = run_dispatch(P, "interp", {"AX": fr}, None, dims=in_dims, default_shifts={fr: dflt})
                pr = expect_run(inst, outs, [("AX", fr, dflt)], in_dims, funcname="interp")
            except Unmodelled as e:
                ctx.unknown("R01.2", inst, str(e))
                continue
            _verdict(ctx, disp, inst, pr)
    # each axis has its own table of default shifts
    for order in (("AX", "AY"), ("AY", "AX")):
        in_dims = [dimsym("AX", "center"), Sym("t"), dimsym("AY", "center")]
        inst = f"dispatch to=None over axes {list(order)} whose default shifts differ"
        dfl = {"AX": "left", "AY": "right"}
        try:
            outs = run_dispatch(P, "interp", {"AX": "center", "AY": "center"}, None, axnames=("AX", "AY"), axis_arg=[Sym(a) for a in order], dims=in_dims,
                                per_axis_shifts={a: {"center": d} for a, d in dfl.items()})
            pr = expect_run(inst, outs, [(a, "center", dfl[a]) for a in order], in_dims, funcname="interp")
        except Unmodelled as e:
            ctx.unknown("R01.2", inst, str(e))
            continue
        _verdict(ctx, disp, inst, pr)
    # per-axis mapping for `to`, two axes in both orders, dims in both orders
    for order in (("AX", "AY"), ("AY", "AX")):
        for dimorder in (0, 1):
            pos = {"AX": "center", "AY": "left"}
            tos = {"AX": "outer", "AY": "center"}
            in_dims = [dimsym("AX", "center"), Sym("t"), dimsym("AY", "left")]
            if dimorder:
                in_dims = in_dims[::-1]
            inst = f"dispatch axes {list(order)} dims {'reversed' if dimorder else 'forward'}"
            try:
                outs = run_dispatch(P, "min", pos, {Sym(k): v for k, v in tos.items()}, axnames=("AX", "AY"), axis_arg=[Sym(a) for a in order], dims=in_dims)
                pr = expect_run(inst, outs, [(a, pos[a], tos[a]) for a in order], in_dims, funcname="min")
            except Unmodelled as e:
                ctx.unknown("R01.2", inst, str(e))
                continue
            _verdict(ctx, disp, inst, pr)
    # tuple of axes and a vector-component input
    try:
        in_dims = [Sym("t"), dimsym("AX", "left")]
        outs = run_dispatch(P, "diff", {"AX": "left"}, "center", dims=in_dims, data_as_vector=True)
        _verdict(ctx, disp, "dispatch vector component input", expect_run("vec", outs, [("AX", "left", "center")], in_dims))
    except Unmodelled as e:
        ctx.unknown("R01.2", "dispatch vector component input", str(e))

    # per-axis option mappings over two axes: the call for each axis must resolve to that axis' own entry
    for order in (("AX", "AY"), ("AY", "AX")):
        inst = f"per-axis boundary / fill_value mappings, axes {list(order)}"
        bmap = {Sym("AX"): "fill", Sym("AY"): "extend"}
        fmap = {Sym("AX"): 1.0, Sym("AY"): 2.0}
        try:
            outs = run_dispatch(P, "interp", {"AX": "center", "AY": "center"}, "left", axnames=("AX", "AY"), axis_arg=[Sym(a) for a in order],
                                kwargs={"boundary": dict(bmap), "fill_value": dict(fmap)})
        except Unmodelled as e:
            ctx.unknown("R01.2", inst, str(e))
            continue
        bad = None
        for o in outs:
            ufs = [e for e in o.events if e[0] == "ufunc"]
            if o.kind != "return" or len(ufs) != 2:
                bad = f"{o.kind}: {len(ufs)} grid-ufunc calls for two axes"
                continue
            for axn, u in zip(order, ufs):
                kw = u[4]
                for what, want in (("boundary", bmap[Sym(axn)]), ("fill_value", fmap[Sym(axn)])):
                    given = kw.get(what, "<not passed>")
                    eff = given.get(Sym(axn), "<axis default>") if isinstance(given, dict) else given
                    if eff != want:
                        bad = bad or f"axis {axn}: the grid ufunc is given {what}={given!r}, which resolves to {eff!r} for this axis; the caller asked for {want!r}"
        if bad:
            ctx.report("R01.2", disp, inst, bad)
        else:
            ctx.ok("R01.2", inst, "each axis applied with its own rule and fill value")

    _check_select(ctx, P, entries, prefixes)
    _check_default_shifts(ctx, P)
    check_pad_basic(ctx, P, "R01.5")


def _verdict(ctx, fi, inst, problems):
    if problems:
        rule = "R01.3" if all(p.startswith("R01.3") for p in problems) else "R01.2"
        ctx.report(rule, fi, inst, problems[0])
    else:
        ctx.ok("R01.2", inst, "signature, order, options and dimension order as specified")


def _show_el(e):
    if isinstance(e, Red):
        return f"{e.op}(" + ", ".join(_show(i) for i in sorted(e.items)) + ")"
    return _show(e)


# ------------------------------------------------------------------ _select_grid_ufunc
def _canon(parsed):
    num = {}
    return [[[(num.setdefault(n, len(num)), p) for n, p in arg] for arg in side] for side in parsed]


def _check_select(ctx, P, entries, prefixes):
    fi = P.func("grid:_select_grid_ufunc")
    members = []
    for e in entries:
        sig = Obj("Signature", e.signature, (), {"parsed": e.parsed, "text": e.signature})
        members.append((e.name, Obj("GridUFunc", e.name, (), {"__class__": "grid_ufunc:GridUFunc", "signature": sig, "__isinstance__": ("GridUFunc",)})))
    members.sort(key=lambda m: m[0])

    def m_getmembers(ev, args, kw, node):
        pred = args[1] if len(args) > 1 else kw.get("predicate")
        out = []
        for name, o in members:
            if pred is None or ev.truth(ev.call(pred, [o], {}, node), node, None):
                out.append((name, o))
        return out

    def m_equivalent(ev, recv, args, kw, node):
        other = args[0]
        a, b = recv.attrs.get("parsed"), other.attrs.get("parsed") if isinstance(other, Obj) else None
        if a is None or b is None:
            return False
        return _canon(a) == _canon(b)

    n = 0
    for meth, prefix in sorted(prefixes.items()):
        for fr, to in SHIFTS:
            inst = f"select {prefix} (Q:{fr})->(Q:{to})"
            want = [e.name for e in entries if e.name.startswith(prefix) and e.parsed and _canon(e.parsed) == _canon(parse_signature(f"(Q:{fr})->(Q:{to})"))]
            ev = Evaluator(P, models={"inspect.getmembers": m_getmembers}, method_models={("Signature", "equivalent"): m_equivalent})
            sig = Obj("Signature", "query", (), {"parsed": parse_signature(f"(Q:{fr})->(Q:{to})"), "text": f"(Q:{fr})->(Q:{to})"})
            kws = {"boundary": Sym("USER_BOUNDARY")}
            try:
                outs = ev.run_paths(fi, lambda: dict(funcname=prefix, signature=sig, module=Obj("module", "gridops"), kwargs=dict(kws)))
            except Unmodelled as e:
                ctx.unknown("R01.2", inst, str(e))
                continue
            n += 1
            if len(want) != 1:
                continue  # reported by R01.1
            bad = None
            for o in outs:
                if o.kind != "return":
                    bad = f"raises {o.value} although exactly one entry ({want[0]}) matches"
                elif not (isinstance(o.value, tuple) and len(o.value) == 2 and isinstance(o.value[0], Obj) and o.value[0].name == want[0]):
                    bad = f"returns {o.value!r} instead of (gridops.{want[0]}, kwargs)"
                elif o.value[1] != kws:
                    bad = f"does not hand back the caller's keyword arguments unchanged ({o.value[1]!r})"
            if bad:
                ctx.report("R01.2", fi, inst, f"_select_grid_ufunc {bad}")
            else:
                ctx.ok("R01.2", inst, f"-> gridops.{want[0]}")
    # no match -> raises
    ev = Evaluator(P, models={"inspect.getmembers": m_getmembers}, method_models={("Signature", "equivalent"): m_equivalent})
    sig = Obj("Signature", "query", (), {"parsed": parse_signature("(Q:left)->(Q:right)"), "text": "(Q:left)->(Q:right)"})
    try:
        for pf, sg, label in (("diff", sig, "no entry with the signature"), ("nosuchop", sig, "no entry with the prefix")):
            outs = ev.run_paths(fi, lambda: dict(funcname=pf, signature=sg, module=Obj("module", "gridops"), kwargs={}))
            if any(o.kind != "raise" for o in outs):
                ctx.report("R01.2", fi, f"select: {label}", f"_select_grid_ufunc answers although {label} exists")
            else:
                ctx.ok("R01.2", f"select: {label}", "raises")
    except Unmodelled as e:
        ctx.unknown("R01.2", "select: no match", str(e))


# ------------------------------------------------------------------ Axis.__init__ default shifts
def _same_opt(P, k, arrived, wanted, steps):
    """The caller's option itself, or a spelling pad() resolves to the same rule / fill value in force (sa.props.c02.same_option)."""
    from .c02 import same_option

    return same_option(P, k, arrived, wanted, tuple(dict.fromkeys(a for a, _f, _t in steps)))


def run_axis_init(P, positions, default_shifts=None, boundary=None, fill_value=None, bad_dim=False):
    fi = P.func("axis:Axis.__init__")
    ev = Evaluator(P)

    def make():
        coords = {p: Sym(f"dim_{p}") for p in positions}
        dims = tuple(coords.values()) if not bad_dim else ()
        ds = Obj("Dataset", "ds", (), {"dims": dims, "__isinstance__": ("Dataset",)})
        me = Obj("Axis", "self", (), {"__class__": "axis:Axis"})
        return dict(self=me, ds=ds, name="AXNAME", coords=coords, default_shifts=default_shifts, boundary=boundary, fill_value=fill_value)

    return ev.run_paths(fi, make)


def _check_default_shifts(ctx, P):
    fi = P.func("axis:Axis.__init__")
    pref = ["left", "right", "outer", "inner"]  # doc/grids.rst: centre shifts to left first; remaining order is the reference table
    n = 0
    for r in range(0, 5):
        for faces in itertools.combinations(FACES, r):
            positions = ["center"] + list(faces)
            inst = f"positions {positions}"
            try:
                outs = run_axis_init(P, positions)
            except Unmodelled as e:
                ctx.unknown("R01.4", inst, str(e))
                continue
            n += 1
            bad = None
            for o in outs:
                if o.kind != "return":
                    bad = f"constructor raises {o.value}"
                    continue
                me = o.env.get("self")
                ds_ = me.attrs.get("_default_shifts")
                if not isinstance(ds_, dict):
                    bad = "no _default_shifts mapping"
                    continue
                exp = {}
                avail = [p for p in pref if p in faces]
                if avail:
                    exp["center"] = avail[0]
                for f in faces:
                    exp[f] = "center"
                if ds_ != exp:
                    bad = f"default shifts {ds_} instead of {exp}"
            if bad:
                ctx.report("R01.4", fi, inst, bad)
            else:
                ctx.ok("R01.4", inst, "face->centre, centre->first available of left,right,outer,inner")
    # user's entry wins; a shift onto itself is refused
    try:
        outs = run_axis_init(P, ["center", "left", "right"], default_shifts={"center": "right"})
        if all(o.kind == "return" and o.env.get("self").attrs.get("_default_shifts", {}).get("center") == "right" for o in outs):
            ctx.ok("R01.4", "user default_shifts entry", "takes precedence over the fallback table")
        else:
            ctx.report("R01.4", fi, "user default_shifts entry", "a default shift given by the user is not used")
        outs = run_axis_init(P, ["center", "left"], default_shifts={"center": "center"})
        if all(o.kind == "raise" for o in outs):
            ctx.ok("R01.4", "default shift onto itself", "refused")
        else:
            ctx.report("R01.4", fi, "default shift onto itself", "a default shift from a position to itself is accepted")
    except Unmodelled as e:
        ctx.unknown("R01.4", "user default shifts", str(e))
    # ... and reaches the axis from the Grid constructor: Grid(default_shifts={axis: {...}})
    gfi = P.func("grid:Grid.__init__")
    AXn, AYn = Sym("AX"), Sym("AY")

    def make():
        coords = {a: {"center": dimsym(a.name, "center"), "left": dimsym(a.name, "left"), "right": dimsym(a.name, "right")} for a in (AXn, AYn)}
        dims = tuple(d for c in coords.values() for d in c.values())
        ds = Obj("Dataset", "ds", (), {"dims": dims, "__isinstance__": ("Dataset",)})
        me = Obj("Grid", "self", (), {"__class__": "grid:Grid"})
        return dict(self=me, ds=ds, coords=coords, periodic=True, fill_value=None, default_shifts={AXn: {"center": "right"}}, boundary=None, face_connections=None, metrics=None,
                    autoparse_metadata=False)

    try:
        outs = Evaluator(P, models={"warnings.warn": lambda ev, a, k, n: None}).run_paths(gfi, make)
        bad = None
        for o in outs:
            axes = o.env.get("self").attrs.get("axes") if o.kind == "return" else None
            if not isinstance(axes, dict):
                bad = f"{o.kind} {o.value!r}"
                continue
            got = {a.name: axes[a].attrs.get("_default_shifts", {}).get("center") for a in (AXn, AYn)}
            if got != {"AX": "right", "AY": "left"}:
                bad = f"default shift of the centre position is {got}; the user's entry for AX (right) must reach that axis, AY keeps the documented fallback (left)"
        if bad:
            ctx.report("R01.4", gfi, "Grid(default_shifts=...) reaches the axis", bad)
        else:
            ctx.ok("R01.4", "Grid(default_shifts=...) reaches the axis", "per-axis entry forwarded, other axes keep the fallback")
    except Unmodelled as e:
        ctx.unknown("R01.4", "Grid(default_shifts=...)", str(e))


# ------------------------------------------------------------------ _pad_basic
def _pad_basic_direct(P):
    a_ = P.func("padding:_pad_basic").node.args
    return {"da", "grid", "padding_width", "padding", "fill_value"} <= {x.arg for x in a_.posonlyargs + a_.args + a_.kwonlyargs}


def pad_basic_fills(P, axnames=("AX", "AY")):
    """The fill value the harness puts in force per axis: an opaque token when _pad_basic is entered directly, a distinct
    number per axis when it is entered through pad() (which only accepts numbers)."""
    if _pad_basic_direct(P):
        return {a: Sym(f"FILL_{a}") for a in axnames}
    return {a: 1.5 + i for i, a in enumerate(axnames)}


def pad_basic_widths(P, axnames=("AX", "AY")):
    """The widths the harness asks for: symbolic when _pad_basic is entered directly, distinct positive numbers through pad()
    (whose early exit for all-zero widths would otherwise be one of the explored paths)."""
    from ..absint import Lin

    if _pad_basic_direct(P):
        return {a: (Lin.sym(f"lo_{a}"), Lin.sym(f"hi_{a}")) for a in axnames}
    return {a: (1 + 2 * i, 2 + 2 * i) for i, a in enumerate(axnames)}


def run_pad_basic(P, rule, widths=None, axnames=("AX",)):
    from ..absint import Lin

    ev = Evaluator(P, method_models=da_method_models(), attr_models=da_attr_models())
    direct = _pad_basic_direct(P)
    fills = pad_basic_fills(P, axnames)

    def make():
        g = make_grid(axnames)
        da = make_da("da", [Sym("t")] + [dimsym(a, "center") for a in axnames])
        pw = widths if widths is not None else {Sym(a): w for a, w in pad_basic_widths(P, axnames).items()}
        if not direct:
            # the private routine takes its rule in another form in this tree: enter through the public pad() (no face
            # connections on this grid), which hands it whatever it expects
            return dict(data=da, grid=g, boundary_width=pw, boundary={Sym(a): rule for a in axnames}, fill_value={Sym(a): fills[a] for a in axnames}, other_component=None)
        return dict(da=da, grid=g, padding_width=pw, padding={Sym(a): rule for a in axnames}, fill_value={Sym(a): Sym(f"FILL_{a}") for a in axnames})

    return ev.run_paths(P.func("padding:_pad_basic") if direct else P.func("padding:pad"), make)


MODES = {"periodic": "wrap", "fill": "constant", "extend": "edge"}


def check_pad_basic(ctx, P, rule_id):
    from ..absint import Lin

    fi = P.func("padding:_pad_basic")
    for rule, mode in MODES.items():
        inst = f"_pad_basic rule {rule}"
        try:
            outs = run_pad_basic(P, rule, axnames=("AX", "AY"))
        except Unmodelled as e:
            ctx.unknown(rule_id, inst, str(e))
            continue
        bad = None
        for o in outs:
            if o.kind != "return" or not isinstance(o.value, Obj):
                bad = f"does not return an array ({o.kind} {o.value!r})"
                continue
            pads = [e for e in o.value.eff if e[0] == "pad"]
            if o.value.name != "da":
                bad = "does not pad the array it was given"
            others, unknown_ops = foreign_ops([e for e in o.value.eff if e[0] != "pad"])
            if unknown_ops:
                ctx.unknown(rule_id, inst, f"operation(s) {unknown_ops} on the padded array")
                continue
            if others:
                bad = bad or f"besides padding, the array goes through {others}: the original values and the new cells must be exactly what xarray.pad produces"
            # what each dimension receives, whichever way the calls are grouped
            per_dim = {}
            for p in pads:
                args, kw = list(p[1]), dict(p[2])
                # DataArray.pad(pad_width=None, mode="constant", stat_length=None, constant_values=None, ..., **pad_width_kwargs)
                m = args[0] if args else kw.get("pad_width")
                md = args[1] if len(args) > 1 else kw.get("mode", "constant")
                cv = kw.get("constant_values", "<none>")
                if cv is None:
                    cv = "<none>"  # xarray's default: the same as not passing the argument
                own = {"pad_width", "mode", "stat_length", "constant_values", "end_values", "reflect_type", "keep_attrs"}
                as_kw = {k: v for k, v in kw.items() if k not in own}
                if m is None and as_kw:  # widths given as keyword arguments named after the dimensions
                    known = {dimsym(a, "center").name: dimsym(a, "center") for a in ("AX", "AY")}
                    m = {known.get(k, k): v for k, v in as_kw.items()}
                if not isinstance(m, dict):
                    bad = f"xarray.pad called without a {{dimension: widths}} mapping ({m!r})"
                    continue
                for d, wd in m.items():
                    if d in per_dim:
                        bad = f"dimension {d!r} is padded twice"
                    per_dim[d] = (wd, md, cv.get(d, "<none>") if isinstance(cv, dict) else cv)
            for a in ("AX", "AY"):
                d = dimsym(a, "center")
                if d not in per_dim:
                    bad = bad or f"axis {a}: its dimension is not padded"
                    continue
                wd, md, cv = per_dim[d]
                if tuple(wd) != pad_basic_widths(P)[a]:
                    bad = bad or f"axis {a}: xarray.pad receives widths {wd!r} instead of the requested (lower, upper) unchanged"
                elif md != mode:
                    bad = bad or f"rule '{rule}' is translated to pad mode {md!r} instead of '{mode}'"
                elif mode == "constant" and cv != pad_basic_fills(P)[a]:
                    bad = bad or f"axis {a}: padded with constant_values={cv!r} instead of the fill value in force for that axis"
                elif mode != "constant" and cv != "<none>":
                    bad = bad or f"constant_values passed with mode {mode}"
            if set(per_dim) - {dimsym("AX", "center"), dimsym("AY", "center")}:
                bad = bad or f"dimensions {set(per_dim)} are padded; only the requested axes' dimensions may be"
        if bad:
            ctx.report(rule_id, fi, inst, bad)
        else:
            ctx.ok(rule_id, inst, f"-> xarray.pad(mode='{mode}') per axis with the requested (lower, upper) widths")
