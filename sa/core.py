"""Loader and symbol table for the static checks.

Parses every module of /repo/xgcm (tests excluded) afresh on every run with the standard
library's ``ast``.  Nothing of the analysed package is imported or executed.

``Project(overrides={relpath: source})`` analyses the tree with some files replaced in memory;
the self-test uses this to apply seeded variants without touching the disk.
"""
from __future__ import annotations

import ast
import os
import pathlib
from typing import Dict, Iterator, List, Optional, Tuple

REPO = pathlib.Path(os.environ.get("SA_REPO", "/repo"))
PKG = "xgcm"


class AnalysisError(Exception):
    """The analysis cannot reach a verdict (anchor missing, unmodelled construct, ...)."""


class FuncInfo:
    __slots__ = ("q", "module", "node", "cls", "parent", "name")

    def __init__(self, q, module, node, cls, parent):
        self.q = q
        self.module = module
        self.node = node
        self.cls = cls  # enclosing class name or None
        self.parent = parent  # enclosing function qualname or None
        self.name = node.name if hasattr(node, "name") else "<lambda>"

    @property
    def params(self):
        a = self.node.args
        return (
            [x.arg for x in a.posonlyargs + a.args],
            a.vararg.arg if a.vararg else None,
            [x.arg for x in a.kwonlyargs],
            a.kwarg.arg if a.kwarg else None,
        )

    def all_param_names(self) -> List[str]:
        ps, va, ko, kw = self.params
        return ps + ([va] if va else []) + ko + ([kw] if kw else [])

    def defaults(self) -> Dict[str, ast.expr]:
        a = self.node.args
        pos = a.posonlyargs + a.args
        out = {}
        for p, d in zip(pos[len(pos) - len(a.defaults):], a.defaults):
            out[p.arg] = d
        for p, d in zip(a.kwonlyargs, a.kw_defaults):
            if d is not None:
                out[p.arg] = d
        return out

    def __repr__(self):
        return f"<func {self.q}>"


class Module:
    def __init__(self, name, relpath, src):
        self.name = name
        self.relpath = relpath
        self.src = src
        try:
            self.tree = ast.parse(src)
        except SyntaxError as e:  # a tree that does not compile is not analysable
            raise AnalysisError(f"{relpath}: syntax error: {e}")
        self.imports: Dict[str, Tuple[str, Optional[str]]] = {}  # local name -> (module, attr|None)
        self.consts: Dict[str, object] = {}
        self.const_nodes: Dict[str, ast.AST] = {}


class Project:
    def __init__(self, overrides: Optional[Dict[str, str]] = None, root: Optional[pathlib.Path] = None):
        self.root = pathlib.Path(root) if root else REPO
        self.overrides = overrides or {}
        self.modules: Dict[str, Module] = {}
        self.functions: Dict[str, FuncInfo] = {}
        self.classes: Dict[str, ast.ClassDef] = {}  # "module:Class"
        self.by_name: Dict[str, List[str]] = {}
        self._load()

    # ------------------------------------------------------------------ loading
    def _load(self):
        pkgdir = self.root / PKG
        if not pkgdir.is_dir():
            raise AnalysisError(f"package directory {pkgdir} not found")
        for p in sorted(pkgdir.glob("*.py")):
            rel = f"{PKG}/{p.name}"
            src = self.overrides.get(rel)
            if src is None:
                src = p.read_text()
            m = Module(p.stem, rel, src)
            self.modules[m.name] = m
        for rel, src in self.overrides.items():
            name = pathlib.Path(rel).stem
            if name not in self.modules and rel.startswith(PKG + "/") and rel.count("/") == 1:
                self.modules[name] = Module(name, rel, src)
        for m in self.modules.values():
            self._collect(m, m.tree, "", None, None)
            self._imports(m)
        for m in self.modules.values():
            self._fold_consts(m)
        for q in self.functions:
            self.by_name.setdefault(q.rsplit(".", 1)[-1].split(":")[-1], []).append(q)
        self._publish_init_literals()

    def _publish_init_literals(self):
        """Attributes that Grid.__init__ sets to an empty container or a constant (`self._cache = {}`): the hand-built grid
        models of the harnesses (xmodel.make_grid) start with the same attributes, so that a constructor which introduces such a
        piece of state does not make every harness stumble over an unknown attribute."""
        from . import xmodel

        lit = {}
        fi = self.functions.get("grid:Grid.__init__")
        if fi is not None:
            for st in fi.node.body:
                tgt, val = None, None
                if isinstance(st, ast.Assign) and len(st.targets) == 1:
                    tgt, val = st.targets[0], st.value
                elif isinstance(st, ast.AnnAssign) and st.value is not None:
                    tgt, val = st.target, st.value
                if isinstance(tgt, ast.Attribute) and isinstance(tgt.value, ast.Name) and tgt.value.id == "self":
                    try:
                        if isinstance(val, ast.Call) and isinstance(val.func, ast.Name) and val.func.id in ("dict", "list", "set", "OrderedDict") and not val.args and not val.keywords:
                            lit[tgt.attr] = {"dict": dict, "list": list, "set": set, "OrderedDict": dict}[val.func.id]()
                        else:
                            v = ast.literal_eval(val)
                            if v is None or isinstance(v, (dict, list, set, int, float, str, bool, tuple)):
                                lit[tgt.attr] = v
                    except (ValueError, SyntaxError, TypeError):
                        pass
        xmodel.GRID_INIT_LITERALS = lit

    def _collect(self, m: Module, node, prefix, cls, parent):
        for ch in ast.iter_child_nodes(node):
            if isinstance(ch, (ast.FunctionDef, ast.AsyncFunctionDef)):
                q = f"{m.name}:{prefix}{ch.name}"
                self.functions[q] = FuncInfo(q, m.name, ch, cls, parent)
                self._collect(m, ch, prefix + ch.name + ".", cls, q)
            elif isinstance(ch, ast.ClassDef):
                self.classes[f"{m.name}:{prefix}{ch.name}"] = ch
                self._collect(m, ch, prefix + ch.name + ".", ch.name, parent)
            elif isinstance(ch, (ast.If, ast.Try, ast.With, ast.For, ast.While, ast.ExceptHandler)):
                self._collect(m, ch, prefix, cls, parent)

    def _imports(self, m: Module):
        for st in ast.walk(m.tree):
            if isinstance(st, ast.ImportFrom):
                if st.level >= 1:
                    base = st.module or ""
                    for a in st.names:
                        if base == "":
                            m.imports[a.asname or a.name] = (a.name, None)  # from . import gridops
                        else:
                            m.imports[a.asname or a.name] = (base, a.name)
                else:
                    for a in st.names:
                        m.imports[a.asname or a.name] = ("ext:" + (st.module or ""), a.name)
            elif isinstance(st, ast.Import):
                for a in st.names:
                    m.imports[a.asname or a.name.split(".")[0]] = ("ext:" + a.name, None)

    # ------------------------------------------------------------------ constants
    def _fold_consts(self, m: Module):
        for st in m.tree.body:
            tgt = None
            if isinstance(st, ast.Assign) and len(st.targets) == 1 and isinstance(st.targets[0], ast.Name):
                tgt, val = st.targets[0].id, st.value
            elif isinstance(st, ast.AnnAssign) and isinstance(st.target, ast.Name) and st.value is not None:
                tgt, val = st.target.id, st.value
            if tgt is None:
                continue
            m.const_nodes[tgt] = val
            try:
                m.consts[tgt] = self.fold(val, m)
            except ValueError:
                pass

    def fold(self, n: ast.AST, m: Module):
        """Constant-fold literals, f-strings, + and .format over other module constants."""
        if isinstance(n, ast.Constant):
            return n.value
        if isinstance(n, ast.Name):
            if n.id in m.consts:
                return m.consts[n.id]
            if n.id in m.imports:
                mod, attr = m.imports[n.id]
                if attr and mod in self.modules and attr in self.modules[mod].consts:
                    return self.modules[mod].consts[attr]
            raise ValueError(n.id)
        if isinstance(n, ast.JoinedStr):
            out = ""
            for v in n.values:
                if isinstance(v, ast.Constant):
                    out += str(v.value)
                elif isinstance(v, ast.FormattedValue) and v.format_spec is None and v.conversion == -1:
                    out += str(self.fold(v.value, m))
                else:
                    raise ValueError("fstring")
            return out
        if isinstance(n, ast.BinOp) and isinstance(n.op, ast.Add):
            l, r = self.fold(n.left, m), self.fold(n.right, m)
            if isinstance(l, str) and isinstance(r, str):
                return l + r
            raise ValueError("add")
        if isinstance(n, ast.Tuple):
            return tuple(self.fold(x, m) for x in n.elts)
        if isinstance(n, ast.List):
            return [self.fold(x, m) for x in n.elts]
        if isinstance(n, ast.Dict):
            if any(k is None for k in n.keys):
                raise ValueError("dict unpack")
            return {self.fold(k, m): self.fold(v, m) for k, v in zip(n.keys, n.values)}
        if isinstance(n, ast.UnaryOp) and isinstance(n.op, ast.USub):
            v = self.fold(n.operand, m)
            if isinstance(v, (int, float)):
                return -v
        raise ValueError(type(n).__name__)

    # ------------------------------------------------------------------ access
    def func(self, q: str) -> FuncInfo:
        if q not in self.functions:
            raise AnalysisError(f"anchor function {q} not found in the tree")
        return self.functions[q]

    def has_func(self, q: str) -> bool:
        return q in self.functions

    def module(self, name: str) -> Module:
        if name not in self.modules:
            raise AnalysisError(f"anchor module {name} not found in the tree")
        return self.modules[name]

    def const(self, module: str, name: str):
        m = self.module(module)
        if name not in m.consts:
            raise AnalysisError(f"module constant {module}.{name} not found or not foldable")
        return m.consts[name]

    def funcs_in(self, module: str) -> Iterator[FuncInfo]:
        for q, f in self.functions.items():
            if f.module == module:
                yield f

    def children(self, q: str) -> List[FuncInfo]:
        return [f for f in self.functions.values() if f.parent == q]

    def loc(self, fi: FuncInfo, node: Optional[ast.AST] = None) -> str:
        n = node if node is not None and hasattr(node, "lineno") else fi.node
        return f"{self.modules[fi.module].relpath}:{getattr(n, 'lineno', 0)}"

    def n_functions(self) -> int:
        return len(self.functions)


# ---------------------------------------------------------------------- small AST helpers
def norm(node: ast.AST, limit: int = 160) -> str:
    """Normalised text of a node (formatting-independent)."""
    try:
        s = ast.unparse(node)
    except Exception:  # pragma: no cover
        s = ast.dump(node)
    s = " ".join(s.split())
    return s if len(s) <= limit else s[: limit - 3] + "..."


def own_nodes(fn: ast.AST) -> Iterator[ast.AST]:
    """Walk the nodes of a function body without descending into nested defs/classes/lambdas."""
    stack = list(ast.iter_child_nodes(fn))
    while stack:
        n = stack.pop()
        yield n
        if isinstance(n, (ast.FunctionDef, ast.AsyncFunctionDef, ast.ClassDef, ast.Lambda)):
            continue
        stack.extend(ast.iter_child_nodes(n))


def body_stmts(fn: ast.AST) -> Iterator[ast.stmt]:
    for n in own_nodes(fn):
        if isinstance(n, ast.stmt):
            yield n


def calls_in(node: ast.AST) -> Iterator[ast.Call]:
    for n in ast.walk(node):
        if isinstance(n, ast.Call):
            yield n


def call_name(c: ast.Call) -> str:
    f = c.func
    if isinstance(f, ast.Name):
        return f.id
    if isinstance(f, ast.Attribute):
        return f.attr
    return ""


def dotted(e: ast.AST) -> str:
    if isinstance(e, ast.Name):
        return e.id
    if isinstance(e, ast.Attribute):
        b = dotted(e.value)
        return f"{b}.{e.attr}" if b else ""
    return ""


def kwarg(c: ast.Call, name: str) -> Optional[ast.expr]:
    for k in c.keywords:
        if k.arg == name:
            return k.value
    return None


def names_in(e: ast.AST) -> set:
    return {n.id for n in ast.walk(e) if isinstance(n, ast.Name)}


def parent_map(root: ast.AST) -> Dict[ast.AST, ast.AST]:
    pm = {}
    for p in ast.walk(root):
        for c in ast.iter_child_nodes(p):
            pm[c] = p
    return pm
