"""Command line of the static checks.

    /venv/bin/python -m sa.check C05              quick tier
    /venv/bin/python -m sa.check C05 --thorough   + whole-package entry points + checker self-test
    /venv/bin/python -m sa.check --replay <path>  re-evaluate one reported instance on the current tree

Exit codes: 0 property held on every rule instance (or only listed known findings);
            1 unlisted violation(s), each printed as ``VIOLATION property=<id> replay=<path>``;
            2 ``ANALYSIS-ERROR``: no verdict (anchor vanished, unmodelled construct, floor, self-test failure).
"""
from __future__ import annotations

import importlib
import json
import sys
import time
import traceback

from . import report
from .core import AnalysisError, Project

PROPS = [f"C{i:02d}" for i in range(1, 21)]


def load_prop(pid: str):
    return importlib.import_module(f"sa.props.{pid.lower()}")


def run_check(pid: str, project: Project, thorough: bool) -> report.Ctx:
    mod = load_prop(pid)
    ctx = report.Ctx(pid, project, thorough)
    mod.check(ctx)
    return ctx


def main(argv=None) -> int:
    argv = list(sys.argv[1:] if argv is None else argv)
    thorough = False
    replay = None
    pid = None
    i = 0
    while i < len(argv):
        a = argv[i]
        if a == "--thorough":
            thorough = True
        elif a == "--replay":
            i += 1
            replay = argv[i]
        elif a == "--quick":
            thorough = False
        else:
            pid = a
        i += 1
    if replay:
        data = json.loads(open(replay).read())
        pid = data["property"]
    if pid not in PROPS:
        print(f"usage: python -m sa.check <C01..C20> [--thorough] | --replay <file>")
        return 2
    t0 = time.time()
    tier = "thorough" if thorough else "quick"
    if thorough:
        import os

        os.environ["SA_THOROUGH"] = "1"  # read by sa.geometry at import: wider enumeration ranges
    try:
        mod = load_prop(pid)
        project = Project()
        ctx = run_check(pid, project, thorough)
        if replay:
            hit = [f for f in ctx.findings if f.key == data["key"]]
            if hit:
                p = report.write_replay(pid, "replayed", hit[0])
                print(f"VIOLATION property={pid} replay={p}")
                print(f"  {hit[0].loc} {hit[0].func} {hit[0].rule} {hit[0].construct} - {hit[0].message}")
                return 1
            print(f"replayed instance {data['key']} no longer violates on the current tree")
            return 0
        known = report.known_for(pid)
        known_keys = {k["key"]: k for k in known}
        known_hits, new = [], []
        for f in ctx.findings:
            (known_hits if f.key in known_keys else new).append(f)
        selftest = None
        st_fail = []
        if thorough:
            from . import selftest as st

            selftest = st.run(pid, ctx)
            st_fail = selftest.get("failures", [])
        wall = time.time() - t0
        report.write_evidence(
            pid,
            tier,
            ctx,
            wall,
            mod.EXPLANATION,
            mod.ASSUMPTIONS,
            len(new),
            [{"key": f.key, "what": known_keys[f.key].get("what", "")} for f in known_hits],
            selftest,
        )
        print(
            f"[{pid}] {tier}: {len(ctx.instances)} rule instances over {project.n_functions()} functions in "
            f"{len(project.modules)} modules; {len(new)} violation(s), {len(known_hits)} known finding(s), "
            f"{len(ctx.inconclusive)} inconclusive; {wall:.2f}s"
        )
        for r, n in sorted(ctx.counts.items()):
            print(f"    {r}: {n} instance(s)")
        for f in known_hits:
            print(f"KNOWN-FINDING: property={pid} {known_keys[f.key].get('what', f.message)} [{f.key}]")
        for n, f in enumerate(new):
            p = report.write_replay(pid, n, f)
            print(f"VIOLATION property={pid} replay={p}")
            print(f"  {f.loc} {f.func} {f.rule} {f.construct} - {f.message}")
        if new:
            return 1
        if ctx.inconclusive or st_fail:
            for u in ctx.inconclusive:
                print(f"ANALYSIS-ERROR property={pid} rule={u['rule']} instance={u['instance']} - {u['reason']}")
            for u in st_fail:
                print(f"ANALYSIS-ERROR property={pid} self-test: {u}")
            return 2
        return 0
    except AnalysisError as e:
        print(f"ANALYSIS-ERROR property={pid} {e}")
        _fail_evidence(pid, tier, t0, str(e))
        return 2
    except Exception as e:  # an internal error is not a violation
        print(f"ANALYSIS-ERROR property={pid} internal error: {type(e).__name__}: {e}")
        traceback.print_exc()
        _fail_evidence(pid, tier, t0, f"{type(e).__name__}: {e}")
        return 2


def _fail_evidence(pid, tier, t0, msg):
    try:
        ctx = report.Ctx(pid, None)
        ctx.unknown("engine", "analysis", msg)

        class _P:
            modules = {}

            def n_functions(self):
                return 0

        ctx.project = _P()
        report.write_evidence(pid, tier, ctx, time.time() - t0, "analysis error: " + msg, [], 0, [])
    except Exception:
        pass


if __name__ == "__main__":
    sys.exit(main())
