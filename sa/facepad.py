"""Harness: whole-function abstract evaluation of padding._pad_face_connections on a two-face table."""
from __future__ import annotations

import copy

from .absint import TOP, Evaluator, Lin, Obj, SliceV, Sym, Unmodelled, xr_mapping_arg
from .affsel import FACTS, interpret
from .geometry import reciprocal_side
from .harness import da_attr_models
from .xmodel import bind_by_position, dimsym, make_da, make_grid

AX, AY, FACE = Sym("AX"), Sym("AY"), Sym("face")


def axis_of_dim(d):
    if isinstance(d, Sym) and "_" in d.name:
        a = d.name.split("_")[0]
        if a in ("AX", "AY"):
            return Sym(a)
    return None


def method_models():
    def isel(ev, recv, args, kw, node):
        m = xr_mapping_arg("isel", args, kw) or {}
        dims = recv.attrs.get("dims")
        nd = tuple(d for d in dims if not (d in m and not isinstance(m[d], SliceV)))
        return recv.with_eff(("isel", m), dims=nd)

    def rename(ev, recv, args, kw, node):
        m = xr_mapping_arg("rename", args, kw) or {}
        dims = recv.attrs.get("dims")
        if any(isinstance(v, (str,)) or not isinstance(v, Sym) for v in m.values()):
            ev.events.append(("rename-to-manufactured-name", m, node))
        return recv.with_eff(("rename", m), dims=tuple(m.get(d, d) for d in dims))

    def getitem(ev, recv, args, kw, node):
        if isinstance(args[0], dict):  # da[{dim: indexer}] is da.isel({dim: indexer})
            return isel(ev, recv, [args[0]], {}, node)
        return Obj("Coord", "coord", (), {"of": recv, "key": args[0]})

    def expand_dims(ev, recv, args, kw, node):
        return recv.with_eff(("expand_dims", tuple(args)))

    return {
        ("DataArray", "isel"): isel,
        ("DataArray", "rename"): rename,
        ("DataArray", "__getitem__"): getitem,
        ("DataArray", "expand_dims"): expand_dims,
        ("Coord", "__len__"): lambda ev, r, a, k, n: r.attrs["of"].attrs.get("n_faces", 2),
        ("Coords", "__iter__"): lambda ev, r, a, k, n: [],
    }


def _sizes(ev, o, node):
    """Symbolic extent of every current dimension, computed from the lineage (pre-padding, slices, renames)."""
    if o.name == "CONCAT":
        # along the concatenated dimension the pieces add up; afterwards slices / renames applied to the whole
        from .affsel import Sel

        cd = o.attrs["dim"]
        piece_sizes = [_sizes(ev, p, node) for p in o.attrs["parts"] if isinstance(p, Obj)]
        if not piece_sizes:
            raise Unmodelled("size of an empty concatenation", node)
        sizes = {}
        for d in o.attrs.get("dims0") or o.attrs.get("dims", ()):
            if d == cd:
                tot = Lin.of(0)
                for ps in piece_sizes:
                    tot = tot + Lin.of(ps.get(d, 1))
                sizes[d] = tot
            else:
                sizes[d] = next((ps[d] for ps in piece_sizes if d in ps), None)
        for e in o.eff:
            if e[0] == "isel":
                for d, ix in (xr_mapping_arg("isel", e[1:2] if isinstance(e[1], dict) else e[1], e[2] if len(e) > 2 else ()) or (e[1] if isinstance(e[1], dict) else {})).items():
                    if isinstance(ix, SliceV) and d in sizes and sizes[d] is not None:
                        sizes[d] = Sel(0, 1, sizes[d]).slice(ix).count
                    elif d in sizes:
                        del sizes[d]
            elif e[0] == "rename":
                m = e[1] if isinstance(e[1], dict) else {}
                sizes = {m.get(d, d): v for d, v in sizes.items()}
            elif e[0] in ("squeeze", "drop_vars", "assign_coords", "copy", "reset_coords", "reset_index", "transpose", "expand_dims"):
                continue
            else:
                raise Unmodelled(f"size after `{e[0]}` on a concatenation", node)
        return {d: v for d, v in sizes.items() if v is not None}
    st = interpret(o, FACE, axis_of_dim)
    out = {}
    for d in o.attrs.get("dims", ()):
        if d == FACE:
            out[d] = o.attrs.get("n_faces", 2)
        elif d in st.names:
            phys = st.names[d]
            # only the horizontal dimensions have the modelled extent n (+ pre-padding); any other one has its own unknown length
            out[d] = st.sel[phys].count if axis_of_dim(phys) is not None else Lin.sym("len_" + getattr(phys, "name", str(phys)))
    return out


def attr_models():
    m = da_attr_models()
    # the inputs of this harness carry no coordinates (pad() strips them anyway, C19 R19.3): the coordinate table is empty
    m[("DataArray", "coords")] = lambda ev, o, n: {}
    m[("DataArray", "sizes")] = _sizes
    m[("DataArray", "shape")] = lambda ev, o, n: tuple(_sizes(ev, o, n)[d] for d in o.attrs.get("dims", ()))
    return m


def m_pad_basic(ev, args, kw, node):
    b = bind_by_position(ev, "padding:_pad_basic", ["da", "grid", "padding_width", "padding", "fill_value"], args, kw)
    ev.events.append(("pad_basic", b, node))
    d = b["da"]
    if not isinstance(d, Obj):
        raise Unmodelled(f"_pad_basic applied to {d!r}", node)
    return d.with_eff(("PAD_BASIC", copy.deepcopy(b["padding_width"]), copy.deepcopy(b["padding"]), copy.deepcopy(b["fill_value"])))


def m_concat(ev, args, kw, node):
    # xarray.concat(objs, dim, ...) - both may be given by keyword
    objs = args[0] if args else kw.get("objs")
    if objs is None:
        raise Unmodelled("xarray.concat without objects", node)
    parts = list(ev.iterate(objs, node))
    dims = None
    for p in parts:
        if isinstance(p, Obj):
            dims = p.attrs.get("dims")
    d = kw.get("dim", args[1] if len(args) > 1 else None)
    if dims is not None and d not in dims:
        dims = (d,) + tuple(dims)
    ev.events.append(("concat", parts, d, dict(kw), node))
    return Obj("DataArray", "CONCAT", (), {"parts": parts, "dim": d, "dims": dims, "dims0": dims, "kw": dict(kw), "__isinstance__": ("DataArray",)})


# the rule and fill value in force for the calls of this harness: one word and one number per axis, different from each other
RULES_IN_FORCE = {AX: "extend", AY: "fill"}
FILLS_IN_FORCE = {AX: 1.5, AY: 2.5}


def table_for(is_right: bool, swap: bool, reverse: bool):
    """Two-face table: side `is_right` of axis AX of face 0 is linked to face 1 (axis AY if swap) and back."""
    b_axis = AY if swap else AX
    side = 1 if is_right else 0
    back_side = reciprocal_side(side, reverse)
    f0 = [None, None]
    f0[side] = (1, b_axis, reverse)
    f1 = [None, None]
    f1[back_side] = (0, AX, reverse)
    return {FACE: {0: {AX: tuple(f0)}, 1: {b_axis: tuple(f1)}}}


def respell(table):
    """The same face-connection table in another legitimate spelling: links as lists [face, axis, reverse] (a table read
    from JSON) and reverse flags as the integers 1 / 0 (a table built from a numeric array).  Truth and equality are those of
    True / False; identity (`is False`) and the type (`isinstance(link, tuple)`) are not."""
    out = {}
    for fd, faces in table.items():
        out[fd] = {}
        for f, per_axis in faces.items():
            out[fd][f] = {}
            for ax, links in per_axis.items():
                out[fd][f][ax] = tuple(None if l is None else [l[0], l[1], int(bool(l[2]))] for l in links)
    return out


def table_pair(left, right):
    """Three-face table: face 0 has a left link of kind `left` = (swap, reverse) to face 1 and a right link of kind
    `right` to face 2 (None = no link); faces 1 and 2 hold the reciprocal links."""
    t = {0: {AX: [None, None]}, 1: {}, 2: {}}
    for side, kind, nb in ((0, left, 1), (1, right, 2)):
        if kind is None:
            continue
        swap, rev = kind
        b_axis = AY if swap else AX
        t[0][AX][side] = (nb, b_axis, rev)
        back = [None, None]
        back[reciprocal_side(side, rev)] = (0, AX, rev)
        t[nb][b_axis] = tuple(back)
    t[0][AX] = tuple(t[0][AX])
    return {FACE: t}


def run(P, table, vector=None, widths=None, padding=None, n_faces=2, other_component="auto", dims_scalar=None, partner_dims_swapped=False, prune=False, grid_boundary=None, trailing_dim=False, third_axis=False):
    """third_axis: the grid has a third, unconnected axis AZ declared *before* the horizontal ones; the data has a dimension of it and AZ is padded too.
    vector: None (scalar), 'parallel' (component along AX, the padded axis) or 'tangential' (component along AY)."""
    w = Lin.sym("w")
    # prune: the coordinate-bookkeeping test (`<dim> in <slice>.coords`) is taken as False; it does not influence
    # which cells are selected (the unpruned runs check that both arms agree) and only multiplies the paths
    ev = Evaluator(P, models={"padding:_pad_basic": m_pad_basic, "xarray.concat": m_concat, "warnings.warn": lambda ev_, a, k, n: None}, method_models=method_models(),
                   attr_models=attr_models(), facts=dict(FACTS), assume_false=(".coords",) if prune else ())
    # the entry is the public pad(): it completes the options, strips the coordinates and hands over to the face padding in
    # whatever way the tree at hand does that - the harness knows nothing of the private function's parameters
    fi = P.func("padding:pad")

    AZ = Sym("AZ")

    def mk(name, dims):
        dims = list(dims) + ([Sym("zlast")] if trailing_dim else [])  # an extra dimension stored after the horizontal ones
        if third_axis:
            dims = [dims[0], dimsym("AZ", "center")] + dims[1:]
        return make_da(name, dims, dims0=tuple(dims), n_faces=n_faces)

    def make():
        g = make_grid(("AZ", "AX", "AY") if third_axis else ("AX", "AY"), face_connections=copy.deepcopy(table), facedim=FACE, **({"boundary": grid_boundary} if grid_boundary else {}))
        if vector is None:
            da = mk("MAIN", dims_scalar or [Sym("t"), FACE, dimsym("AY", "center"), dimsym("AX", "center")])
            oc = None
        else:
            U = [Sym("t"), FACE, dimsym("AY", "center"), dimsym("AX", "left")]
            V = [Sym("t"), FACE, dimsym("AY", "left"), dimsym("AX", "center")]
            if partner_dims_swapped:  # the two components store their horizontal dimensions in different order
                if vector == "parallel":
                    V = [Sym("t"), FACE, dimsym("AX", "center"), dimsym("AY", "left")]
                else:
                    U = [Sym("t"), FACE, dimsym("AX", "left"), dimsym("AY", "center")]
            if vector == "parallel":
                da = {AX: mk("MAIN", U)}
                oc = {AY: mk("PARTNER", V)}
            else:
                da = {AY: mk("MAIN", V)}
                oc = {AX: mk("PARTNER", U)}
            if other_component != "auto":
                oc = other_component
        pw = copy.deepcopy(widths) if widths is not None else {AX: (w, w)}
        pd = copy.deepcopy(padding) if padding is not None else dict(RULES_IN_FORCE)
        fv = dict(FILLS_IN_FORCE)
        if third_axis:
            pw = {AZ: (w, w), **pw}
            pd = {AZ: "extend", **pd} if isinstance(pd, dict) else pd
            fv[AZ] = 3.5
        return dict(data=da, grid=g, boundary_width=pw, boundary=pd, fill_value=fv, other_component=oc)

    return ev.run_paths(fi, make)


def face_parts(result: Obj):
    """The per-face arrays of the final result and the trailing (trim) effects."""
    if not (isinstance(result, Obj) and result.name == "CONCAT"):
        raise Unmodelled(f"result {result!r} is not a concatenation of faces")
    parts = result.attrs["parts"]
    # the final trim cuts along the padded (non-face) dimensions only, so it commutes with stacking the faces: faces that are
    # each trimmed the same way and then stacked are read as stacked and then trimmed
    if not result.eff and parts and all(isinstance(f, Obj) and f.name == "CONCAT" and f.eff for f in parts):
        effs = [tuple((e[0], repr(e[1:])) for e in f.eff) for f in parts]
        if all(e == effs[0] for e in effs) and all(e[0] == "isel" for e in parts[0].eff):
            return [Obj(f.kind, f.name, (), f.attrs) for f in parts], result.attrs["dim"], parts[0].eff
    return parts, result.attrs["dim"], result.eff


def halo_pieces(face_obj: Obj):
    """Flatten the nested concatenations of one face into [(dim, [piece, ...])] innermost first."""
    out = []
    cur = face_obj
    while isinstance(cur, Obj) and cur.name == "CONCAT" and not cur.eff:
        parts = cur.attrs["parts"]
        out.append((cur.attrs["dim"], parts, cur.attrs["kw"]))
        nxt = [p for p in parts if isinstance(p, Obj) and p.name == "CONCAT"]
        if len(nxt) > 1:
            raise Unmodelled("concatenation of two concatenations")
        if not nxt:
            break
        cur = nxt[0]
    return out


def norm_form(piece: Obj):
    return interpret(piece, FACE, axis_of_dim)
