"""Package call graph (DESIGN 3.2): who may call whom, resolved conservatively from the syntax tree."""
from __future__ import annotations

import ast
from typing import Dict, List, Set

from .core import Project, own_nodes

# attribute names that are also dict / list / xarray / numpy method names: never resolved by bare name
AMBIGUOUS = {
    "copy", "pop", "get", "keys", "values", "items", "update", "append", "rename", "pad", "isel", "transpose", "interp", "diff", "min", "max",
    "cumsum", "sum", "mean", "chunk", "squeeze", "format", "split", "replace", "join", "extend", "remove", "index", "count", "sort", "add",
    "transform", "equivalent", "weighted", "average", "integrate", "derivative",
}
# methods of Grid that are called as grid.<name>(...) / self.<name>(...)
GRID_METHODS_BY_RECEIVER = {"self", "grid"}


class CallGraph:
    def __init__(self, P: Project):
        self.P = P
        self.edges: Dict[str, Set[str]] = {q: set() for q in P.functions}
        self.unresolved: Dict[str, List[str]] = {q: [] for q in P.functions}
        self.sites: Dict[str, List[tuple]] = {q: [] for q in P.functions}
        for q, fi in P.functions.items():
            for n in own_nodes(fi.node):
                if isinstance(n, ast.Call):
                    tg = self.resolve(n, fi)
                    for t in tg:
                        self.edges[q].add(t)
                        self.sites[q].append((n, t))
                    # functions passed as arguments (higher-order edges)
                    for a in list(n.args) + [k.value for k in n.keywords]:
                        for t in self.resolve_ref(a, fi):
                            self.edges[q].add(t)
            # nested functions are reachable from their parent
            for ch in P.children(q):
                self.edges[q].add(ch.q)

    def resolve_ref(self, e, fi) -> List[str]:
        if isinstance(e, ast.Name):
            return self._by_name(e.id, fi)
        if isinstance(e, ast.Attribute) and isinstance(e.value, ast.Name) and e.value.id in ("self",) and fi.cls:
            q = f"{fi.module}:{fi.cls}.{e.attr}"
            return [q] if q in self.P.functions else []
        return []

    def _by_name(self, name, fi) -> List[str]:
        P = self.P
        # nested function of this or an enclosing function
        cur = fi
        while cur is not None:
            q = f"{cur.q}.{name}"
            if q in P.functions:
                return [q]
            cur = P.functions.get(cur.parent) if cur.parent else None
        q = f"{fi.module}:{name}"
        if q in P.functions:
            return [q]
        if q in P.classes:
            init = q + ".__init__"
            return [init] if init in P.functions else []
        mod = P.modules[fi.module]
        if name in mod.imports:
            src, attr = mod.imports[name]
            if not src.startswith("ext:") and attr:
                q2 = f"{src}:{attr}"
                if q2 in P.functions:
                    return [q2]
                if q2 in P.classes:
                    init = q2 + ".__init__"
                    return [init] if init in P.functions else []
        return []

    def resolve(self, c: ast.Call, fi) -> List[str]:
        P = self.P
        f = c.func
        if isinstance(f, ast.Name):
            r = self._by_name(f.id, fi)
            if r:
                return r
            # a local bound to a GridUFunc (returned by _select_grid_ufunc)
            if f.id == "grid_ufunc":
                return ["grid_ufunc:GridUFunc.__call__"] if "grid_ufunc:GridUFunc.__call__" in P.functions else []
            return []
        if isinstance(f, ast.Attribute):
            recv = f.value
            # module.function
            if isinstance(recv, ast.Name):
                mod = P.modules[fi.module]
                if recv.id in mod.imports:
                    src, attr = mod.imports[recv.id]
                    if attr is None and not src.startswith("ext:"):
                        q = f"{src}:{f.attr}"
                        return [q] if q in P.functions else []
                    if src.startswith("ext:"):
                        return []
                if recv.id == "self" and fi.cls:
                    q = f"{fi.module}:{fi.cls}.{f.attr}"
                    if q in P.functions:
                        return [q]
                if recv.id in ("grid", "self") or recv.id.endswith("grid"):
                    q = f"grid:Grid.{f.attr}"
                    if q in P.functions:
                        return [q]
                if recv.id in ("ax", "axis") :
                    q = f"axis:Axis.{f.attr}"
                    if q in P.functions:
                        return [q]
                if recv.id == "cls" and fi.cls:
                    q = f"{fi.module}:{fi.cls}.{f.attr}"
                    if q in P.functions:
                        return [q]
            # grid.axes[...].method / self.axes[...].method
            if isinstance(recv, ast.Subscript) and isinstance(recv.value, ast.Attribute) and recv.value.attr == "axes":
                q = f"axis:Axis.{f.attr}"
                if q in P.functions:
                    return [q]
            if isinstance(recv, ast.Name) and recv.id == "_GridUFuncSignature" or (isinstance(recv, ast.Name) and recv.id == "cls"):
                q = f"grid_ufunc:_GridUFuncSignature.{f.attr}"
                if q in P.functions:
                    return [q]
            # unique attribute name in the package, not a library method name
            if f.attr not in AMBIGUOUS:
                cands = [q for q in P.by_name.get(f.attr, []) if P.functions[q].cls]
                if len(cands) == 1:
                    return cands
            self.unresolved[fi.q].append(f.attr)
        return []

    def reachable(self, roots) -> Set[str]:
        seen = set()
        st = [r for r in roots if r in self.edges]
        while st:
            q = st.pop()
            if q in seen:
                continue
            seen.add(q)
            st.extend(self.edges[q] - seen)
        return seen

    def path(self, root: str, target: str) -> List[str]:
        prev = {root: None}
        st = [root]
        while st:
            q = st.pop(0)
            if q == target:
                out = []
                while q is not None:
                    out.append(q)
                    q = prev[q]
                return out[::-1]
            for r in sorted(self.edges.get(q, ())):
                if r not in prev:
                    prev[r] = q
                    st.append(r)
        return []
