"""Order-type evaluation of scalar kernels (transform.py).

Real values are symbols ordered by a given *order type* (a total preorder on the symbols, NaN flags aside):
comparisons are answered from the order type, arithmetic is kept as integer-linear forms in the symbols,
quotients and products with the data symbol are kept as formal terms.  Enumerating all order types makes a
statement such as "the weights sum to one" an identity of linear forms checked for every ordering of the
inputs - no floating-point value is ever computed.
"""
from __future__ import annotations

import ast
import itertools
from fractions import Fraction

from .core import norm
from .absint import TOP, Evaluator, Lin, Obj, Raised, SliceV, Unmodelled, simplify


class Quot:
    """num / den with num, den linear forms (den != 0 by the order type)."""

    def __init__(self, num, den):
        self.num, self.den = Lin.of(num), Lin.of(den)

    def __repr__(self):
        return f"({simplify(self.num)!r})/({simplify(self.den)!r})"


class Term:
    """coef * data-symbol, coef a Quot or a linear form / number."""

    def __init__(self, coef, data):
        self.coef, self.data = coef, data

    def __repr__(self):
        return f"{self.coef!r}*{self.data}"


class SumV:
    def __init__(self, terms=()):
        self.terms = list(terms)

    def __repr__(self):
        return " + ".join(map(repr, self.terms)) or "0"


class Data:
    """A data symbol (phi[i])."""

    def __init__(self, name):
        self.name = name

    def __repr__(self):
        return self.name


PINF, NINF = "+inf", "-inf"  # symbols of the two infinities (np.inf, -np.inf, float("inf"), math.inf)


class OrderType:
    """rank: symbol -> comparable rank (equal rank = equal value); nan: set of symbols that are NaN."""

    def __init__(self, rank, nan=()):
        self.rank = dict(rank)
        self.nan = set(nan)

    def sign_of_difference(self, v: Lin):
        """sign of a linear form that is a difference of two symbols (or a symbol minus itself)."""
        if v.is_const():
            return "pos" if v.const > 0 else "neg" if v.const < 0 else "zero"
        if v.const != 0:
            return "?"
        pos = [k for k, c in v.terms.items() if c == 1]
        neg = [k for k, c in v.terms.items() if c == -1]
        if len(pos) == 1 and len(neg) == 1 and len(v.terms) == 2:
            a, b = pos[0], neg[0]
            rank = dict(self.rank)
            rank.update({PINF: float("inf"), NINF: float("-inf")})  # the infinities compare above / below every value
            if a in self.nan or b in self.nan or a not in rank or b not in rank:
                return "nan"
            ra, rb = rank[a], rank[b]
            return "pos" if ra > rb else "neg" if ra < rb else "zero"
        return "?"

    def describe(self):
        groups = {}
        for k, r in self.rank.items():
            if k not in self.nan:
                groups.setdefault(r, []).append(k)
        s = " < ".join("=".join(sorted(groups[r])) for r in sorted(groups))
        if self.nan:
            s += "; NaN: " + ",".join(sorted(self.nan))
        return s


class KernelFault(Exception):
    """The kernel computes something that cannot be a weighted sum of the data (definite fault, not a gap of the model)."""


class KernelEval(Evaluator):
    def __init__(self, project, order: OrderType, **kw):
        super().__init__(project, **kw)
        self.order = order

    # comparisons of symbols by the order type; any comparison with NaN is False (IEEE)
    def sign(self, v):
        v = Lin.of(v)
        if v is None:
            return "?"
        return self.order.sign_of_difference(v)

    def compare(self, op, l, r, node):
        # inside a kernel a Python list stands for a 1-D array: array-with-scalar comparisons are elementwise (a mask)
        if isinstance(l, list) and not isinstance(r, (list, tuple, dict, str)) and not isinstance(op, (ast.In, ast.NotIn, ast.Is, ast.IsNot)):
            return [self.compare(op, x, r, node) for x in l]
        if isinstance(r, list) and not isinstance(l, (list, tuple, dict, str)) and not isinstance(op, (ast.In, ast.NotIn, ast.Is, ast.IsNot)):
            return [self.compare(op, l, x, node) for x in r]
        ll, rr = Lin.of(l) if not isinstance(l, (Quot, Term, SumV, Data)) else None, Lin.of(r) if not isinstance(r, (Quot, Term, SumV, Data)) else None
        if ll is not None and rr is not None and (isinstance(l, Lin) or isinstance(r, Lin)):
            s = self.order.sign_of_difference(ll - rr)
            if s == "nan":
                return isinstance(op, ast.NotEq)
            if s == "?":
                raise Unmodelled(f"comparison {l!r} vs {r!r} not decided by the order type", node)
            return {
                ast.Lt: s == "neg", ast.LtE: s in ("neg", "zero"), ast.Gt: s == "pos", ast.GtE: s in ("pos", "zero"),
                ast.Eq: s == "zero", ast.NotEq: s != "zero",
            }[type(op)]
        return super().compare(op, l, r, node)

    def binop(self, op, l, r, node):
        if isinstance(op, (ast.BitOr, ast.BitAnd)) and isinstance(l, list) and isinstance(r, list) and len(l) == len(r) and all(isinstance(x, bool) for x in l + r):
            return [(a or b) if isinstance(op, ast.BitOr) else (a and b) for a, b in zip(l, r)]  # masks combined elementwise
        has_data = lambda x: isinstance(x, (Data, Term, SumV))
        if isinstance(op, (ast.Div, ast.FloorDiv, ast.Mod, ast.Pow)) and has_data(r):
            raise KernelFault(f"`{norm(node, 60)}` divides by (a combination of) the data values: the result is not proportional to the data")
        if isinstance(op, ast.Mult) and has_data(l) and has_data(r):
            raise KernelFault(f"`{norm(node, 60)}` multiplies data values with each other: the result is not linear in the data")
        if isinstance(op, (ast.Add, ast.Sub)) and (has_data(l) or has_data(r)):
            other = r if has_data(l) else l
            c = Lin.of(other) if not has_data(other) and not isinstance(other, Quot) else None
            if c is not None and c.is_const() and c.const != 0:
                raise KernelFault(f"`{norm(node, 60)}` adds the constant {c.const} to a combination of data values: the result is not proportional to the data")
        if isinstance(op, ast.Div):
            ll, rr = Lin.of(l) if not isinstance(l, (Quot, Term, SumV, Data)) else None, Lin.of(r) if not isinstance(r, (Quot, Term, SumV, Data)) else None
            if ll is not None and rr is not None and not rr.is_const():
                if self.order.sign_of_difference(rr) == "zero":
                    raise Raised("ZeroDivisionError", node)
                return Quot(ll, rr)
        if isinstance(op, ast.Mult):
            for a, b in ((l, r), (r, l)):
                if isinstance(b, Data) and (isinstance(a, (Quot, int, float, Fraction)) or Lin.of(a) is not None):
                    return Term(a, b)
        if isinstance(op, ast.Add):
            parts = []
            for x in (l, r):
                if isinstance(x, SumV):
                    parts.extend(x.terms)
                elif isinstance(x, Term):
                    parts.append(x)
                elif isinstance(x, Data):
                    parts.append(Term(1, x))
                elif isinstance(x, (int, float)) and x == 0:
                    continue
                elif isinstance(x, Lin) and x.is_const() and x.const == 0:
                    continue
                else:
                    return super().binop(op, l, r, node)
            return SumV(parts)
        return super().binop(op, l, r, node)

    # the infinities: np.inf / math.inf / float("inf") are symbols that compare above (below) every value of the order type
    def e_Attribute(self, e, env, fi):
        if e.attr in ("inf", "Inf", "infty", "PINF", "NINF") and isinstance(e.value, ast.Name) and e.value.id in ("np", "numpy", "math"):
            return Lin.sym(NINF if e.attr == "NINF" else PINF)
        return super().e_Attribute(e, env, fi)

    def e_UnaryOp(self, e, env, fi):
        if isinstance(e.op, ast.USub):
            v = self.ev(e.operand, env, fi)
            if isinstance(v, Lin) and set(v.terms) in ({PINF}, {NINF}) and v.const == 0 and list(v.terms.values()) == [1]:
                return Lin.sym(NINF if PINF in v.terms else PINF)
        return super().e_UnaryOp(e, env, fi)

    def assign(self, t, v, env, fi):
        # numpy semantics of `out[:] = scalar` on a 1-D output modelled as a list
        if isinstance(t, ast.Subscript):
            base = self.ev(t.value, env, fi)
            if isinstance(base, list):
                k = self.ev(t.slice, env, fi)
                if isinstance(k, SliceV) and k.key() == (None, None, None) and not isinstance(v, (list, tuple, Obj)):
                    for i in range(len(base)):
                        base[i] = v
                    return
        return super().assign(t, v, env, fi)


def order_types_point_vs_edges(point_syms, edge_syms, allow_equal_points=True):
    """All order types of the points against strictly increasing edges: each point takes one of the 2k+1 slots
    (below, on edge 0, between 0 and 1, ...); points in the same open slot are ordered in every possible way."""
    k = len(edge_syms)
    slots = list(range(2 * k + 1))  # even = open interval, odd = on an edge
    out = []
    for assign in itertools.product(slots, repeat=len(point_syms)):
        # base ranks: edge i has rank 4*i+2 ; open slot s (even) has rank 2*s ... use spacing 4
        base = {e: 4 * i + 2 for i, e in enumerate(edge_syms)}
        groups = {}
        for p, s in zip(point_syms, assign):
            groups.setdefault(s, []).append(p)
        variants = [dict(base)]
        for s, ps in groups.items():
            if s % 2 == 1:
                for v in variants:
                    for p in ps:
                        v[p] = 4 * (s // 2) + 2
            else:
                r0 = 4 * (s // 2)  # between edge (s/2 - 1) [rank 4*(s/2)-2] and edge s/2 [rank 4*(s/2)+2]
                # all weak orderings of ps within the slot
                new = []
                for order in weak_orderings(ps):
                    for v in variants:
                        w = dict(v)
                        n = len(order)
                        for gi, grp in enumerate(order):
                            for p in grp:
                                w[p] = r0 - 1 + Fraction(2 * (gi + 1), n + 1)
                        new.append(w)
                variants = new
        out.extend(variants)
    return [OrderType(r) for r in out]


def weak_orderings(items):
    items = list(items)
    if not items:
        return [[]]
    if len(items) == 1:
        return [[items]]
    if len(items) == 2:
        a, b = items
        return [[[a], [b]], [[b], [a]], [[a, b]]]
    raise NotImplementedError("weak orderings of more than two points")
