"""T1 - ownership (effect) analysis: which functions may mutate an object owned by their caller.

Flow-sensitive abstract interpretation per function (strong updates on assignment, join at branches), facts
per variable: ('S', p) = may be the very object bound to parameter p; ('C', p) = a fresh container whose
*elements* may be objects reachable from p.  Per-function summaries (parameter -> returned alias, parameter ->
mutated) are iterated to a fixed point over the package call graph.  Library calls return fresh objects
(xarray/numpy methods return new objects; the few in-place ones are listed as mutators).
"""
from __future__ import annotations

import ast
from typing import Dict

from .callgraph import CallGraph
from .core import Project, norm

NP_INPLACE_FIRST_ARG = {"copyto", "put", "place", "putmask", "fill_diagonal", "put_along_axis"}
MUTATORS = {"__setattr__", "fill", "itemset", "setflags", "popitem", "pop", "update", "append", "extend", "remove", "clear", "setdefault", "sort", "insert", "reverse", "load", "__setitem__", "__delitem__", "add", "discard"}
ELEM = {"values", "items", "keys", "popitem", "pop", "get", "__getitem__", "setdefault"}
INPLACE_KW = {"out", "inplace"}


class Ownership:
    def __init__(self, P: Project):
        self.P = P
        self.cg = CallGraph(P)
        self.summ = {q: {"ret": set(), "mut": {}} for q in P.functions}
        # attributes the constructors of the package classes create: the state of an object as its user knows it
        self.ctor_attrs = set()
        for q, fi in P.functions.items():
            if q.endswith(".__init__"):
                for n in ast.walk(fi.node):
                    if isinstance(n, ast.Attribute) and isinstance(n.ctx, ast.Store) and isinstance(n.value, ast.Name) and n.value.id == "self":
                        self.ctor_attrs.add(n.attr)
        self.rounds = 0
        changed = True
        while changed and self.rounds < 12:
            changed = False
            self.rounds += 1
            for q, fi in P.functions.items():
                r, m = _Interp(self, fi).run()
                if r != self.summ[q]["ret"] or set(m) != set(self.summ[q]["mut"]):
                    self.summ[q]["ret"] = r
                    self.summ[q]["mut"] = m
                    changed = True

    def mutated_params(self, q: str) -> Dict[str, dict]:
        return self.summ[q]["mut"]


class _Interp:
    def __init__(self, own: Ownership, fi):
        self.own = own
        self.fi = fi
        ps, va, ko, kw = fi.params
        self.env = {}
        for p in ps + ko:
            self.env[p] = {("S", p)}
        if va:
            self.env[va] = {("C", va)}
        if kw:
            self.env[kw] = {("C", kw)}  # the ** dict itself is fresh, its values are the caller's
        self.ret = set()
        self.mut = {}

    def note(self, p, node, desc, via=None):
        if p not in self.mut:
            self.mut[p] = {"construct": norm(node, 100), "line": getattr(node, "lineno", 0), "where": self.fi.q, "desc": desc, "via": via}

    def ev(self, e):
        if e is None:
            return set()
        if isinstance(e, ast.Name):
            return set(self.env.get(e.id, set()))
        if isinstance(e, ast.Constant):
            return set()
        if isinstance(e, ast.Attribute):
            base = self.ev(e.value)
            return {("S", p) for k, p in base if k == "S"}
        if isinstance(e, ast.Subscript):
            base = self.ev(e.value)
            self.ev(e.slice)
            return {("S", p) for k, p in base}
        if isinstance(e, ast.Tuple) and not any(isinstance(x, ast.Starred) for x in e.elts):
            # a tuple literal keeps its elements apart ("E<i>:<kind>"): `return ds, fresh_dict` followed by
            # `ds, kw = f(ds)` must not make `kw` an alias of the caller's `ds`
            out = set()
            for i, x in enumerate(e.elts):
                for k, p in self.ev(x):
                    out.add((f"E{i}:{k}" if k in ("S", "C") else "C", p))
            return out
        if isinstance(e, (ast.Tuple, ast.List, ast.Set)):
            out = set()
            for x in e.elts:
                x = x.value if isinstance(x, ast.Starred) else x
                out |= {("C", p) for k, p in self.ev(x)}
            return out
        if isinstance(e, ast.Dict):
            out = set()
            for v in e.values:
                out |= {("C", p) for k, p in self.ev(v)}
            return out
        if isinstance(e, (ast.ListComp, ast.SetComp, ast.GeneratorExp, ast.DictComp)):
            saved = dict(self.env)
            for g in e.generators:
                it = self.ev(g.iter)
                self.bind(g.target, {("S", p) for k, p in it})
                for c in g.ifs:
                    self.ev(c)
            elt = self.ev(e.value if isinstance(e, ast.DictComp) else e.elt)
            self.env = saved
            return {("C", p) for k, p in elt}
        if isinstance(e, ast.IfExp):
            self.ev(e.test)
            return self.ev(e.body) | self.ev(e.orelse)
        if isinstance(e, ast.BoolOp):
            out = set()
            for v in e.values:
                out |= self.ev(v)
            return out
        if isinstance(e, ast.BinOp):
            l, r = self.ev(e.left), self.ev(e.right)
            return {("C", p) for k, p in l | r} if isinstance(e.op, ast.BitOr) else set()
        if isinstance(e, ast.Starred):
            return self.ev(e.value)
        if isinstance(e, ast.Call):
            return self.call(e)
        if isinstance(e, ast.NamedExpr):
            t = self.ev(e.value)
            self.bind(e.target, t)
            return t
        for ch in ast.iter_child_nodes(e):
            if isinstance(ch, ast.expr):
                self.ev(ch)
        return set()

    def call(self, c):
        f = c.func
        argt = [self.ev(a.value if isinstance(a, ast.Starred) else a) for a in c.args]
        kwt = {k.arg: self.ev(k.value) for k in c.keywords}
        for k in c.keywords:
            if k.arg in INPLACE_KW:
                for kk, p in kwt[k.arg]:
                    if kk == "S" and not (isinstance(k.value, ast.Constant)):
                        self.note(p, c, f"passed as `{k.arg}=` (written in place)")
        if isinstance(f, ast.Name) and f.id in ("setattr", "delattr") and argt:
            for k, p in argt[0]:
                if k == "S":
                    self.note(p, c, f"{f.id}() on an object of the caller")
        if isinstance(f, ast.Attribute) and f.attr in NP_INPLACE_FIRST_ARG and argt and isinstance(f.value, ast.Name) and f.value.id in ("np", "numpy"):
            for k, p in argt[0]:
                if k == "S":
                    self.note(p, c, f"numpy.{f.attr}() writes into an object of the caller")
        if isinstance(f, ast.Attribute):
            if self._memo_slot(c):
                return set()  # a private memo created on first use: fresh, not the caller's state
            recv = self.ev(f.value)
            if f.attr in MUTATORS:
                for k, p in recv:
                    if k == "S":
                        self.note(p, c, f".{f.attr}() on an object of the caller")
            if f.attr in ELEM:
                return {("S", p) for k, p in recv}
            if f.attr == "copy":
                return {("C", p) for k, p in recv}
        tg = self.own.cg.resolve(c, self.fi)
        if tg:
            q2 = tg[0]
            fi2 = self.own.P.functions[q2]
            ps, va, ko, kw = fi2.params
            bind = {}
            ps_ = ps
            if fi2.cls and ps and ps[0] in ("self", "cls"):
                if isinstance(f, ast.Attribute):
                    bind[ps[0]] = self.ev(f.value)
                else:
                    bind[ps[0]] = set()
                ps_ = ps[1:]
                if q2.endswith(".__call__") and isinstance(f, ast.Name):
                    bind[ps[0]] = set()
            extra = set()
            for i, a in enumerate(c.args):
                t = argt[i]
                if isinstance(a, ast.Starred):
                    extra |= {("C", p) for k, p in t}
                    continue
                if i < len(ps_):
                    bind[ps_[i]] = t
                else:
                    extra |= {("C", p) for k, p in t}
            if va:
                bind[va] = extra
            kwextra = set()
            for k, t in kwt.items():
                if k is None:
                    kwextra |= {("C", p) for kk, p in t}
                elif k in ps_ + ko:
                    bind[k] = t
                else:
                    kwextra |= {("C", p) for kk, p in t}
            for k in ps_ + ko:
                if k not in bind and kwextra:
                    bind[k] = {("S", p) for kk, p in kwextra}
            if kw:
                bind[kw] = kwextra
            sm = self.own.summ[q2]
            for p2, info in sm["mut"].items():
                for k, p in bind.get(p2, set()):
                    if k == "S":
                        self.note(p, c, info["desc"], via=[q2] + (info.get("via") or []) + [f"{info['where']}: {info['construct']}"] if not info.get("via") else [q2] + info["via"])
            out = set()
            for k2, p2 in sm["ret"]:
                for k, p in bind.get(p2, set()):
                    if k2.startswith("E") and ":" in k2:
                        pos, inner = k2.split(":")
                        out.add((f"{pos}:{'S' if (inner == 'S' and k == 'S') else 'C'}", p))
                    else:
                        out.add(("S", p) if (k2 == "S" and k == "S") else ("C", p))
            return out
        if isinstance(f, ast.Name) and f.id in ("zip", "enumerate", "iter", "next", "reversed", "list", "tuple", "dict", "sorted", "filter", "map"):
            out = set()
            for t in argt:
                out |= {("C", p) for k, p in t}
            for t in kwt.values():
                out |= {("C", p) for k, p in t}
            return out
        return set()

    def _memo_slot(self, c) -> bool:
        """`obj.__dict__.setdefault("_key", <fresh container>)` with a private key that no constructor creates: a memo that comes
        into being on first use.  It is not part of the object's state as its user knows it (C18 speaks of settings and
        arguments); whether what is kept in it changes later answers is decided by the sequence rules (C02 R02.4)."""
        f = c.func
        return (isinstance(f, ast.Attribute) and f.attr == "setdefault" and isinstance(f.value, ast.Attribute) and f.value.attr == "__dict__"
                and len(c.args) == 2 and isinstance(c.args[0], ast.Constant) and isinstance(c.args[0].value, str) and c.args[0].value.startswith("_")
                and c.args[0].value not in self.own.ctor_attrs
                and (isinstance(c.args[1], (ast.Dict, ast.List, ast.Set)) and not getattr(c.args[1], "keys", None) and not getattr(c.args[1], "elts", None)
                     or isinstance(c.args[1], ast.Call) and isinstance(c.args[1].func, ast.Name) and c.args[1].func.id in ("dict", "list", "set") and not c.args[1].args and not c.args[1].keywords))

    def bind(self, tgt, t):
        if isinstance(tgt, ast.Name):
            self.env[tgt.id] = set(t)
        elif isinstance(tgt, (ast.Tuple, ast.List)):
            positional = not any(isinstance(x, ast.Starred) for x in tgt.elts)
            for i, x in enumerate(tgt.elts):
                ti = set()
                for k, p in t:
                    if k.startswith("E") and ":" in k and positional:
                        pos, inner = k.split(":")
                        if pos == f"E{i}":
                            ti.add((inner, p))
                    else:
                        ti.add(("S", p))
                self.bind(x.value if isinstance(x, ast.Starred) else x, ti)
        elif isinstance(tgt, ast.Subscript):
            base = self.ev(tgt.value)
            self.ev(tgt.slice)
            for k, p in base:
                if k == "S":
                    self.note(p, tgt, "item store into an object of the caller")
        elif isinstance(tgt, ast.Attribute):
            base = self.ev(tgt.value)
            for k, p in base:
                if k == "S":
                    self.note(p, tgt, f"attribute `{tgt.attr}` set on an object of the caller")

    @staticmethod
    def join(a, b):
        out = {}
        for k in set(a) | set(b):
            out[k] = a.get(k, set()) | b.get(k, set())
        return out

    def block(self, stmts):
        for st in stmts:
            self.stmt(st)

    def stmt(self, st):
        if isinstance(st, ast.Assign):
            t = self.ev(st.value)
            for tg in st.targets:
                self.bind(tg, t)
        elif isinstance(st, ast.AnnAssign):
            if st.value is not None:
                self.bind(st.target, self.ev(st.value))
        elif isinstance(st, ast.AugAssign):
            self.ev(st.value)
            if isinstance(st.target, ast.Name):
                for k, p in self.env.get(st.target.id, set()):
                    if k == "S":
                        self.note(p, st, "augmented assignment acts in place on an object of the caller")
            else:
                self.bind(st.target, set())
        elif isinstance(st, ast.Expr):
            self.ev(st.value)
        elif isinstance(st, ast.Return):
            self.ret |= self.ev(st.value)
        elif isinstance(st, ast.If):
            self.ev(st.test)
            e0 = {k: set(v) for k, v in self.env.items()}
            self.block(st.body)
            e1 = self.env
            self.env = {k: set(v) for k, v in e0.items()}
            self.block(st.orelse)
            self.env = self.join(e1, self.env)
        elif isinstance(st, (ast.For, ast.AsyncFor)):
            it = self.ev(st.iter)
            for _ in range(2):
                e0 = {k: set(v) for k, v in self.env.items()}
                self.bind(st.target, {("S", p) for k, p in it})
                self.block(st.body)
                self.env = self.join(e0, self.env)
            self.block(st.orelse)
        elif isinstance(st, ast.While):
            for _ in range(2):
                e0 = {k: set(v) for k, v in self.env.items()}
                self.ev(st.test)
                self.block(st.body)
                self.env = self.join(e0, self.env)
        elif isinstance(st, ast.Try):
            e0 = {k: set(v) for k, v in self.env.items()}
            self.block(st.body)
            e1 = self.env
            for h in st.handlers:
                self.env = {k: set(v) for k, v in self.join(e0, e1).items()}
                self.block(h.body)
                e1 = self.join(e1, self.env)
            self.env = e1
            self.block(st.orelse)
            self.block(st.finalbody)
        elif isinstance(st, (ast.With, ast.AsyncWith)):
            for i in st.items:
                self.ev(i.context_expr)
            self.block(st.body)
        elif isinstance(st, ast.Delete):
            for tg in st.targets:
                if isinstance(tg, ast.Subscript):
                    for k, p in self.ev(tg.value):
                        if k == "S":
                            self.note(p, st, "del of an item of an object of the caller")
        elif isinstance(st, ast.Raise):
            self.ev(st.exc)

    def run(self):
        self.block(self.fi.node.body)
        return self.ret, self.mut
