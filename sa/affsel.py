"""Affine index selections: a normal form for chains of isel / rename / flip on an xarray lineage.

For each *physical* dimension of the base array (identified by the name it had on the base) the
selection applied so far is ``(start, step, count)`` with start/count integer-linear forms in the
symbols ``n`` (cells per face side) and ``w`` (pre-pad width) and step = +1 or -1.  Composing
slices in this domain makes the comparison independent of the order in which the code slices,
flips or renames.  Facts: w > 0, n = w + m with m >= 0 (requested widths never exceed the face size).
"""
from __future__ import annotations

from typing import Dict, Optional

from .absint import Lin, Obj, SliceV, Sym, Unmodelled, simplify

FACTS = {"w": "pos", "m": "nonneg", "n": "pos"}


def sign(v, facts=FACTS) -> str:
    v = Lin.of(v)
    if v is None:
        return "?"
    if v.is_const():
        return "pos" if v.const > 0 else "neg" if v.const < 0 else "zero"
    pos_ok = all(facts.get(k) in ("pos", "nonneg") for k, c in v.terms.items() if c > 0) and not any(c < 0 for c in v.terms.values())
    neg_ok = all(facts.get(k) in ("pos", "nonneg") for k, c in v.terms.items() if c < 0) and not any(c > 0 for c in v.terms.values())
    strict_p = any(facts.get(k) == "pos" for k, c in v.terms.items() if c > 0)
    strict_n = any(facts.get(k) == "pos" for k, c in v.terms.items() if c < 0)
    if pos_ok and v.const >= 0:
        return "pos" if (strict_p or v.const > 0) else "nonneg"
    if neg_ok and v.const <= 0:
        return "neg" if (strict_n or v.const < 0) else "nonpos"
    return "?"


class ZeroStep(Unmodelled):
    """Python semantics, not a gap of the normal form: indexing with a slice whose step is 0 raises ValueError."""


class Sel:
    def __init__(self, start, step, count):
        self.start = Lin.of(start)
        self.step = step
        self.count = Lin.of(count)

    def key(self):
        return (repr(self.start), self.step, repr(self.count))

    def __eq__(self, o):
        return isinstance(o, Sel) and self.start == o.start and self.step == o.step and self.count == o.count

    def __repr__(self):
        return f"[start {simplify(self.start)!r}, step {self.step:+d}, count {simplify(self.count)!r}]"

    def slice(self, s: SliceV) -> "Sel":
        if s.step == 0 and s.step is not False:
            raise ZeroStep("slice step 0")
        if s.step not in (None, 1, -1):
            raise Unmodelled(f"slice step {s.step!r}")
        c = self.count
        if s.step == -1:
            if s.lo is not None or s.hi is not None:
                raise Unmodelled("reversing slice with bounds")
            return Sel(self.start + (c - Lin.of(1)).scale(self.step), -self.step, c)

        def normalise(i, default):
            if i is None:
                return default
            li = Lin.of(i)
            if li is None:
                raise Unmodelled(f"slice bound {i!r}")
            sg = sign(li)
            if sg in ("pos", "zero", "nonneg"):
                return li
            if sg == "neg":
                return c + li
            raise Unmodelled(f"sign of slice bound {i!r} unknown")

        lo = normalise(s.lo, Lin.of(0))
        hi = normalise(s.hi, c)
        return Sel(self.start + lo.scale(self.step), self.step, hi - lo)


class ArrayState:
    """names: current dimension name -> physical id; sel: physical id -> Sel; sign parity; base; face index."""

    def __init__(self, base: str, dims, sizes: Dict):
        self.base = base
        self.names = {d: d for d in dims}
        self.sel = {d: Sel(0, 1, sizes.get(d, Lin.sym("n"))) for d in dims}
        self.neg = 0
        self.face = None
        self.prepad = None
        self.other = []

    def copy(self):
        import copy

        return copy.deepcopy(self)


def interpret(obj: Obj, facedim: Sym, axis_of_dim, sizes_unpadded: Optional[Dict] = None) -> ArrayState:
    """Normal form of a lineage rooted at a base DataArray Obj (its attrs['dims0'] = dims of the base)."""
    dims0 = obj.attrs.get("dims0")
    if dims0 is None:
        raise Unmodelled(f"lineage of {obj!r} has no base dimensions")
    st = ArrayState(obj.name, dims0, {})
    for e in obj.eff:
        op = e[0]
        if op == "PAD_BASIC":
            widths = e[1]
            st.prepad = (widths, e[2], e[3])
            for d in list(st.sel):
                ax = axis_of_dim(d)
                if ax is not None and ax in widths:
                    lo, hi = widths[ax]
                    st.sel[d] = Sel(0, 1, Lin.sym("n") + Lin.of(lo) + Lin.of(hi))
        elif op == "isel":
            m = e[1]
            for name, ix in m.items():
                if name not in st.names:
                    raise Unmodelled(f"isel on unknown dimension {name!r}")
                phys = st.names[name]
                if isinstance(ix, SliceV):
                    st.sel[phys] = st.sel[phys].slice(ix)
                elif isinstance(ix, int) and name == facedim:
                    st.face = ix
                    del st.names[name]
                else:
                    raise Unmodelled(f"isel indexer {ix!r}")
        elif op == "rename":
            m = e[1]
            st.names = {m.get(n, n): p for n, p in st.names.items()}
        elif op == "neg":
            st.neg ^= 1
        elif op in ("mult", "rmult") and len(e) > 1 and isinstance(e[1], (int, float)) and not isinstance(e[1], bool) and e[1] in (1, -1):
            if e[1] == -1:  # x * -1: the sign change spelled as a product
                st.neg ^= 1
        elif op in ("squeeze", "drop_vars", "assign_coords", "expand_dims", "copy", "reset_coords", "reset_index", "transpose"):
            st.other.append(op)
        else:
            raise Unmodelled(f"operation {op} in a halo lineage")
    return st


def count_along(piece: Obj, dim, facedim, axis_of_dim):
    """Symbolic length of a (non-CONCAT) piece along the dimension currently called `dim`."""
    st = interpret(piece, facedim, axis_of_dim)
    if dim not in st.names:
        raise Unmodelled(f"piece has no dimension {dim!r}")
    return st.sel[st.names[dim]].count


def flatten_concat(obj: Obj, facedim, axis_of_dim):
    """Leaves of a (nested) concatenation along one dimension, with slices applied to the concatenation pushed
    down onto the leaves.  Returns (dim, [leaf Obj...]) ; a plain array returns (None, [obj])."""
    if not (isinstance(obj, Obj) and obj.name == "CONCAT"):
        return None, [obj]
    dim = obj.attrs["dim"]
    leaves = []
    for p in obj.attrs["parts"]:
        d2, sub = flatten_concat(p, facedim, axis_of_dim)
        if d2 is not None and d2 != dim:
            raise Unmodelled("nested concatenation along a different dimension")
        leaves.extend(sub)
    for e in obj.eff:
        if e[0] != "isel":
            if e[0] in ("squeeze", "drop_vars", "assign_coords", "expand_dims"):
                continue
            raise Unmodelled(f"operation {e[0]} applied to a concatenation")
        for d, s in e[1].items():
            if d != dim:
                leaves = [l.with_eff(("isel", {d: s})) for l in leaves]
                continue
            if not isinstance(s, SliceV) or s.step not in (None, 1):
                raise Unmodelled(f"indexer {s!r} applied along the concatenation dimension")
            counts = [count_along(l, dim, facedim, axis_of_dim) for l in leaves]
            total = Lin.of(0)
            for c in counts:
                total = total + c

            def normalise(i, default):
                if i is None:
                    return default
                li = Lin.of(i)
                sg = sign(li)
                if sg in ("pos", "zero", "nonneg"):
                    return li
                if sg == "neg":
                    return total + li
                raise Unmodelled(f"sign of slice bound {i!r} unknown")

            lo_n, hi_n = normalise(s.lo, Lin.of(0)), normalise(s.hi, total)
            off = Lin.of(0)
            new = []
            for l, c in zip(leaves, counts):
                a = lo_n - off
                b = hi_n - off
                sa, sb = sign(a), sign(b)
                s_ac, s_bc = sign(a - c), sign(b - c)
                off = off + c
                if s_ac in ("pos", "zero", "nonneg") or sb in ("neg", "zero", "nonpos"):
                    continue  # entirely outside
                if sa in ("neg", "zero", "nonpos"):
                    llo = None
                elif sa in ("pos", "nonneg"):
                    llo = simplify(a)
                else:
                    raise Unmodelled("cannot place the lower bound of a slice of a concatenation")
                if s_bc in ("pos", "zero", "nonneg"):
                    lhi = None
                elif s_bc in ("neg",):
                    lhi = simplify(b)
                else:
                    raise Unmodelled("cannot place the upper bound of a slice of a concatenation")
                new.append(l if (llo is None and lhi is None) else l.with_eff(("isel", {dim: SliceV(llo, lhi)})))
            leaves = new
    return dim, leaves
