"""Abstract models of the xgcm objects the decision-table checks evaluate functions on."""
from __future__ import annotations

from .absint import TOP, Obj, Sym
from .geometry import POSITIONS

DEFAULT_SHIFTS = {"center": "left", "left": "center", "right": "center", "inner": "center", "outer": "center"}


def dimsym(axname: str, pos: str) -> Sym:
    return Sym(f"{axname}_{pos}")


def make_axis(axname: str, positions=POSITIONS, default_shifts=None, boundary=None, fill_value=None):
    coords = {p: dimsym(axname, p) for p in positions}
    ds = dict(DEFAULT_SHIFTS if default_shifts is None else default_shifts)
    ds = {k: v for k, v in ds.items() if k in positions}
    b = boundary if boundary is not None else Sym(f"boundary_default_{axname}")
    return Obj(
        "Axis",
        f"axis_{axname}",
        (),
        {
            "__class__": "axis:Axis",
            "_name": Sym(axname),
            "_coords": coords,
            "_default_shifts": ds,
            "_boundary": b,
            "_fill_value": fill_value if fill_value is not None else Sym(f"fill_default_{axname}"),
            "_periodic": TOP,
        },
    )


GRID_INIT_LITERALS: dict = {}  # set by core.Project: attributes Grid.__init__ initialises with an empty container / a constant


def make_grid(axnames=("AX",), positions=POSITIONS, default_shifts=None, face_connections=None, facedim=None, ds=None, **axis_kw):
    axes = {Sym(a): make_axis(a, positions, default_shifts, **axis_kw) for a in axnames}
    import copy as _copy

    g = _make_grid(axes, face_connections, facedim, ds)
    for k, v in GRID_INIT_LITERALS.items():
        g.attrs.setdefault(k, _copy.deepcopy(v))
    return g


def _make_grid(axes, face_connections, facedim, ds):
    return Obj(
        "Grid",
        "grid",
        (),
        {
            "__class__": "grid:Grid",
            "axes": axes,
            "_ds": ds if ds is not None else Obj("Dataset", "grid_ds"),
            "_face_connections": face_connections,
            "_facedim": facedim,
            "_metrics": TOP,
            "boundary_width": TOP,
        },
    )


def make_da(objname: str, dims, **attrs):
    a = {"dims": tuple(dims), "__isinstance__": ("DataArray",)}
    a.update(attrs)
    return Obj("DataArray", objname, (), a)


# ------------------------------------------------------------------ common models of package functions
def m_pad(ev, args, kw, node):
    names = ["data", "grid", "boundary_width", "boundary", "fill_value", "other_component"]
    b = dict(zip(names, args))
    b.update(kw)
    d = b.get("data")
    rec = ("PAD", b.get("boundary_width"), b.get("boundary"), b.get("fill_value"), b.get("grid"), b.get("other_component"))
    ev.events.append(("pad",) + rec[1:] + (d, node))
    bw = b.get("boundary_width")
    pads = isinstance(bw, dict) and any(not isinstance(w, (tuple, list)) or tuple(w) != (0, 0) for w in bw.values())
    if isinstance(d, Obj):
        # pad() works on coordinate-stripped data (C19 R19.3) and hands its input back untouched when every width is zero
        return d.with_eff(rec, coords={}) if (pads and "coords" in d.attrs) else d.with_eff(rec)
    if isinstance(d, dict):  # vector component: padding returns the plain array
        (v,) = d.values()
        if isinstance(v, Obj):
            return v.with_eff(rec + ("vector",))
    return TOP


def m_reattach(ev, args, kw, node):
    names = ["results", "grid", "boundary_width", "keep_coords"]
    b = dict(zip(names, args))
    b.update(kw)
    res = b.get("results")
    ev.events.append(("reattach", b.get("grid"), b.get("keep_coords"), res, node))
    if isinstance(res, (list, tuple)):
        return [r.with_eff(("REATTACH", b.get("grid"), b.get("keep_coords"))) if isinstance(r, Obj) else r for r in res]
    return TOP


def m_get_metric(ev, args, kw, node):
    names = ["self", "array", "axes"]
    b = dict(zip(names, args))
    b.update(kw)
    ev.events.append(("get_metric", b.get("array"), b.get("axes"), node))
    return Obj("Metric", "metric", (), {"array": b.get("array"), "axes": b.get("axes"), "__isinstance__": ("DataArray",)})


COMMON_MODELS = {
    "padding:pad": m_pad,
    "grid_ufunc:_reattach_coords": m_reattach,
    "grid:Grid.get_metric": m_get_metric,
}


XARRAY_MODE_TO_RULE = {"wrap": "periodic", "constant": "fill", "edge": "extend"}  # what xarray.pad is asked to do <-> the rule in force


def _unpack_pad_table(b, canon):
    """Some trees hand the private padding helpers one table {axis: (xarray.pad mode, its keyword arguments)} in place of the two
    mappings rule / fill value.  What xarray.pad is asked to do identifies the rule in force, so the table is read back into
    the two mappings; the arguments after it move up one place."""
    t = b.get("padding")
    if not (isinstance(t, dict) and t and all(isinstance(v, tuple) and len(v) == 2 and isinstance(v[0], str) and isinstance(v[1], dict) for v in t.values())):
        return b
    if not all(v[0] in XARRAY_MODE_TO_RULE for v in t.values()):
        return b
    i = canon.index("padding")
    tail = [b.get(k) for k in canon[i + 1:]]  # values bound one place too far to the left
    out = dict(b)
    out["padding"] = {ax: XARRAY_MODE_TO_RULE[v[0]] for ax, v in t.items()}
    out["fill_value"] = {ax: v[1].get("constant_values", None) for ax, v in t.items()}
    out["__fill_only_where_constant__"] = True
    for k, v in zip(canon[i + 2:], tail):
        out[k] = v
    return out


def bind_by_position(ev, q, canon, args, kw):
    """Arguments of a modelled call of the package function `q`, keyed by the *canonical* names `canon` (one per parameter
    position) whatever the source calls its parameters today and whether the caller passes them by position or by keyword."""
    out = dict(zip(canon, args))
    fi = ev.P.functions.get(q)
    real = []
    if fi is not None:
        a = fi.node.args
        real = [x.arg for x in a.posonlyargs + a.args] + [x.arg for x in a.kwonlyargs]
    for k, v in kw.items():
        if k in real and real.index(k) < len(canon):
            out[canon[real.index(k)]] = v
        else:
            out[k] = v
    return _unpack_pad_table(out, canon) if "padding" in canon else out
