"""Abstract evaluator used for decision-table extraction (DTE).

It walks the AST of functions of /repo (nothing is imported or executed by CPython) with abstract
values:

  * constants, tuples/lists/dicts/sets of abstract values (the concrete fragment is exact),
  * ``Sym``   - an opaque scalar such as a dimension name; two symbols are equal iff identical,
  * ``Lin``   - an integer-linear form in named symbols (``2*w``, ``N-1``) with optional sign facts,
  * ``Obj``   - an opaque object (DataArray, Grid, ...) carrying the *lineage of effects* applied to it
                (``isel``, unary minus, ``pad`` ...); calls on it are recorded, not executed,
  * ``TOP``   - unknown.

A branch whose condition evaluates to TOP is *forked*: all paths are enumerated by replaying the
function with a decision prefix.  Calls into the package are inlined (bounded depth) unless the
rule supplies a model.  Anything outside the modelled subset raises ``Unmodelled`` - the rule
instance is then inconclusive, never a violation.
"""
from __future__ import annotations

import ast
from fractions import Fraction
from typing import Callable, Dict, List, Optional

from .core import AnalysisError, FuncInfo, Project, norm


COVER = None  # campaign tools set this to a set: (module, line) of every statement interpreted (tools/stmt_coverage.py)


class Unmodelled(Exception):
    def __init__(self, msg, node=None):
        super().__init__(msg + (f" (line {getattr(node, 'lineno', '?')}: {norm(node, 60)})" if node is not None else ""))


class _Top:
    def __repr__(self):
        return "TOP"

    def __bool__(self):
        raise Unmodelled("truth value of TOP")


TOP = _Top()


class Sym:
    __slots__ = ("name",)

    def __init__(self, name):
        self.name = name

    def __eq__(self, o):
        return isinstance(o, Sym) and o.name == self.name

    def __hash__(self):
        return hash(("Sym", self.name))

    def __repr__(self):
        return f"${self.name}"


class Lin:
    """sum(coef * symbol) + const, with sign facts for symbols given by the evaluator."""

    __slots__ = ("terms", "const")

    def __init__(self, terms=None, const=0):
        self.terms = {k: Fraction(v) for k, v in (terms or {}).items() if v != 0}
        self.const = Fraction(const)

    @staticmethod
    def sym(name):
        return Lin({name: 1})

    @staticmethod
    def of(v):
        if isinstance(v, Lin):
            return v
        if isinstance(v, bool):
            return None
        if isinstance(v, (int, Fraction)):
            return Lin({}, v)
        return None

    def is_const(self):
        return not self.terms

    def __add__(self, o):
        o = Lin.of(o)
        t = dict(self.terms)
        for k, v in o.terms.items():
            t[k] = t.get(k, 0) + v
        return Lin(t, self.const + o.const)

    def __neg__(self):
        return Lin({k: -v for k, v in self.terms.items()}, -self.const)

    def __sub__(self, o):
        return self + (-Lin.of(o))

    def scale(self, c):
        return Lin({k: v * c for k, v in self.terms.items()}, self.const * c)

    def __eq__(self, o):
        o = Lin.of(o) if not isinstance(o, Lin) else o
        return isinstance(o, Lin) and o.terms == self.terms and o.const == self.const

    def __hash__(self):
        return hash((tuple(sorted(self.terms.items())), self.const))

    def __repr__(self):
        parts = []
        for k, v in sorted(self.terms.items()):
            parts.append(f"{k}" if v == 1 else f"-{k}" if v == -1 else f"{v}*{k}")
        if self.const or not parts:
            parts.append(str(self.const))
        return "+".join(parts).replace("+-", "-")


def simplify(v):
    if isinstance(v, Lin) and v.is_const():
        c = v.const
        return int(c) if c.denominator == 1 else c
    return v


class SliceV:
    __slots__ = ("lo", "hi", "step")

    def __init__(self, lo=None, hi=None, step=None):
        self.lo, self.hi, self.step = lo, hi, step

    def key(self):
        return (self.lo, self.hi, self.step)

    def __eq__(self, o):
        return isinstance(o, SliceV) and o.key() == self.key()

    def __hash__(self):
        return hash(("slice",) + tuple(map(repr, self.key())))

    def __repr__(self):
        return f"slice({self.lo},{self.hi},{self.step})" if self.step is not None else f"slice({self.lo},{self.hi})"


class Obj:
    """Opaque object with a kind, a name, known attributes and the lineage of effects applied."""

    __slots__ = ("kind", "name", "eff", "attrs")

    def __init__(self, kind, name, eff=(), attrs=None):
        self.kind = kind
        self.name = name
        self.eff = tuple(eff)
        self.attrs = dict(attrs or {})

    def with_eff(self, e, **attr_updates):
        a = dict(self.attrs)
        a.update(attr_updates)
        return Obj(self.kind, self.name, self.eff + (e,), a)

    def __repr__(self):
        return f"<{self.kind}:{self.name}{''.join('.' + str(e[0]) for e in self.eff)}>"


class FuncV:
    def __init__(self, fi: Optional[FuncInfo], node, closure, module, name=None):
        self.fi = fi
        self.node = node
        self.closure = closure
        self.module = module
        self.name = name or (fi.q if fi else "<lambda>")

    def __repr__(self):
        return f"<func {self.name}>"


class BoundMethod:
    def __init__(self, recv, name):
        self.recv = recv
        self.name = name

    def __repr__(self):
        return f"<bound {self.name} of {self.recv!r}>"


_OPERATOR_BINOPS = {"mul": ast.Mult, "add": ast.Add, "sub": ast.Sub, "truediv": ast.Div, "floordiv": ast.FloorDiv, "mod": ast.Mod, "pow": ast.Pow,
                    "or_": ast.BitOr, "and_": ast.BitAnd, "xor": ast.BitXor, "matmul": ast.MatMult}


class PartialV:
    """functools.partial / operator.itemgetter-like callables."""

    def __init__(self, kind, f, args=(), kwargs=None):
        self.kind, self.f, self.args, self.kwargs = kind, f, list(args), dict(kwargs or {})

    def __repr__(self):
        return f"<{self.kind} {self.f!r}>"


class Builtin:
    def __init__(self, name):
        self.name = name

    def __repr__(self):
        return f"<builtin {self.name}>"


class ExtRef:
    """Reference to something outside the package (np, xr, itertools...)."""

    def __init__(self, path):
        self.path = path

    def __repr__(self):
        return f"<ext {self.path}>"


class ClassRef:
    def __init__(self, q):
        self.q = q

    def __repr__(self):
        return f"<class {self.q}>"


class Raised(Exception):
    def __init__(self, typ, node=None, msg=None):
        super().__init__(typ)
        self.typ = typ
        self.node = node
        self.msg = msg


class _Return(Exception):
    def __init__(self, v):
        self.v = v


class _Break(Exception):
    pass


class _Continue(Exception):
    pass


class _NeedFork(Exception):
    pass


class Outcome:
    def __init__(self, kind, value, env, events, decisions, exc=None):
        self.kind = kind  # 'return' | 'raise'
        self.value = value
        self.env = env
        self.events = events
        self.decisions = decisions  # [(lineno, text, bool)]
        self.exc = exc

    def __repr__(self):
        return f"<Outcome {self.kind} {self.value!r} dec={[(d[1][:30], d[2]) for d in self.decisions]}>"


EXC_PARENTS = {
    "KeyError": ("LookupError", "Exception"),
    "IndexError": ("LookupError", "Exception"),
    "ValueError": ("Exception",),
    "TypeError": ("Exception",),
    "NotImplementedError": ("RuntimeError", "Exception"),
    "RuntimeError": ("Exception",),
    "AttributeError": ("Exception",),
    "ImportError": ("Exception",),
    "AssertionError": ("Exception",),
    "StopIteration": ("Exception",),
}


STATS = {"evaluations": 0, "paths": 0}  # measured per process: whole-function abstract evaluations and paths enumerated


class Evaluator:
    MAX_PATHS = 600
    MAX_DEPTH = 8

    def __init__(self, project: Project, models: Optional[Dict[str, Callable]] = None, method_models=None,
                 attr_models=None, facts=None, cond_hook=None, inline=True, call_hook=None, assume_false=()):
        self.P = project
        self.models = models or {}  # callee qualname or bare name -> fn(ev, args, kwargs, node)
        for k in self.models:
            # a model for a package function that no longer exists would silently not apply: no verdict instead
            if ":" in k and not k.startswith("pkg:") and k not in project.functions and k not in project.classes:
                raise AnalysisError(f"anchor function {k} (modelled by a rule) not found in the tree")
        self.method_models = method_models or {}  # (kind, method) or method -> fn(ev, recv, args, kwargs, node)
        self.attr_models = attr_models or {}  # (kind, attr) -> fn(ev, recv, node)
        self.facts = facts or {}  # symbol name -> 'pos' | 'nonneg'
        self.cond_hook = cond_hook
        self.call_hook = call_hook
        self.assume_false = tuple(assume_false)  # unknown conditions whose text contains one of these are taken as False
        self.inline = inline
        self.events: List[tuple] = []
        self.sticky: List[tuple] = []  # label-inspection events, kept across paths and across aborted paths
        self.decisions: List[tuple] = []
        self._prefix: List[bool] = []
        self._depth = 0

    def _label(self, ev):
        self.events.append(ev)
        self.sticky.append(ev)

    # ------------------------------------------------------------------ path enumeration
    def run_paths(self, fi: FuncInfo, make_args: Callable[[], dict], body: Optional[List[ast.stmt]] = None) -> List[Outcome]:
        """Enumerate every path through fi (or through `body` evaluated in fi's scope)."""
        outcomes: List[Outcome] = []
        stack: List[List[bool]] = [[]]
        n = 0
        STATS["evaluations"] += 1
        while stack:
            prefix = stack.pop()
            n += 1
            if n > self.MAX_PATHS:
                raise Unmodelled(f"more than {self.MAX_PATHS} paths in {fi.q}")
            self._prefix = list(prefix)
            self.decisions = []
            self.events = []
            self._pending: List[List[bool]] = []
            bound_args = self._bind_entry(fi, make_args(), body)
            originals = dict(bound_args)  # the objects the caller handed in (a rebinding of the parameter name does not change them)
            env = Env(bound_args, None, fi.module)
            if body is None and hasattr(fi.node, "args"):
                # parameters the harness leaves out take the default the source gives them
                a_ = fi.node.args
                pos_ = a_.posonlyargs + a_.args
                for prm, dflt in list(zip(pos_[len(pos_) - len(a_.defaults):], a_.defaults)) + [(x, d) for x, d in zip(a_.kwonlyargs, a_.kw_defaults) if d is not None]:
                    if prm.arg not in env.vars:
                        env.vars[prm.arg] = self.ev(dflt, Env({}, None, fi.module), fi)
                if a_.vararg is not None and a_.vararg.arg not in env.vars:
                    env.vars[a_.vararg.arg] = ()
                if a_.kwarg is not None and a_.kwarg.arg not in env.vars:
                    env.vars[a_.kwarg.arg] = {}
            try:
                try:
                    stmts = body if body is not None else fi.node.body
                    self.exec_block(stmts, env, fi)
                    out = Outcome("return", None, env, list(self.events), list(self.decisions))
                except _Return as r:
                    out = Outcome("return", r.v, env, list(self.events), list(self.decisions))
                except Raised as r:
                    out = Outcome("raise", r.typ, env, list(self.events), list(self.decisions), exc=r)
            finally:
                pass
            out.args = originals
            outcomes.append(out)
            STATS["paths"] += 1
            for alt in self._pending:
                stack.append(alt)
        return outcomes

    @staticmethod
    def _bind_entry(fi, args: dict, body):
        """The harnesses name the arguments of the analysed function by today's parameter names.  If a (private)
        function's parameters were renamed, bind by position instead - a rename is not a behaviour change."""
        if body is not None or not hasattr(fi, "all_param_names"):
            return args
        names = fi.all_param_names()
        if not (set(args) <= set(names)) and len(args) == len(names):
            args = dict(zip(names, args.values()))
        # keywords the harness hands over through the function's **kwargs entry bind the way Python binds keywords:
        # to an explicit parameter of that name if the function has one, else they stay in **kwargs
        try:
            pos, va, ko, kwname = fi.params
        except Exception:
            return args
        if kwname and isinstance(args.get(kwname), dict):
            explicit = [n for n in list(pos) + list(ko) if n in args[kwname] and n not in args]
            if explicit:
                args = dict(args)
                rest = dict(args[kwname])
                for n in explicit:
                    args[n] = rest.pop(n)
                args[kwname] = rest
        return args

    def decide(self, node, env) -> bool:
        """Truth of a TOP condition: replay the prefix, then take True and queue False."""
        if self.assume_false:
            txt = norm(node, 200)
            if any(a in txt for a in self.assume_false):
                return False
        i = len(self.decisions)
        if i < len(self._prefix):
            choice = self._prefix[i]
        else:
            choice = True
            self._pending.append([d[2] for d in self.decisions] + [False])
        self.decisions.append((getattr(node, "lineno", 0), norm(node, 80), choice))
        return choice

    # ------------------------------------------------------------------ statements
    def exec_block(self, stmts, env, fi):
        for st in stmts:
            self.exec_stmt(st, env, fi)

    def truth(self, v, node, env) -> bool:
        if self.cond_hook is not None:
            r = self.cond_hook(self, node, v, env)
            if r is not None:
                return r
        if v is TOP:
            return self.decide(node, env)
        if isinstance(v, Obj):
            if "__bool__" in v.attrs:
                return bool(v.attrs["__bool__"])
            return self.decide(node, env)
        if isinstance(v, Sym):
            return True  # a non-empty label
        if isinstance(v, Lin):
            s = self.sign(v)
            if s == "pos" or s == "neg":
                return True
            if s == "zero":
                return False
            return self.decide(node, env)
        if isinstance(v, (FuncV, BoundMethod, Builtin, ExtRef, ClassRef, SliceV, PartialV)):
            return True
        try:
            return bool(v)
        except Unmodelled:
            return self.decide(node, env)

    def exec_stmt(self, st, env, fi):
        if COVER is not None and fi is not None:
            COVER.add((getattr(fi, "module", None), st.lineno))
        if isinstance(st, ast.Expr):
            self.ev(st.value, env, fi)
        elif isinstance(st, ast.Assign):
            v = self.ev(st.value, env, fi)
            for t in st.targets:
                self.assign(t, v, env, fi)
        elif isinstance(st, ast.AnnAssign):
            if st.value is not None:
                self.assign(st.target, self.ev(st.value, env, fi), env, fi)
        elif isinstance(st, ast.AugAssign):
            cur = self.ev(_as_load(st.target), env, fi)
            if isinstance(cur, Obj):
                self.events.append(("inplace-op", cur, type(st.op).__name__, st))
            if isinstance(cur, (list, dict, set)) and isinstance(st.target, ast.Name):
                # list += ..., dict |= ..., set |= ... mutate the object in place
                rhs = self.ev(st.value, env, fi)
                if isinstance(cur, list) and isinstance(st.op, ast.Add):
                    cur.extend(self.iterate(rhs, st))
                    return
                if isinstance(cur, dict) and isinstance(st.op, ast.BitOr) and isinstance(rhs, dict):
                    cur.update(rhs)
                    return
                if isinstance(cur, set) and isinstance(st.op, ast.BitOr):
                    cur.update(self.iterate(rhs, st))
                    return
                v = self.binop(st.op, cur, rhs, st)
                self.assign(st.target, v, env, fi)
                return
            v = self.binop(st.op, cur, self.ev(st.value, env, fi), st)
            self.assign(st.target, v, env, fi)
        elif isinstance(st, ast.If):
            c = self.ev(st.test, env, fi)
            if self.truth(c, st.test, env):
                self.exec_block(st.body, env, fi)
            else:
                self.exec_block(st.orelse, env, fi)
        elif isinstance(st, ast.For):
            it = self.ev(st.iter, env, fi)
            items = self.iterate(it, st.iter)
            broke = False
            for x in items:
                self.assign(st.target, x, env, fi)
                try:
                    self.exec_block(st.body, env, fi)
                except _Break:
                    broke = True
                    break
                except _Continue:
                    continue
            if not broke:
                self.exec_block(st.orelse, env, fi)
        elif isinstance(st, ast.While):
            n = 0
            while True:
                n += 1
                if n > 64:
                    raise Unmodelled("while loop does not terminate in 64 iterations", st)
                c = self.ev(st.test, env, fi)
                if not self.truth(c, st.test, env):
                    break
                try:
                    self.exec_block(st.body, env, fi)
                except _Break:
                    break
                except _Continue:
                    continue
        elif isinstance(st, ast.Return):
            raise _Return(self.ev(st.value, env, fi) if st.value is not None else None)
        elif isinstance(st, ast.Raise):
            typ = "Exception"
            if st.exc is not None:
                e = st.exc
                if isinstance(e, ast.Call):
                    e = e.func
                typ = e.id if isinstance(e, ast.Name) else (e.attr if isinstance(e, ast.Attribute) else "Exception")
                if isinstance(st.exc, ast.Name) and st.exc.id in env:
                    cur = env.get(st.exc.id)
                    if isinstance(cur, Raised):
                        raise cur
            else:
                cur = env.get("__current_exception__") if "__current_exception__" in env else None
                if isinstance(cur, Raised):
                    raise cur
                typ = "RuntimeError"
            raise Raised(typ, st)
        elif isinstance(st, ast.Try):
            try:
                try:
                    self.exec_block(st.body, env, fi)
                except Raised as r:
                    h = next((h for h in st.handlers if self.handler_matches(h, r, env, fi)), None)
                    if h is None:
                        raise
                    if h.name:
                        env.set(h.name, r)
                    env.set("__current_exception__", r)
                    self.exec_block(h.body, env, fi)
                else:
                    self.exec_block(st.orelse, env, fi)
            finally:
                self.exec_block(st.finalbody, env, fi)
        elif isinstance(st, ast.With):
            for it in st.items:
                v = self.ev(it.context_expr, env, fi)
                if it.optional_vars is not None:
                    self.assign(it.optional_vars, v, env, fi)
            self.exec_block(st.body, env, fi)
        elif isinstance(st, (ast.FunctionDef, ast.AsyncFunctionDef)):
            q = None
            for cand in self.P.functions.values():
                if cand.node is st:
                    q = cand
            env.set(st.name, FuncV(q, st, env, fi.module if fi else env.module, st.name))
        elif isinstance(st, ast.ImportFrom):
            for al in st.names:
                if st.level == 0:
                    env.set(al.asname or al.name, ExtRef((st.module or "") + "." + al.name))
                else:
                    src = st.module or ""
                    q = f"{src}:{al.name}"
                    if q in self.P.functions:
                        env.set(al.asname or al.name, FuncV(self.P.functions[q], self.P.functions[q].node, None, src))
                    else:
                        env.set(al.asname or al.name, ExtRef("pkg:" + (src + "." if src else "") + al.name))
        elif isinstance(st, ast.Import):
            for al in st.names:
                env.set(al.asname or al.name.split(".")[0], ExtRef(al.name if al.asname else al.name.split(".")[0]))
        elif isinstance(st, ast.Assert):
            # an assertion the abstract values decide to be false raises; an undecided one is an assumption of the code
            try:
                v = self.ev(st.test, env, fi)
            except Unmodelled:
                v = TOP
            if not (v is TOP or isinstance(v, (Obj, BoundMethod))):
                if isinstance(v, Lin):
                    sg = self.sign(v)
                    if sg == "zero":
                        raise Raised("AssertionError", st)
                elif not v:
                    raise Raised("AssertionError", st)
        elif isinstance(st, (ast.Pass, ast.Global, ast.Nonlocal, ast.ClassDef)):
            pass
        elif isinstance(st, ast.Break):
            raise _Break()
        elif isinstance(st, ast.Continue):
            raise _Continue()
        elif isinstance(st, ast.Delete):
            for t in st.targets:
                if isinstance(t, ast.Subscript):
                    base = self.ev(t.value, env, fi)
                    k = self.ev(t.slice, env, fi)
                    if isinstance(base, dict) and _hashable(k):
                        if k not in base:
                            raise Raised("KeyError", st)
                        del base[k]
                    else:
                        raise Unmodelled("del on unmodelled container", st)
                elif isinstance(t, ast.Name):
                    env.vars.pop(t.id, None)
        else:
            raise Unmodelled(f"statement {type(st).__name__}", st)

    def handler_matches(self, h, r: Raised, env, fi) -> bool:
        if h.type is None:
            return True
        names = []
        t = h.type
        for e in t.elts if isinstance(t, ast.Tuple) else [t]:
            names.append(e.id if isinstance(e, ast.Name) else getattr(e, "attr", ""))
        fam = (r.typ,) + EXC_PARENTS.get(r.typ, ("Exception",))
        return any(n in fam for n in names)

    def assign(self, t, v, env, fi):
        if isinstance(t, ast.Name):
            env.set(t.id, v)
        elif isinstance(t, (ast.Tuple, ast.List)):
            if v is TOP or isinstance(v, Obj):
                for e in t.elts:
                    self.assign(e.value if isinstance(e, ast.Starred) else e, TOP, env, fi)
                return
            if v is None or isinstance(v, (bool, int, float)):
                raise Raised("TypeError", t, "cannot unpack non-iterable object")
            items = list(self.iterate(v, t))
            star = [i for i, e in enumerate(t.elts) if isinstance(e, ast.Starred)]
            if star:
                i = star[0]
                after = len(t.elts) - i - 1
                if len(items) < len(t.elts) - 1:
                    raise Raised("ValueError", t)
                for e, x in zip(t.elts[:i], items[:i]):
                    self.assign(e, x, env, fi)
                self.assign(t.elts[i].value, list(items[i: len(items) - after]), env, fi)
                for e, x in zip(t.elts[i + 1:], items[len(items) - after:]):
                    self.assign(e, x, env, fi)
            else:
                if len(items) != len(t.elts):
                    raise Raised("ValueError", t)
                for e, x in zip(t.elts, items):
                    self.assign(e, x, env, fi)
        elif isinstance(t, ast.Subscript):
            base = self.ev(t.value, env, fi)
            k = self.ev(t.slice, env, fi)
            if isinstance(base, dict):
                if not _hashable(k):
                    raise Unmodelled("store with unknown key", t)
                base[k] = v
            elif isinstance(base, list) and isinstance(k, int):
                if not (-len(base) <= k < len(base)):
                    raise Raised("IndexError", t)
                base[k] = v
            elif isinstance(base, Obj) and isinstance(k, list) and k and all(isinstance(x, bool) for x in k):
                # x[mask] = v with a decided boolean mask: one store per selected position (numpy's masked assignment)
                for i, sel in enumerate(k):
                    if sel:
                        self.events.append(("setitem", base, i, v, t))
            elif isinstance(base, Obj) or base is TOP:
                self.events.append(("setitem", base, k, v, t))
            elif isinstance(base, BoundMethod) and isinstance(base.recv, Obj):
                self.events.append(("setitem-via-attr", base.recv, base.name, k, v, t))
            else:
                raise Unmodelled("subscript store", t)
        elif isinstance(t, ast.Attribute):
            base = self.ev(t.value, env, fi)
            if isinstance(base, Obj):
                base.attrs[t.attr] = v
                self.events.append(("setattr", base, t.attr, v, t))
            elif base is TOP:
                self.events.append(("setattr", base, t.attr, v, t))
            else:
                raise Unmodelled("attribute store", t)
        elif isinstance(t, ast.Starred):
            self.assign(t.value, v, env, fi)
        else:
            raise Unmodelled("assignment target", t)

    # ------------------------------------------------------------------ iteration
    def iterate(self, it, node):
        if isinstance(it, (list, tuple)):
            return list(it)
        if isinstance(it, dict):
            return list(it.keys())
        if isinstance(it, (set, frozenset)):
            self.events.append(("set-iterated", node))
            return sorted(it, key=repr)
        if isinstance(it, range):
            return list(it)
        if isinstance(it, str):
            return list(it)
        if isinstance(it, (Sym, Text)):
            self._label(("label-iterated", it, node))
            raise Unmodelled(f"iteration over the characters of the label {it!r}", node)
        if isinstance(it, _Iter):
            return list(it.items)
        if isinstance(it, _LazyIter):
            out = []
            while True:
                try:
                    out.append(it.pull(node))
                except StopIteration:
                    return out
        if isinstance(it, type({}.keys())) or isinstance(it, type({}.values())) or isinstance(it, type({}.items())):
            return list(it)
        if isinstance(it, Obj) and (it.kind, "__iter__") in self.method_models:
            return list(self.method_models[(it.kind, "__iter__")](self, it, [], {}, node))
        # Python itself refuses to iterate over these: an exception of the analysed program, not a gap of the model
        if it is None or isinstance(it, (bool, int, float, FuncV, Builtin)) or (isinstance(it, Obj) and it.kind == "func") or (isinstance(it, ExtRef) and it.path.startswith("operator.")):
            raise Raised("TypeError", node, f"{'NoneType' if it is None else type(it).__name__} object is not iterable")
        raise Unmodelled(f"iteration over {it!r}", node)

    # ------------------------------------------------------------------ expressions
    def ev(self, e, env, fi):
        m = getattr(self, "e_" + type(e).__name__, None)
        if m is None:
            raise Unmodelled(f"expression {type(e).__name__}", e)
        return m(e, env, fi)

    def e_Constant(self, e, env, fi):
        return e.value

    def e_Name(self, e, env, fi):
        return self.lookup(e.id, env, fi, e)

    def lookup(self, name, env, fi, node=None):
        if name in env:
            return env.get(name)
        modname = env.module
        mod = self.P.modules.get(modname)
        if mod is not None:
            q = f"{modname}:{name}"
            if q in self.P.functions:
                return FuncV(self.P.functions[q], self.P.functions[q].node, None, modname)
            if q in self.P.classes:
                return ClassRef(q)
            if name in mod.consts:
                return _lift(mod.consts[name])
            if name in mod.imports:
                src, attr = mod.imports[name]
                if src.startswith("ext:"):
                    return ExtRef((src[4:] + "." + attr) if attr else src[4:])
                if attr is None:
                    return ExtRef("pkg:" + src)
                q2 = f"{src}:{attr}"
                if q2 in self.P.functions:
                    return FuncV(self.P.functions[q2], self.P.functions[q2].node, None, src)
                if q2 in self.P.classes:
                    return ClassRef(q2)
                if src in self.P.modules and attr in self.P.modules[src].consts:
                    return _lift(self.P.modules[src].consts[attr])
                return TOP
            if name in mod.const_nodes:
                return self._module_constant(modname, name, mod.const_nodes[name])
        if name in BUILTINS:
            return Builtin(name)
        if name in EXC_PARENTS or name in ("Exception", "LookupError"):
            return ClassRef("builtins:" + name)
        import builtins as _b

        if hasattr(_b, name):
            obj = getattr(_b, name)
            if isinstance(obj, type) and issubclass(obj, BaseException):
                return ClassRef("builtins:" + name)
            return Builtin(name)
        if fi is not None and getattr(fi, "node", None) is not None:
            for sub in ast.walk(fi.node):
                if isinstance(sub, ast.Name) and sub.id == name and isinstance(sub.ctx, ast.Store):
                    # a local variable read on a path that never assigned it: Python raises UnboundLocalError
                    raise Raised("UnboundLocalError", node, f"local variable '{name}' referenced before assignment")
        raise Unmodelled(f"unbound name {name}", node)

    def _module_constant(self, modname, name, cn):
        """A module-level name whose value is not a literal: a sentinel `object()`, a compiled pattern, a table built
        by a comprehension ... - interpreted once (no events, no forks); TOP if it cannot be interpreted."""
        cache = self.P.__dict__.setdefault("_module_constants", {})
        key = (modname, name)
        if key in cache:
            return cache[key]
        cache[key] = TOP  # guards against recursive definitions
        val = TOP
        if isinstance(cn, ast.Call) and isinstance(cn.func, ast.Name) and cn.func.id == "object" and not cn.args and not cn.keywords:
            val = Obj("sentinel", f"{modname}.{name}", (), {"__bool__": True})  # equal only to itself
        elif isinstance(cn, (ast.Call, ast.DictComp, ast.ListComp, ast.SetComp, ast.Dict, ast.List, ast.Tuple, ast.BinOp, ast.Subscript, ast.JoinedStr, ast.Attribute)):
            saved = (getattr(self, "events", []), getattr(self, "_prefix", []), getattr(self, "_pending", []), getattr(self, "decisions", []))
            try:
                self.events, self._prefix, self._pending, self.decisions = [], [], [], []
                val = self.ev(cn, Env({}, None, modname), None)
                if self.decisions or _has_top(val):
                    val = TOP
            except (Unmodelled, Raised, RecursionError):
                val = TOP
            finally:
                self.events, self._prefix, self._pending, self.decisions = saved
        cache[key] = val
        return val

    def e_Tuple(self, e, env, fi):
        xs = self._elts(e.elts, env, fi)
        return TOP if xs is TOP else tuple(xs)

    def e_List(self, e, env, fi):
        xs = self._elts(e.elts, env, fi)
        return TOP if xs is TOP else list(xs)

    def e_Set(self, e, env, fi):
        xs = self._elts(e.elts, env, fi)
        if xs is TOP:
            return TOP
        if not all(_hashable(x) for x in xs):
            raise Unmodelled("set of unknown values", e)
        return set(xs)

    def _elts(self, elts, env, fi):
        out = []
        for x in elts:
            if isinstance(x, ast.Starred):
                v = self.ev(x.value, env, fi)
                if v is TOP:
                    return TOP
                out.extend(self.iterate(v, x))
            else:
                out.append(self.ev(x, env, fi))
        return out

    def e_Dict(self, e, env, fi):
        d = {}
        for k, v in zip(e.keys, e.values):
            if k is None:
                sub = self.ev(v, env, fi)
                if not isinstance(sub, dict):
                    raise Unmodelled("** of unknown mapping", e)
                d.update(sub)
            else:
                kk = self.ev(k, env, fi)
                if not _hashable(kk):
                    raise Unmodelled("dict literal with unknown key", e)
                d[kk] = self.ev(v, env, fi)
        return d

    def e_JoinedStr(self, e, env, fi):
        parts = []
        for v in e.values:
            if isinstance(v, ast.Constant):
                parts.append(str(v.value))
            else:
                x = self.ev(v.value, env, fi)
                if isinstance(x, (str, int)) and v.format_spec is None and v.conversion == -1:
                    parts.append(str(x))
                elif isinstance(x, Sym) and v.format_spec is None and v.conversion == -1:
                    parts.append(x)
                else:
                    return TOP
        if all(isinstance(p, str) for p in parts):
            return "".join(parts)
        return Text(parts)

    def e_FormattedValue(self, e, env, fi):
        return TOP

    def e_Attribute(self, e, env, fi):
        base = self.ev(e.value, env, fi)
        return self.getattr(base, e.attr, e, env, fi)

    def getattr(self, base, attr, node, env=None, fi=None):
        if isinstance(base, Obj):
            f = self.attr_models.get((base.kind, attr))
            if f is not None:
                return f(self, base, node)
            if attr in base.attrs:
                return base.attrs[attr]
            if attr == "__dict__" and base.attrs.get("__class__"):
                return base.attrs  # the instance dictionary of a modelled package object is its attribute table
            # a property or method of a package class bound to this object?
            cq = base.attrs.get("__class__")
            if cq:
                q = f"{cq}.{attr}"
                if q in self.P.functions:
                    f2 = self.P.functions[q]
                    if any(isinstance(d, ast.Name) and d.id == "property" for d in f2.node.decorator_list):
                        mm = self.models.get(q)
                        if mm is not None:
                            return mm(self, [base], {}, node)
                        return self.call_function(FuncV(f2, f2.node, None, f2.module), [base], {}, node)
                    return BoundMethod(base, attr)
                cls = self.P.classes.get(cq)
                if cls is not None:
                    for st in cls.body:
                        if isinstance(st, ast.Assign) and any(isinstance(t, ast.Name) and t.id == attr for t in st.targets):
                            return self.ev(st.value, Env({}, None, cq.split(":")[0]), None)
            return BoundMethod(base, attr)
        if base is TOP:
            return TOP
        if isinstance(base, Builtin):
            return Builtin(base.name + "." + attr)
        if isinstance(base, BoundMethod):  # attribute of an unmodelled attribute of an opaque object
            return Obj("opaque", f"{getattr(base.recv, 'name', '?')}.{base.name}.{attr}", (), {"__of__": base.recv})
        if isinstance(base, ExtRef):
            if base.path.startswith("pkg:") and "." not in base.path:
                modname = base.path[4:]
                q = f"{modname}:{attr}"
                if q in self.P.functions:
                    return FuncV(self.P.functions[q], self.P.functions[q].node, None, modname)
                if q in self.P.classes:
                    return ClassRef(q)
                if modname in self.P.modules and attr in self.P.modules[modname].consts:
                    return _lift(self.P.modules[modname].consts[attr])
            if base.path == "string":
                import string as _string

                if hasattr(_string, attr) and isinstance(getattr(_string, attr), str):
                    return getattr(_string, attr)
            return ExtRef(base.path + "." + attr)
        if isinstance(base, ClassRef):
            q = f"{base.q}.{attr}"
            if q in self.P.functions:
                fv = FuncV(self.P.functions[q], self.P.functions[q].node, None, base.q.split(":")[0])
                if any(isinstance(d, ast.Name) and d.id == "classmethod" for d in fv.node.decorator_list):
                    return PartialV("classmethod", fv, [base])
                return fv
            cls = self.P.classes.get(base.q)
            if cls is not None:
                for st in cls.body:
                    if isinstance(st, ast.Assign) and any(isinstance(t, ast.Name) and t.id == attr for t in st.targets):
                        try:
                            return _lift(self.P.fold(st.value, self.P.modules[base.q.split(":")[0]]))
                        except ValueError:
                            return TOP
            return TOP
        if isinstance(base, Raised):
            return TOP
        if isinstance(base, (dict, list, tuple, str, set, frozenset, SliceV, Text)) or base is None or isinstance(base, (int, float, Sym, Lin, FuncV)):
            if isinstance(base, SliceV) and attr in ("start", "stop", "step"):
                return {"start": base.lo, "stop": base.hi, "step": base.step}[attr]
            py = {dict: dict, list: list, tuple: tuple, str: str, set: set, frozenset: frozenset}.get(type(base))
            if py is not None and not hasattr(py, attr):
                raise Raised("AttributeError", node, f"'{py.__name__}' object has no attribute '{attr}'")
            if base is None:
                raise Raised("AttributeError", node, f"'NoneType' object has no attribute '{attr}'")
            return BoundMethod(base, attr)
        if isinstance(base, (type({}.keys()), type({}.values()), type({}.items()))):
            return BoundMethod(base, attr)
        raise Unmodelled(f"attribute {attr} of {base!r}", node)

    def e_Subscript(self, e, env, fi):
        base = self.ev(e.value, env, fi)
        k = self.ev(e.slice, env, fi)
        return self.getitem(base, k, e)

    def getitem(self, base, k, node):
        if isinstance(base, dict):
            if not _hashable(k):
                if k is TOP:
                    return TOP
                raise Unmodelled("lookup with unknown key", node)
            if k not in base:
                raise Raised("KeyError", node)
            return base[k]
        if isinstance(base, (list, tuple, str)):
            if isinstance(k, bool):
                k = int(k)
            if isinstance(k, int):
                if not (-len(base) <= k < len(base)):
                    raise Raised("IndexError", node)
                return base[k]
            if isinstance(k, SliceV):
                if all(x is None or isinstance(x, int) for x in k.key()):
                    return base[slice(k.lo, k.hi, k.step)]
            if k is TOP:
                return TOP
            raise Unmodelled("sequence index", node)
        if isinstance(base, Obj):
            f = self.method_models.get((base.kind, "__getitem__"))
            if f is not None:
                return f(self, base, [k], {}, node)
            return base.with_eff(("getitem", k))
        if base is TOP:
            return TOP
        if isinstance(base, BoundMethod):
            return Obj("opaque", f"{getattr(base.recv, 'name', '?')}.{base.name}[]", (), {"__of__": base.recv})
        if isinstance(base, ExtRef):
            return base  # typing subscripts
        raise Unmodelled(f"subscript of {base!r}", node)

    def e_Slice(self, e, env, fi):
        f = lambda x: None if x is None else self.ev(x, env, fi)
        return SliceV(f(e.lower), f(e.upper), f(e.step))

    def e_Starred(self, e, env, fi):
        raise Unmodelled("starred expression", e)

    def e_IfExp(self, e, env, fi):
        c = self.ev(e.test, env, fi)
        return self.ev(e.body if self.truth(c, e.test, env) else e.orelse, env, fi)

    def e_BoolOp(self, e, env, fi):
        last = None
        for v in e.values:
            last = self.ev(v, env, fi)
            t = self.truth(last, v, env)
            if isinstance(e.op, ast.And) and not t:
                return last if last is not TOP and not isinstance(last, Obj) else False
            if isinstance(e.op, ast.Or) and t:
                return last if last is not TOP and not isinstance(last, Obj) else True
        return last if last is not TOP and not isinstance(last, Obj) else (isinstance(e.op, ast.And))

    def e_UnaryOp(self, e, env, fi):
        v = self.ev(e.operand, env, fi)
        if isinstance(e.op, ast.Not):
            return not self.truth(v, e.operand, env)
        if isinstance(e.op, ast.USub):
            if isinstance(v, Obj):
                return v.with_eff(("neg",))
            if isinstance(v, Lin):
                return simplify(-v)
            if isinstance(v, (int, float, Fraction)) and not isinstance(v, bool):
                return -v
            if v is TOP:
                return TOP
        if isinstance(e.op, ast.UAdd):
            return v
        if isinstance(e.op, ast.Invert):
            if isinstance(v, Obj):
                return v.with_eff(("invert",))
            if isinstance(v, int):
                return ~v
            return TOP
        raise Unmodelled("unary op", e)

    def e_BinOp(self, e, env, fi):
        return self.binop(e.op, self.ev(e.left, env, fi), self.ev(e.right, env, fi), e)

    def binop(self, op, l, r, node):
        if isinstance(l, Obj) or isinstance(r, Obj):
            name = type(op).__name__.lower()
            if isinstance(l, Obj):
                return l.with_eff((name, r))
            return r.with_eff(("r" + name, l))
        if l is TOP or r is TOP:
            return TOP
        if isinstance(l, BoundMethod) or isinstance(r, BoundMethod):
            return TOP  # arithmetic with an unmodelled attribute of an opaque object
        if isinstance(l, bool) and isinstance(r, bool) and isinstance(op, (ast.BitOr, ast.BitAnd, ast.BitXor)):
            return (l | r) if isinstance(op, ast.BitOr) else (l & r) if isinstance(op, ast.BitAnd) else (l ^ r)
        if isinstance(op, ast.BitOr) and isinstance(l, dict) and isinstance(r, dict):
            d = dict(l)
            d.update(r)
            return d
        _kv = type({}.keys())
        if isinstance(op, (ast.BitOr, ast.BitAnd, ast.Sub, ast.BitXor)) and (isinstance(l, _kv) or isinstance(r, _kv)) and isinstance(l, (set, frozenset, _kv)) and isinstance(r, (set, frozenset, _kv)):
            l = set(l) if isinstance(l, _kv) else l
            r = set(r) if isinstance(r, _kv) else r
        if isinstance(op, (ast.BitOr, ast.BitAnd, ast.Sub, ast.BitXor)) and isinstance(l, (set, frozenset)) and isinstance(r, (set, frozenset)):
            return {ast.BitOr: l.__or__, ast.BitAnd: l.__and__, ast.Sub: l.__sub__, ast.BitXor: l.__xor__}[type(op)](r)
        if isinstance(op, ast.BitAnd) and isinstance(l, bool) and isinstance(r, bool):
            return l & r
        if isinstance(op, ast.Add):
            if isinstance(l, str) and isinstance(r, str):
                return l + r
            if isinstance(l, (str, Sym, Text)) and isinstance(r, (str, Sym, Text)):
                self._label(("label-concat", l, r, node))
                return Text(_parts(l) + _parts(r))
            if isinstance(l, list) and isinstance(r, list):
                return l + r
            if isinstance(l, tuple) and isinstance(r, tuple):
                return l + r
        if isinstance(op, ast.Mult):
            if isinstance(l, (list, tuple, str)) and isinstance(r, int) and not isinstance(r, bool):
                return l * r
            if isinstance(r, (list, tuple, str)) and isinstance(l, int) and not isinstance(l, bool):
                return r * l
        if isinstance(op, ast.Mod) and isinstance(l, str):
            return TOP  # %-formatting of messages
        ll, rr = Lin.of(l), Lin.of(r)
        if isinstance(l, float) or isinstance(r, float):
            if isinstance(l, (int, float)) and isinstance(r, (int, float)):
                try:
                    return {ast.Add: l + r, ast.Sub: l - r, ast.Mult: l * r}.get(type(op)) if not isinstance(op, (ast.Div, ast.FloorDiv, ast.Mod, ast.Pow)) else \
                        {ast.Div: lambda: l / r, ast.FloorDiv: lambda: l // r, ast.Mod: lambda: l % r, ast.Pow: lambda: l ** r}[type(op)]()
                except ZeroDivisionError:
                    raise Raised("ZeroDivisionError", node)
            return TOP
        if ll is not None and rr is not None:
            if isinstance(op, ast.Add):
                return simplify(ll + rr)
            if isinstance(op, ast.Sub):
                return simplify(ll - rr)
            if isinstance(op, ast.Mult):
                if ll.is_const():
                    return simplify(rr.scale(ll.const))
                if rr.is_const():
                    return simplify(ll.scale(rr.const))
                return TOP
            if isinstance(op, (ast.Div, ast.FloorDiv)):
                if rr.is_const() and rr.const != 0:
                    if isinstance(op, ast.FloorDiv) and ll.is_const():
                        return int(ll.const // rr.const)
                    return simplify(ll.scale(1 / rr.const))
                return TOP
            if isinstance(op, ast.Mod) and ll.is_const() and rr.is_const() and rr.const != 0:
                return int(ll.const % rr.const)
            if isinstance(op, ast.Pow) and ll.is_const() and rr.is_const():
                return simplify(Lin({}, ll.const ** int(rr.const)))
            return TOP
        if isinstance(l, MaxMin) or isinstance(r, MaxMin):
            return TOP
        # Python itself refuses these operand types: that is an exception of the analysed program
        plain = (str, set, frozenset, dict, list, tuple, type(None), Sym, Text)
        if isinstance(l, plain) and isinstance(r, plain + (int, float)) or isinstance(r, plain) and isinstance(l, plain + (int, float)):
            textual = (str, Sym, Text)
            if isinstance(op, (ast.Sub, ast.Div, ast.FloorDiv, ast.Pow, ast.MatMult)) and (isinstance(l, textual) or isinstance(r, textual)) and not isinstance(l, (set, frozenset)):
                raise Raised("TypeError", node, f"unsupported operand type(s) for {type(op).__name__}")
            if isinstance(op, ast.Add) and (isinstance(l, (set, frozenset, dict)) or isinstance(r, (set, frozenset, dict)) or l is None or r is None):
                raise Raised("TypeError", node, f"unsupported operand type(s) for +")
            if isinstance(op, (ast.Sub, ast.Mult, ast.Div)) and (l is None or r is None or isinstance(l, dict) or isinstance(r, dict)):
                raise Raised("TypeError", node, f"unsupported operand type(s) for {type(op).__name__}")
        seq = (list, tuple)
        views = (type({}.keys()), type({}.items()), type({}.values()))
        pyval = plain + (int, float, bool) + views
        if (isinstance(l, seq) and isinstance(r, pyval)) or (isinstance(r, seq) and isinstance(l, pyval)):
            # sequences know `+` with their own kind and `*` with an integer, nothing else
            if isinstance(op, (ast.Sub, ast.Div, ast.FloorDiv, ast.Pow, ast.MatMult, ast.Mod, ast.BitAnd, ast.BitOr, ast.BitXor, ast.LShift, ast.RShift)) and not (isinstance(op, ast.Mod) and isinstance(l, str)):
                raise Raised("TypeError", node, f"unsupported operand type(s) for {type(op).__name__}")
            if isinstance(op, ast.Add) and not ((isinstance(l, list) and isinstance(r, list)) or (isinstance(l, tuple) and isinstance(r, tuple))):
                raise Raised("TypeError", node, "can only concatenate a sequence to a sequence of its own kind")
            if isinstance(op, ast.Mult):
                raise Raised("TypeError", node, "can't multiply sequence by non-int")
        if (isinstance(l, views) and isinstance(r, pyval)) or (isinstance(r, views) and isinstance(l, pyval)):
            if isinstance(op, (ast.Add, ast.Mult, ast.Div, ast.FloorDiv, ast.Pow, ast.Mod)):
                raise Raised("TypeError", node, f"unsupported operand type(s) for {type(op).__name__}")
        # both operands are known but the operation is not modelled: no verdict rather than a guess
        raise Unmodelled(f"operator {type(op).__name__} on {type(l).__name__} and {type(r).__name__}", node)

    def sign(self, v) -> str:
        """'pos' | 'neg' | 'zero' | 'nonneg' | 'nonpos' | '?' for a linear form under the sign facts."""
        v = Lin.of(v)
        if v is None:
            return "?"
        if v.is_const():
            return "pos" if v.const > 0 else "neg" if v.const < 0 else "zero"
        lo_pos = all(self.facts.get(k) in ("pos", "nonneg") for k, c in v.terms.items() if c > 0) and all(False for k, c in v.terms.items() if c < 0)
        lo_neg = all(self.facts.get(k) in ("pos", "nonneg") for k, c in v.terms.items() if c < 0) and all(False for k, c in v.terms.items() if c > 0)
        strict = any(self.facts.get(k) == "pos" for k in v.terms)
        if lo_pos and v.const >= 0:
            return "pos" if (strict or v.const > 0) else "nonneg"
        if lo_neg and v.const <= 0:
            return "neg" if (strict or v.const < 0) else "nonpos"
        return "?"

    def e_Compare(self, e, env, fi):
        l = self.ev(e.left, env, fi)
        res = True
        for op, c in zip(e.ops, e.comparators):
            r = self.ev(c, env, fi)
            v = self.compare(op, l, r, e)
            if v is TOP:
                return TOP
            if isinstance(v, Obj):
                return v  # element-wise comparison of an opaque array
            if isinstance(v, list) and len(e.ops) == 1:
                return v  # element-wise comparison of a modelled 1-D array (a mask)
            if not v:
                return False
            l = r
        return res

    def compare(self, op, l, r, node):
        if isinstance(op, (ast.Is, ast.IsNot)):
            if l is TOP or r is TOP:
                return TOP
            if r is None or l is None or isinstance(r, bool) or isinstance(l, bool):
                same = (l is r) if not (isinstance(l, Obj) or isinstance(r, Obj)) else False
                if isinstance(l, Obj) and r is None or isinstance(r, Obj) and l is None:
                    same = False
                return same if isinstance(op, ast.Is) else not same
            if isinstance(l, Builtin) and isinstance(r, Builtin):
                same = l.name == r.name  # `type(x) is str`
            else:
                same = l is r or (_hashable(l) and _hashable(r) and l == r and type(l) == type(r))
            return same if isinstance(op, ast.Is) else not same
        if isinstance(op, (ast.Eq, ast.NotEq)):
            if isinstance(l, BoundMethod) or isinstance(r, BoundMethod):
                return TOP  # an attribute of an opaque object that no model describes
            if l is TOP or r is TOP or isinstance(l, Obj) or isinstance(r, Obj):
                if (l is None) != (r is None) and (l is None or r is None) and not (l is TOP or r is TOP):
                    return isinstance(op, ast.NotEq)
                return TOP
            if _contains_top(l) or _contains_top(r):
                return TOP
            if isinstance(l, (tuple, list)) and isinstance(r, (tuple, list)) and type(l) == type(r):
                if len(l) != len(r):
                    return isinstance(op, ast.NotEq)
                res = True
                for a, b in zip(l, r):
                    c = self.compare(ast.Eq(), a, b, node)
                    if c is TOP:
                        res = TOP
                    elif not c:
                        res = False
                        break
                if res is TOP:
                    return TOP
                return res if isinstance(op, ast.Eq) else not res
            ll, rr = Lin.of(l), Lin.of(r)
            if ll is not None and rr is not None and (isinstance(l, Lin) or isinstance(r, Lin)):
                s = self.sign(ll - rr)
                if s == "zero":
                    eq = True
                elif s in ("pos", "neg"):
                    eq = False
                else:
                    return TOP
            else:
                eq = l == r
            return eq if isinstance(op, ast.Eq) else not eq
        if isinstance(op, (ast.In, ast.NotIn)):
            if r is TOP or l is TOP:
                return TOP
            if isinstance(r, Obj):
                f = self.method_models.get((r.kind, "__contains__"))
                if f is not None:
                    v = f(self, r, [l], {}, node)
                    if v is TOP:
                        return TOP
                    return v if isinstance(op, ast.In) else not v
                return TOP
            if isinstance(r, (dict, list, tuple, set, frozenset, type({}.keys()), type({}.values()))):
                if isinstance(l, Obj):
                    return TOP
                items = list(r)
                if any(x is TOP or isinstance(x, Obj) for x in items):
                    return TOP
                v = any(_eq(l, x) for x in items)
                return v if isinstance(op, ast.In) else not v
            if isinstance(r, str) and isinstance(l, str):
                v = l in r
                return v if isinstance(op, ast.In) else not v
            if isinstance(r, (str, Text, Sym)) and isinstance(l, (str, Text, Sym)):
                if isinstance(r, (Text, Sym)) or isinstance(l, (Text, Sym)):
                    self._label(("label-substring", l, r, node))
                return TOP
            if isinstance(r, (BoundMethod, ExtRef)):
                return TOP
            raise Unmodelled(f"membership in {r!r}", node)
        # ordering
        if l is TOP or r is TOP or isinstance(l, Obj) or isinstance(r, Obj):
            if isinstance(l, Obj) or isinstance(r, Obj):
                o = l if isinstance(l, Obj) else r
                name = type(op).__name__.lower()
                if o is not l:  # `other < array` is `array > other`
                    name = {"lt": "gt", "gt": "lt", "lte": "gte", "gte": "lte"}[name]
                return o.with_eff((name, r if o is l else l))
            return TOP
        ll, rr = Lin.of(l), Lin.of(r)
        if ll is not None and rr is not None:
            s = self.sign(ll - rr)
            table = {
                ast.Lt: {"neg": True, "zero": False, "pos": False, "nonneg": False},
                ast.LtE: {"neg": True, "zero": True, "pos": False, "nonpos": True},
                ast.Gt: {"pos": True, "zero": False, "neg": False, "nonpos": False},
                ast.GtE: {"pos": True, "zero": True, "neg": False, "nonneg": True},
            }[type(op)]
            return table.get(s, TOP)
        if isinstance(l, (int, float)) and isinstance(r, (int, float)):
            return {ast.Lt: l < r, ast.LtE: l <= r, ast.Gt: l > r, ast.GtE: l >= r}[type(op)]
        if isinstance(l, str) and isinstance(r, str):
            return {ast.Lt: l < r, ast.LtE: l <= r, ast.Gt: l > r, ast.GtE: l >= r}[type(op)]
        _kv = type({}.keys())
        if isinstance(l, (set, frozenset, _kv)) and isinstance(r, (set, frozenset, _kv)):
            a, b = set(l), set(r)  # subset / superset tests
            return {ast.Lt: a < b, ast.LtE: a <= b, ast.Gt: a > b, ast.GtE: a >= b}[type(op)]
        if isinstance(l, (tuple, list)) and isinstance(r, (tuple, list)) and type(l) == type(r) and \
                all(isinstance(x, (int, float, str)) and not isinstance(x, bool) for x in list(l) + list(r)):
            try:
                return {ast.Lt: l < r, ast.LtE: l <= r, ast.Gt: l > r, ast.GtE: l >= r}[type(op)]
            except TypeError:
                raise Raised("TypeError", node)
        if isinstance(l, (Sym, Text)) or isinstance(r, (Sym, Text)):
            self._label(("label-ordered", l, r, node))
            return TOP
        if isinstance(l, (tuple, list)) and isinstance(r, (tuple, list)) and type(l) == type(r):
            # sequences are ordered lexicographically: the first pair of unequal elements decides, equal ones are skipped
            # (labels are equal iff identical; ordering two different labels looks inside them - an event, and undecided)
            for a, b in zip(l, r):
                eq = self.compare(ast.Eq(), a, b, node)
                if eq is TOP:
                    return TOP
                if not eq:
                    strict = ast.Lt() if isinstance(op, (ast.Lt, ast.LtE)) else ast.Gt()
                    return self.compare(strict, a, b, node)
            return {ast.Lt: len(l) < len(r), ast.LtE: len(l) <= len(r), ast.Gt: len(l) > len(r), ast.GtE: len(l) >= len(r)}[type(op)]
        if isinstance(l, (set, frozenset, dict, list, tuple)) or isinstance(r, (set, frozenset, dict, list, tuple)):
            raise Unmodelled(f"ordering comparison of {type(l).__name__} and {type(r).__name__}", node)
        return TOP

    def e_Yield(self, e, env, fi):
        v = self.ev(e.value, env, fi) if e.value is not None else None
        sc = env
        while sc is not None and "__yields__" not in sc.vars:
            sc = sc.parent
        if sc is None:
            raise Unmodelled("yield outside a generator frame", e)
        sc.vars["__yields__"].append(v)
        return None

    def e_Lambda(self, e, env, fi):
        return FuncV(None, e, env, env.module, "<lambda>")

    def e_NamedExpr(self, e, env, fi):
        v = self.ev(e.value, env, fi)
        self.assign(e.target, v, env, fi)
        return v

    def _comp(self, gens, env, fi, emit):
        def rec(i, scope):
            if i == len(gens):
                emit(scope)
                return
            g = gens[i]
            for x in self.iterate(self.ev(g.iter, scope, fi), g.iter):
                inner = Env({}, scope, scope.module)
                self.assign(g.target, x, inner, fi)
                if all(self.truth(self.ev(c, inner, fi), c, inner) for c in g.ifs):
                    rec(i + 1, inner)

        rec(0, env)

    def e_ListComp(self, e, env, fi):
        out = []
        self._comp(e.generators, env, fi, lambda sc: out.append(self.ev(e.elt, sc, fi)))
        return out

    def e_GeneratorExp(self, e, env, fi):
        if len(e.generators) == 1:
            g = e.generators[0]
            src = self.ev(g.iter, env, fi)
            if isinstance(src, _LazyIter):
                def gen():
                    while True:
                        try:
                            x = src.pull(g.iter)
                        except StopIteration:
                            return
                        inner = Env({}, env, env.module)
                        self.assign(g.target, x, inner, fi)
                        if all(self.truth(self.ev(c, inner, fi), c, inner) for c in g.ifs):
                            yield self.ev(e.elt, inner, fi)

                return _LazyIter(gen())
        return _Iter(self.e_ListComp(e, env, fi))

    def e_SetComp(self, e, env, fi):
        out = self.e_ListComp(e, env, fi)
        if not all(_hashable(x) for x in out):
            raise Unmodelled("set comprehension of unknown values", e)
        return set(out)

    def e_DictComp(self, e, env, fi):
        out = {}

        def emit(sc):
            k = self.ev(e.key, sc, fi)
            if not _hashable(k):
                raise Unmodelled("dict comprehension with unknown key", e)
            out[k] = self.ev(e.value, sc, fi)

        self._comp(e.generators, env, fi, emit)
        return out

    # ------------------------------------------------------------------ calls
    def e_Call(self, e, env, fi):
        f = self.ev(e.func, env, fi)
        args = []
        for a in e.args:
            if isinstance(a, ast.Starred):
                args.extend(self.iterate(self.ev(a.value, env, fi), a))
            else:
                args.append(self.ev(a, env, fi))
        kwargs = {}
        for k in e.keywords:
            if k.arg is None:
                d = self.ev(k.value, env, fi)
                if isinstance(d, dict):
                    for kk, vv in d.items():
                        kname = kk.name if isinstance(kk, Sym) else kk
                        if kname in kwargs:
                            raise Raised("TypeError", e, f"got multiple values for keyword argument '{kname}'")
                        kwargs[kname] = vv
                        if isinstance(kk, Sym):
                            self._label(("label-as-keyword", kk, e))
                elif d is TOP:
                    kwargs["**"] = TOP
                else:
                    raise Unmodelled("** of non-dict", e)
            else:
                if k.arg in kwargs:
                    raise Raised("TypeError", e, f"got multiple values for keyword argument '{k.arg}'")
                kwargs[k.arg] = self.ev(k.value, env, fi)
        return self.call(f, args, kwargs, e, env, fi)

    def call(self, f, args, kwargs, node, env=None, fi=None):
        if self.call_hook is not None:
            r = self.call_hook(self, f, args, kwargs, node)
            if r is not NotImplemented:
                return r
        if isinstance(f, Builtin):
            return self.call_builtin(f.name, args, kwargs, node)
        if isinstance(f, FuncV):
            name = f.fi.q if f.fi else f.name
            m = self.models.get(name) or (self.models.get(name.split(":")[-1]) if f.fi else None)
            if m is not None:
                self._check_binding(f.node, args, kwargs, node)
                return m(self, args, kwargs, node)
            return self.call_function(f, args, kwargs, node)
        if isinstance(f, BoundMethod):
            return self.call_method(f.recv, f.name, args, kwargs, node)
        if isinstance(f, ExtRef):
            m = self.models.get(f.path)
            if m is not None:
                return m(self, args, kwargs, node)
            if f.path in ("collections.OrderedDict", "collections.defaultdict") and f.path.endswith("OrderedDict"):
                return self.call_builtin("dict", args, kwargs, node)
            if f.path in ("itertools.product", "itertools.combinations", "itertools.permutations", "itertools.chain"):
                import itertools as _it

                if any(a is TOP or isinstance(a, Obj) for a in args):
                    return TOP
                seqs = [self.iterate(a, node) if not isinstance(a, int) else a for a in args]
                for a_, sq in zip(args, seqs):
                    if isinstance(a_, (set, frozenset)):
                        self.events.append(("set-order-consumed", f.path, node))
                fn_ = getattr(_it, f.path.split(".")[1])
                try:
                    return _Iter([tuple(x) if not f.path.endswith("chain") else x for x in fn_(*seqs, **{k: v for k, v in kwargs.items() if isinstance(v, int)})])
                except (TypeError, ValueError) as exc:  # the library itself refuses these arguments: the analysed program's exception
                    raise Raised(type(exc).__name__, node, str(exc))
            if f.path == "re.compile" and "re.compile" not in self.models:
                if not args or not isinstance(args[0], str):
                    raise Unmodelled("re.compile of a non-constant pattern", node)
                return Obj("RePattern", "pattern", (), {"pattern": args[0], "flags": args[1] if len(args) > 1 else kwargs.get("flags", 0), "__bool__": True})
            if f.path.startswith("operator.") and f.path.split(".")[1] in _OPERATOR_BINOPS and len(args) == 2 and not kwargs:
                return self.binop(_OPERATOR_BINOPS[f.path.split(".")[1]](), args[0], args[1], node)
            if f.path in ("operator.neg", "operator.pos") and len(args) == 1:
                v = args[0]
                if f.path.endswith("pos"):
                    return v
                return v.with_eff(("neg",)) if isinstance(v, Obj) else self.binop(ast.Mult(), -1, v, node)
            if f.path in ("functools.lru_cache", "functools.cache", "functools.wraps"):
                # memoisation does not change what the function answers for given arguments (whether a memo may exist at all
                # is C18's question): `lru_cache(f)` is f, `lru_cache(maxsize=...)` / `wraps(g)` are identity decorators
                if len(args) == 1 and isinstance(args[0], (FuncV, PartialV, BoundMethod)) and f.path != "functools.wraps":
                    return args[0]
                return PartialV("identity", None)
            if f.path == "functools.partial":
                if not args:
                    raise Raised("TypeError", node)
                return PartialV("partial", args[0], args[1:], kwargs)
            if f.path in ("operator.itemgetter", "operator.attrgetter") and len(args) == 1 and not kwargs:
                return PartialV(f.path.split(".")[1], args[0])
            if f.path in ("itertools.islice", "itertools.zip_longest", "itertools.accumulate", "itertools.starmap", "itertools.pairwise", "itertools.repeat"):
                import itertools as _it

                fn_ = f.path.split(".")[1]
                if any(a is TOP or isinstance(a, Obj) for a in args[:1]) and fn_ != "repeat":
                    return TOP
                if fn_ == "islice":
                    src = args[0]
                    if isinstance(src, _LazyIter):
                        n_ = args[1]
                        if not isinstance(n_, int) or len(args) > 2:
                            raise Unmodelled("islice of an unbounded iterator with non-constant bounds", node)
                        return _Iter([src.pull(node) for _ in range(n_)])
                    if not all(a is None or isinstance(a, int) for a in args[1:]):
                        raise Unmodelled("islice with non-constant bounds", node)
                    return _Iter(list(_it.islice(self.iterate(src, node), *args[1:])))
                if fn_ == "zip_longest":
                    seqs = [self.iterate(a, node) for a in args]
                    return _Iter([tuple(t) for t in _it.zip_longest(*seqs, fillvalue=kwargs.get("fillvalue"))])
                if fn_ == "pairwise":
                    sq = self.iterate(args[0], node)
                    return _Iter(list(zip(sq[:-1], sq[1:])))
                if fn_ == "repeat":
                    if len(args) < 2 or not isinstance(args[1], int):
                        raise Unmodelled("itertools.repeat without a constant count", node)
                    return _Iter([args[0]] * args[1])
                if fn_ == "starmap":
                    return _Iter([self.call(args[0], list(self.iterate(t, node)), {}, node) for t in self.iterate(args[1], node)])
                if fn_ == "accumulate":
                    items = self.iterate(args[0], node)
                    fn2 = args[1] if len(args) > 1 else kwargs.get("func")
                    out_, acc = [], None
                    for i_, x in enumerate(items):
                        acc = x if i_ == 0 else (self.binop(ast.Add(), acc, x, node) if fn2 is None else self.call(fn2, [acc, x], {}, node))
                        out_.append(acc)
                    return _Iter(out_)
            if f.path == "itertools.count":
                import itertools as _it

                start = args[0] if args else kwargs.get("start", 0)
                step = args[1] if len(args) > 1 else kwargs.get("step", 1)
                if not (isinstance(start, int) and isinstance(step, int)):
                    raise Unmodelled("itertools.count with non-constant arguments", node)
                return _LazyIter(_it.count(start, step))
            if f.path == "itertools.chain.from_iterable":
                outer = args[0]
                if outer is TOP or isinstance(outer, Obj):
                    return TOP
                flat = []
                for sub in self.iterate(outer, node):
                    if sub is TOP or isinstance(sub, Obj):
                        return TOP
                    if isinstance(sub, (set, frozenset)):
                        self.events.append(("set-order-consumed", f.path, node))
                    flat.extend(self.iterate(sub, node))
                return _Iter(flat)
            if f.path in ("math.prod", "numpy.prod") and f.path == "math.prod":
                items = args[0]
                if items is TOP or isinstance(items, Obj):
                    return TOP
                acc = kwargs.get("start", 1)
                for x in self.iterate(items, node):
                    acc = x if (isinstance(acc, int) and acc == 1 and not isinstance(acc, bool)) else self.binop(ast.Mult(), acc, x, node)
                return acc
            if f.path == "functools.reduce":
                fn_, seq = args[0], args[1]
                if seq is TOP:
                    return TOP
                items = self.iterate(seq, node)
                acc = args[2] if len(args) > 2 else None
                start = 0
                if acc is None:
                    acc, start = items[0], 1
                for x in items[start:]:
                    if isinstance(fn_, ExtRef) and fn_.path in ("operator.mul", "operator.add"):
                        acc = self.binop(ast.Mult() if fn_.path.endswith("mul") else ast.Add(), acc, x, node)
                    else:
                        acc = self.call(fn_, [acc, x], {}, node)
                return acc
            if f.path == "numpy.flip" and args and isinstance(args[0], Obj) and len(args) <= 2:
                # np.flip(x) reverses every axis, np.flip(x, axis=k) one of them: the same selection as a [::-1] subscript
                ax = args[1] if len(args) > 1 else kwargs.get("axis")
                nd = args[0].attrs.get("ndim")
                rev_ = SliceV(None, None, -1)
                if ax is None and nd == 1 or ax == 0:
                    return args[0].with_eff(("getitem", rev_))
                if ax == -1 or (isinstance(ax, int) and isinstance(nd, int) and ax == nd - 1):
                    return args[0].with_eff(("getitem", (Ellipsis, rev_)))
                if ax is None and isinstance(nd, int) and nd > 1:
                    return args[0].with_eff(("getitem", (rev_,) * nd))
                raise Unmodelled(f"np.flip with axis={ax!r} on an array of {nd!r} dimensions", node)
            self.events.append(("extcall", f.path, args, kwargs, node))
            if f.path.endswith("warnings.warn"):
                return None
            if f.path.startswith("typing.") or f.path == "typing":
                return TOP
            return Obj("ext", f.path, (("call", tuple(args), tuple(sorted(kwargs.items(), key=lambda kv: str(kv[0])))),))
        if isinstance(f, ClassRef):
            m = self.models.get(f.q)
            if m is not None:
                init0 = self.P.functions.get(f.q + ".__init__")
                if init0 is not None:
                    self._check_binding(init0.node, [None] + list(args), kwargs, node)
                return m(self, args, kwargs, node)
            if f.q.startswith("builtins:"):
                return Obj("exception", f.q)
            init = self.P.functions.get(f.q + ".__init__")
            cdef = self.P.classes.get(f.q)
            if init is None and cdef is not None and any((isinstance(b, ast.Name) and b.id == "NamedTuple") or (isinstance(b, ast.Attribute) and b.attr == "NamedTuple") for b in cdef.bases):
                # typing.NamedTuple: the annotated class attributes are the fields, in order, with their defaults
                fields = [(st.target.id, st.value) for st in cdef.body if isinstance(st, ast.AnnAssign) and isinstance(st.target, ast.Name)]
                names = [n for n, _ in fields]
                if len(args) > len(names) or any(k not in names for k in kwargs):
                    raise Raised("TypeError", node, f"{f.q.split(':')[-1]}() got unexpected arguments")
                vals = dict(zip(names, args))
                for k, v in kwargs.items():
                    if k in vals:
                        raise Raised("TypeError", node, f"{f.q.split(':')[-1]}() got multiple values for argument '{k}'")
                    vals[k] = v
                for n_, dflt in fields:
                    if n_ not in vals:
                        if dflt is None:
                            raise Raised("TypeError", node, f"{f.q.split(':')[-1]}() missing required argument '{n_}'")
                        vals[n_] = self.ev(dflt, Env({}, None, f.q.split(":")[0]), None)
                at = {"__class__": f.q, "_fields": tuple(names)}
                at.update(vals)
                return Obj("instance", f.q, (), at)
            o = Obj("instance", f.q, (), {"__class__": f.q})
            if init is not None and self.inline:
                self.call_function(FuncV(init, init.node, None, init.module), [o] + args, kwargs, node)
            return o
        if f is TOP:
            return TOP
        if isinstance(f, PartialV):
            if f.kind == "classmethod":
                fv = f.f
                name = fv.fi.q
                m = self.models.get(name) or self.models.get(name.split(":")[-1])
                if m is not None:  # models of class methods take the arguments without the class
                    self._check_binding(fv.node, f.args + list(args), kwargs, node)
                    return m(self, list(args), kwargs, node)
                return self.call_function(fv, f.args + list(args), kwargs, node)
            if f.kind == "partial":
                kw2 = dict(f.kwargs)
                kw2.update(kwargs)
                return self.call(f.f, f.args + list(args), kw2, node, env, fi)
            if f.kind == "identity":
                return args[0] if args else TOP
            if f.kind == "itemgetter":
                return self.getitem(args[0], f.f, node)
            if f.kind == "attrgetter" and isinstance(f.f, str):
                return self.getattr(args[0], f.f, node)
            return TOP
        if isinstance(f, Obj):
            cq = f.attrs.get("__class__")
            if cq and (cq + ".__call__") in self.P.functions:
                return self.call_method(f, "__call__", args, kwargs, node)
            return f.with_eff(("call", tuple(args), tuple(kwargs.items())))
        raise Unmodelled(f"call of {f!r}", node)

    def _check_binding(self, fn, args, kwargs, node):
        """A call that is answered by a model must still bind to the real signature: a dropped or misspelled argument
        is the TypeError Python raises, not something the model papers over."""
        a = getattr(fn, "args", None)
        if a is None:
            return
        pos = [x.arg for x in a.posonlyargs + a.args]
        n_default = len(a.defaults)
        required = pos[: len(pos) - n_default] if n_default else list(pos)
        for d in getattr(fn, "decorator_list", []):
            # numba.guvectorize(types, "(n),(n)->(m)"): the output arrays are allocated by the wrapper, callers omit them
            if isinstance(d, ast.Call) and (getattr(d.func, "id", None) == "guvectorize" or getattr(d.func, "attr", None) == "guvectorize"):
                layout = d.args[1].value if len(d.args) > 1 and isinstance(d.args[1], ast.Constant) and isinstance(d.args[1].value, str) else None
                if layout is None or "->" not in layout:
                    return
                n_out = layout.split("->")[1].count("(")
                required = required[: max(0, len(required) - n_out)]
        kwonly = [x.arg for x in a.kwonlyargs]
        kw_required = [x.arg for x, d in zip(a.kwonlyargs, a.kw_defaults) if d is None]
        unknown_kw = "**" in kwargs
        if len(args) > len(pos) and a.vararg is None:
            raise Raised("TypeError", node, f"{getattr(fn, 'name', '?')}() takes {len(pos)} positional arguments but {len(args)} were given")
        bound = set(pos[: len(args)])
        for k in kwargs:
            if k == "**":
                continue
            if k in bound and k not in [x.arg for x in a.posonlyargs]:
                raise Raised("TypeError", node, f"{getattr(fn, 'name', '?')}() got multiple values for argument '{k}'")
            if k not in pos and k not in kwonly and a.kwarg is None:
                raise Raised("TypeError", node, f"{getattr(fn, 'name', '?')}() got an unexpected keyword argument '{k}'")
            bound.add(k)
        if not unknown_kw:
            missing = [p for p in required + kw_required if p not in bound]
            if missing:
                raise Raised("TypeError", node, f"{getattr(fn, 'name', '?')}() missing required argument(s) {missing}")

    def call_function(self, f: FuncV, args, kwargs, node):
        if self._depth >= self.MAX_DEPTH:
            raise Unmodelled("inlining depth exceeded", node)
        fn = f.node
        a = fn.args
        scope = Env({}, f.closure, f.module)
        pos = [x.arg for x in a.posonlyargs + a.args]
        defaults = dict(zip(pos[len(pos) - len(a.defaults):], a.defaults))
        for p, d in zip(a.kwonlyargs, a.kw_defaults):
            if d is not None:
                defaults[p.arg] = d
        kwargs = dict(kwargs)
        unknown_kw = kwargs.pop("**", None)
        bound = {}
        extra = list(args[len(pos):])
        for p, v in zip(pos, args):
            bound[p] = v
        if extra:
            if not a.vararg:
                raise Raised("TypeError", node)
        if a.vararg:
            bound[a.vararg.arg] = tuple(extra)
        rest = {}
        for k, v in kwargs.items():
            if k in pos or k in [x.arg for x in a.kwonlyargs]:
                if k in bound:
                    raise Raised("TypeError", node, f"multiple values for argument {k}")
                bound[k] = v
            else:
                rest[k] = v
        if rest and not a.kwarg:
            raise Raised("TypeError", node)
        if a.kwarg:
            bound[a.kwarg.arg] = rest
        fi2 = f.fi
        for p in pos + [x.arg for x in a.kwonlyargs]:
            if p not in bound:
                if p in defaults:
                    denv = Env({}, f.closure, f.module)
                    bound[p] = self.ev(defaults[p], denv, fi2) if unknown_kw is None else TOP
                elif unknown_kw is not None:
                    bound[p] = TOP
                else:
                    raise Raised("TypeError", node, f"missing argument {p}")
        scope.vars.update(bound)
        self._depth += 1
        try:
            if isinstance(fn, ast.Lambda):
                return self.ev(fn.body, scope, fi2)
            if _is_generator(fn):
                # evaluated eagerly: the values yielded, in order (sound for generators without side effects)
                scope.vars["__yields__"] = []
                try:
                    self.exec_block(fn.body, scope, fi2 or FuncInfo(f.name, f.module, fn, None, None))
                except _Return:
                    pass
                return _Iter(scope.vars["__yields__"])
            try:
                self.exec_block(fn.body, scope, fi2 or FuncInfo(f.name, f.module, fn, None, None))
            except _Return as r:
                return r.v
            return None
        finally:
            self._depth -= 1

    def call_method(self, recv, name, args, kwargs, node):
        if isinstance(recv, Obj) and recv.kind == "RePattern" and name in ("match", "fullmatch", "search", "findall", "finditer", "sub", "subn", "split"):
            # a compiled pattern behaves like the module-level function applied to its pattern text
            if recv.attrs.get("flags") not in (0, None):
                raise Unmodelled("compiled pattern with flags", node)
            return self.call(ExtRef("re." + name), [recv.attrs["pattern"]] + list(args), kwargs, node)
        if isinstance(recv, Obj):
            m = self.method_models.get((recv.kind, name)) or self.method_models.get(name)
            if m is not None:
                return m(self, recv, args, kwargs, node)
            cq = recv.attrs.get("__class__")
            if cq and f"{cq}.{name}" in self.P.functions:
                fi2 = self.P.functions[f"{cq}.{name}"]
                decos = {d.id for d in fi2.node.decorator_list if isinstance(d, ast.Name)}
                bound = [] if "staticmethod" in decos else ([ClassRef(cq)] if "classmethod" in decos else [recv])
                mm = self.models.get(fi2.q)
                if mm is not None:
                    self._check_binding(fi2.node, bound + args, kwargs, node)
                    return mm(self, (bound if "classmethod" not in decos else []) + args, kwargs, node)
                return self.call_function(FuncV(fi2, fi2.node, None, fi2.module), bound + args, kwargs, node)
            return recv.with_eff((name, tuple(args), tuple(sorted(kwargs.items(), key=lambda kv: str(kv[0])))))
        if recv is TOP:
            return TOP
        if isinstance(recv, dict):
            return self.dict_method(recv, name, args, kwargs, node)
        if isinstance(recv, (type({}.keys()), type({}.values()), type({}.items()))):
            if name == "__sub__" or name == "__or__":
                return TOP
            raise Unmodelled(f"method {name} of a dict view", node)
        if isinstance(recv, list):
            if name == "append":
                recv.append(args[0])
                return None
            if name == "extend":
                recv.extend(self.iterate(args[0], node))
                return None
            if name == "insert":
                recv.insert(args[0], args[1])
                return None
            if name == "pop":
                if not recv:
                    raise Raised("IndexError", node)
                return recv.pop(*args)
            if name == "remove":
                for i, x in enumerate(recv):
                    if _eq(x, args[0]):
                        del recv[i]
                        return None
                raise Raised("ValueError", node)
            if name == "index":
                for i, x in enumerate(recv):
                    if _eq(x, args[0]):
                        return i
                raise Raised("ValueError", node)
            if name == "copy":
                return list(recv)
            if name == "count":
                return sum(1 for x in recv if _eq(x, args[0]))
            if name == "reverse":
                recv.reverse()
                return None
        if isinstance(recv, SliceV) and name == "indices" and len(args) == 1:
            # slice.indices(n): bounds made non-negative and clamped to [0, n]; decided by the sign facts or not at all
            n_ = Lin.of(args[0])
            if n_ is None or recv.step not in (None, 1):
                raise Unmodelled("slice.indices with a step or an unknown length", node)

            def norm_bound(b, default):
                if b is None:
                    return default
                lb = Lin.of(b)
                if lb is None:
                    raise Unmodelled("slice.indices of an unknown bound", node)
                sg = self.sign(lb)
                if sg == "neg":
                    lb = lb + n_
                    sg = self.sign(lb)
                if sg not in ("pos", "zero", "nonneg") or self.sign(n_ - lb) not in ("pos", "zero", "nonneg"):
                    raise Unmodelled(f"slice.indices: bound {b!r} cannot be placed within [0, {args[0]!r}]", node)
                return simplify(lb)

            return (norm_bound(recv.lo, 0), norm_bound(recv.hi, simplify(n_)), 1)
        if isinstance(recv, tuple):
            if name == "index":
                for i, x in enumerate(recv):
                    if _eq(x, args[0]):
                        return i
                raise Raised("ValueError", node)
            if name == "count":
                return sum(1 for x in recv if _eq(x, args[0]))
        if isinstance(recv, (set, frozenset)):
            if name in ("union", "intersection", "difference", "issubset", "issuperset", "isdisjoint", "symmetric_difference"):
                others = [set(self.iterate(a, node)) for a in args]
                return getattr(frozenset(recv), name)(*others) if name.startswith("is") else set(getattr(frozenset(recv), name)(*others))
            if name == "add" and isinstance(recv, set):
                recv.add(args[0])
                return None
            if name == "update" and isinstance(recv, set):
                for a in args:
                    recv.update(self.iterate(a, node))
                return None
            if name == "copy":
                return set(recv)
        if isinstance(recv, str):
            if all(isinstance(a, (str, int, tuple)) or a is None for a in args) and not kwargs:
                if name in ("split", "replace", "startswith", "endswith", "strip", "lstrip", "rstrip", "lower", "upper", "join", "find", "count", "format", "rsplit", "splitlines", "isdigit", "isidentifier", "title", "capitalize",
                            "partition", "rpartition", "removeprefix", "removesuffix", "index", "rfind", "rindex", "isalnum", "isalpha", "isspace", "islower", "isupper", "casefold", "swapcase", "zfill", "center", "ljust", "rjust", "expandtabs"):
                    try:
                        return getattr(recv, name)(*args)
                    except TypeError:
                        raise Raised("TypeError", node)
                    except ValueError:
                        raise Raised("ValueError", node)
            if name == "join":
                parts = list(self.iterate(args[0], node))
                out = []
                for i, p in enumerate(parts):
                    if i:
                        out.append(recv)
                    out.extend(_parts(p) if isinstance(p, (str, Sym, Text)) else [TOP])
                if any(x is TOP for x in out):
                    return TOP
                return Text(out) if not all(isinstance(x, str) for x in out) else "".join(out)
            if name == "format":
                # "{}", "{0}", "{name}" fields without conversion or format spec, filled with constants or labels
                import string as _string

                parts, auto = [], 0
                try:
                    for lit, field, spec, conv in _string.Formatter().parse(recv):
                        if lit:
                            parts.append(lit)
                        if field is None:
                            continue
                        if spec or conv or "." in field or "[" in field:
                            return TOP
                        if field == "":
                            val, auto = args[auto], auto + 1
                        elif field.isdigit():
                            val = args[int(field)]
                        else:
                            val = kwargs[field]
                        if isinstance(val, (Sym, Text)):
                            parts.extend(_parts(val))
                        elif isinstance(val, (str, int)) and not isinstance(val, bool):
                            parts.append(str(val))
                        else:
                            return TOP
                except (IndexError, KeyError):
                    raise Raised("IndexError", node)
                except ValueError:
                    return TOP
                if all(isinstance(x, str) for x in parts):
                    return "".join(parts)
                return Text(parts)  # like an f-string: the label is embedded, not inspected
            if name in ("encode", "format_map", "translate", "maketrans"):
                return TOP
            if not hasattr(str, name):
                raise Raised("AttributeError", node, f"'str' object has no attribute '{name}'")
            if any(a is TOP or isinstance(a, (Obj, Sym, Text)) for a in args):
                return TOP
            raise Unmodelled(f"str.{name} on constant arguments", node)
        if isinstance(recv, (Sym, Text)):
            self._label(("label-method", recv, name, args, node))
            return TOP
        if isinstance(recv, Raised):
            return TOP
        if isinstance(recv, FuncV) and name == "__call__":
            return self.call(recv, args, kwargs, node)
        raise Unmodelled(f"method {name} of {recv!r}", node)

    def dict_method(self, d, name, args, kwargs, node):
        if name in ("keys", "values", "items"):
            return getattr(d, name)()
        if name == "get":
            k = args[0]
            if not _hashable(k):
                return TOP
            return d.get(k, args[1] if len(args) > 1 else kwargs.get("default"))
        if name == "pop":
            k = args[0]
            if not _hashable(k):
                raise Unmodelled("pop with unknown key", node)
            if k in d:
                return d.pop(k)
            if len(args) > 1:
                return args[1]
            raise Raised("KeyError", node)
        if name == "popitem":
            if not d:
                raise Raised("KeyError", node)
            return d.popitem()
        if name == "copy":
            return dict(d)
        if name == "update":
            for a in args:
                if isinstance(a, dict):
                    d.update(a)
                else:
                    for k, v in self.iterate(a, node):
                        d[k] = v
            d.update(kwargs)
            return None
        if name == "setdefault":
            k = args[0]
            if not _hashable(k):
                raise Unmodelled("setdefault with unknown key", node)
            return d.setdefault(k, args[1] if len(args) > 1 else None)
        if name == "clear":
            d.clear()
            return None
        if name == "__contains__":
            return args[0] in d
        if name == "__getitem__" and len(args) == 1:
            k = args[0]
            if not _hashable(k):
                raise Unmodelled("lookup with unknown key", node)
            if k not in d:
                raise Raised("KeyError", node)
            return d[k]
        if name == "__len__":
            return len(d)
        raise Unmodelled(f"dict method {name}", node)

    def call_builtin(self, name, args, kwargs, node):
        if any(a is TOP for a in args) and name not in ("isinstance", "print", "repr", "str", "type", "list", "tuple", "set", "frozenset", "dict", "slice", "len", "zip", "enumerate", "hasattr", "getattr", "dict.fromkeys"):
            return TOP
        if name == "dict.fromkeys":
            if args[0] is TOP or isinstance(args[0], Obj):
                return TOP
            keys = self.iterate(args[0], node)
            if not all(_hashable(k) for k in keys):
                raise Unmodelled("dict.fromkeys with unknown keys", node)
            return dict.fromkeys(keys, args[1] if len(args) > 1 else None)
        if name == "len":
            x = args[0]
            if isinstance(x, (list, tuple, dict, set, frozenset, str, _Iter, type({}.keys()), type({}.values()), type({}.items()))):
                return len(x.items) if isinstance(x, _Iter) else len(x)
            if isinstance(x, Obj):
                f = self.method_models.get((x.kind, "__len__"))
                return f(self, x, [], {}, node) if f else TOP
            if isinstance(x, (Sym, Text)):
                self._label(("label-len", x, node))
                return TOP
            return TOP
        if name in ("list", "tuple", "set", "frozenset"):
            if not args:
                return {"list": list, "tuple": tuple, "set": set, "frozenset": frozenset}[name]()
            x = args[0]
            if x is TOP or isinstance(x, Obj):
                return TOP
            items = self.iterate(x, node)
            if name in ("set", "frozenset"):
                if not all(_hashable(i) for i in items):
                    raise Unmodelled("set of unknown values", node)
                return set(items) if name == "set" else frozenset(items)
            return list(items) if name == "list" else tuple(items)
        if name == "dict":
            d = {}
            if args:
                a = args[0]
                if a is TOP:
                    return TOP
                if isinstance(a, dict):
                    d.update(a)
                else:
                    for kv in self.iterate(a, node):
                        k, v = kv
                        d[k] = v
            d.update(kwargs)
            return d
        if name == "slice":
            a = list(args) + [None] * (3 - len(args))
            if len(args) == 1:
                return SliceV(None, a[0], None)
            return SliceV(a[0], a[1], a[2])
        if name == "range":
            if all(isinstance(a, int) and not isinstance(a, bool) for a in args):
                try:
                    return range(*args)
                except ValueError:
                    raise Raised("ValueError", node, "range() arg 3 must not be zero")
                except TypeError:
                    raise Raised("TypeError", node)
            if any(isinstance(a, (list, tuple, dict, set, str, float)) or a is None for a in args):
                raise Raised("TypeError", node, "range() argument cannot be interpreted as an integer")
            return TOP
        if name == "zip":
            seqs = []
            for a in args:
                if a is TOP or isinstance(a, Obj):
                    return TOP
                seqs.append(self.iterate(a, node))
            return _Iter(list(zip(*seqs)))
        if name == "enumerate":
            if args[0] is TOP or isinstance(args[0], Obj):
                return TOP
            return _Iter(list(enumerate(self.iterate(args[0], node), *args[1:])))
        if name == "reversed":
            return _Iter(list(reversed(self.iterate(args[0], node))))
        if name == "sorted" and kwargs.get("key") is not None and len(args) == 1:
            # sorted(xs, key=f): decided when every key is a number / string; ties keep the order of `xs`, so ties among the
            # elements of a *set* make the result depend on the set's iteration order (the hash seed)
            src = args[0]
            from_set = isinstance(src, (set, frozenset))
            n_ev = len(self.events)
            items = self.iterate(src, node)
            if from_set:
                del self.events[n_ev:]  # iterating for a sort is not an order-sensitive use by itself
            keys = [self.call(kwargs["key"], [x], {}, node) for x in items]
            if not all(isinstance(k, (int, float, str)) and not isinstance(k, bool) for k in keys) or len({type(k) is str for k in keys}) > 1:
                return TOP
            if from_set and len(set(keys)) < len(keys):
                self.events.append(("set-order-consumed", "sorted(<set>, key=...) with equal keys: ties keep the set's iteration order", node))
            order = sorted(range(len(items)), key=lambda i: keys[i], reverse=bool(kwargs.get("reverse", False)))
            return [items[i] for i in order]
        if name == "sorted":
            items = self.iterate(args[0], node)
            if any(isinstance(x, (Sym, Text)) for x in items) and len(items) > 1:
                self._label(("label-ordered", items, None, node))
                return TOP
            try:
                return sorted(items)
            except TypeError:
                return TOP
        if name in ("max", "min"):
            items = self.iterate(args[0], node) if len(args) == 1 else list(args)
            if not items:
                if "default" in kwargs:
                    return kwargs["default"]
                raise Raised("ValueError", node)
            return self.extremum(name, items, node)
        if name == "sum":
            tot = args[1] if len(args) > 1 else 0
            for x in self.iterate(args[0], node):
                tot = self.binop(ast.Add(), tot, x, node)
            return tot
        if name == "abs":
            x = args[0]
            if isinstance(x, (int, float)):
                return abs(x)
            return TOP
        if name in ("any", "all"):
            items = self.iterate(args[0], node)
            vals = []
            for x in items:
                if isinstance(x, Obj) and "__bool__" in x.attrs:
                    vals.append(bool(x.attrs["__bool__"]))  # a modelled object that knows its truth value (e.g. a regex match)
                elif x is TOP or isinstance(x, Obj):
                    vals.append(TOP)
                else:
                    vals.append(bool(x) if not isinstance(x, (Sym, Lin)) else True)
            if name == "any":
                if any(v is True for v in vals):
                    return True
                return TOP if any(v is TOP for v in vals) else False
            if any(v is False for v in vals):
                return False
            return TOP if any(v is TOP for v in vals) else True
        if name == "isinstance":
            return self.isinstance(args[0], args[1], node)
        if name == "int":
            x = args[0]
            if isinstance(x, bool):
                return int(x)
            if isinstance(x, (int, float)):
                return int(x)
            if isinstance(x, str):
                try:
                    return int(x)
                except ValueError:
                    raise Raised("ValueError", node)
            return TOP
        if name == "float":
            x = args[0]
            if isinstance(x, (int, float)):
                return float(x)
            return TOP
        if name == "bool":
            x = args[0]
            if x is TOP or isinstance(x, Obj):
                return TOP
            return bool(x)
        if name == "str" or name == "repr":
            x = args[0] if args else ""
            if isinstance(x, Obj) and x.attrs.get("__class__"):
                q = x.attrs["__class__"] + (".__str__" if name == "str" else ".__repr__")
                if q in self.P.functions:
                    return self.call_method(x, "__str__" if name == "str" else "__repr__", [], {}, node)
            if isinstance(x, str):
                return x if name == "str" else repr(x)
            if isinstance(x, Sym):
                return x
            return TOP
        if name == "print":
            return None
        if name == "type" and len(args) == 1:
            # the exact type of a Python constant / container is known; opaque values stay unknown
            v = args[0]
            for t in (bool, int, float, str, bytes, list, tuple, dict, set, frozenset):
                if type(v) is t:
                    return Builtin(t.__name__)
            if v is None:
                return Builtin("NoneType")
            return TOP
        if name == "type":
            return TOP
        if name == "next":
            it = args[0]
            if isinstance(it, _Iter):
                if it.items:
                    return it.items.pop(0)
                if len(args) > 1:
                    return args[1]
                raise Raised("StopIteration", node)
            if isinstance(it, _LazyIter):
                try:
                    return it.pull(node)
                except StopIteration:
                    if len(args) > 1:
                        return args[1]
                    raise Raised("StopIteration", node)
            return TOP
        if name == "iter":
            return _Iter(list(self.iterate(args[0], node)))
        if name == "hasattr":
            return TOP
        if name == "getattr":
            if isinstance(args[1], str):
                if len(args) > 2 and isinstance(args[0], (dict, list, tuple, set, frozenset, str, int, float, type(None))) and not isinstance(args[0], bool) and not hasattr(type(args[0]), args[1]):
                    return args[2]  # a Python container / constant has no such attribute: the default is the answer
                try:
                    return self.getattr(args[0], args[1], node)
                except Raised as r:
                    if len(args) > 2 and r.typ == "AttributeError":
                        return args[2]
                    raise
            return TOP
        if name == "id" or name == "hash":
            return TOP
        if name == "setattr":
            base, attr, v = args[0], args[1], args[2]
            if not isinstance(attr, str):
                raise Unmodelled("setattr with a computed attribute name", node)
            if isinstance(base, Obj):
                base.attrs[attr] = v
                self.events.append(("setattr", base, attr, v, node))
                return None
            if base is TOP:
                self.events.append(("setattr", base, attr, v, node))
                return None
            raise Unmodelled("attribute store", node)
        if name == "map":
            return _Iter([self.call(args[0], [x], {}, node) for x in self.iterate(args[1], node)])
        if name == "filter":
            return _Iter([x for x in self.iterate(args[1], node) if self.truth(self.call(args[0], [x], {}, node), node, None)])
        raise Unmodelled(f"builtin {name}", node)

    def extremum(self, name, items, node):
        best = items[0]
        for x in items[1:]:
            c = self.compare(ast.Gt() if name == "max" else ast.Lt(), x, best, node)
            if c is TOP:
                return MaxMin(name, items)
            if c:
                best = x
        return best

    def isinstance(self, v, t, node):
        names = []
        for x in (t if isinstance(t, tuple) else (t,)):
            if isinstance(x, Builtin):
                names.append(x.name)
            elif isinstance(x, ExtRef):
                names.append(x.path.split(".")[-1])
            elif isinstance(x, ClassRef):
                names.append(x.q.split(":")[-1])
            else:
                names.append("?")
        if v is TOP:
            return TOP
        kinds = set()
        if isinstance(v, bool):
            kinds = {"bool", "int", "Integral", "Rational", "Real", "Complex", "Number"}
        elif isinstance(v, int) or isinstance(v, Lin):
            kinds = {"int", "Integral", "Rational", "Real", "Complex", "Number"}
        elif isinstance(v, float):
            kinds = {"float", "Real", "Complex", "Number"}
        elif isinstance(v, (str, Sym, Text)):
            kinds = {"str"}
        elif isinstance(v, dict):
            kinds = {"dict", "Mapping", "OrderedDict"} if False else {"dict", "Mapping"}
        elif isinstance(v, list):
            kinds = {"list", "Sequence", "Iterable"}
        elif isinstance(v, tuple):
            kinds = {"tuple", "Sequence", "Iterable"}
        elif isinstance(v, (set, frozenset)):
            kinds = {"set" if isinstance(v, set) else "frozenset", "Iterable"}
        elif v is None:
            kinds = {"NoneType"}
        elif isinstance(v, Obj):
            kinds = set(v.attrs.get("__isinstance__", (v.kind,)))
            if v.attrs.get("__class__"):
                kinds.add(v.attrs["__class__"].split(":")[-1])
        elif isinstance(v, SliceV):
            kinds = {"slice"}
        else:
            return TOP
        return any(n in kinds for n in names)


class MaxMin:
    """max/min of values whose order is not decided."""

    def __init__(self, op, items):
        self.op = op
        self.items = tuple(items)

    def __eq__(self, o):
        return isinstance(o, MaxMin) and o.op == self.op and set(map(repr, o.items)) == set(map(repr, self.items))

    def __hash__(self):
        return hash((self.op, tuple(sorted(map(repr, self.items)))))

    def __repr__(self):
        return f"{self.op}{self.items}"


class Text:
    """A string built from constant parts and opaque labels."""

    def __init__(self, parts):
        self.parts = list(parts)

    def __eq__(self, o):
        return isinstance(o, Text) and o.parts == self.parts

    def __hash__(self):
        return hash(tuple(map(repr, self.parts)))

    def __repr__(self):
        return "Text(" + "".join(p if isinstance(p, str) else repr(p) for p in self.parts) + ")"


class _Iter:
    def __init__(self, items):
        self.items = list(items)


class _LazyIter:
    """An iterator that may be infinite (itertools.count and generator expressions over it): elements on demand."""

    LIMIT = 256

    def __init__(self, gen):
        self.gen = gen
        self.pulled = 0

    def pull(self, node):
        self.pulled += 1
        if self.pulled > self.LIMIT:
            raise Unmodelled(f"more than {self.LIMIT} elements drawn from an unbounded iterator", node)
        return next(self.gen)


class Env:
    def __init__(self, vars, parent, module):
        self.vars = dict(vars)
        self.parent = parent
        self.module = module

    def __contains__(self, k):
        e = self
        while e is not None:
            if k in e.vars:
                return True
            e = e.parent
        return False

    def get(self, k):
        e = self
        while e is not None:
            if k in e.vars:
                return e.vars[k]
            e = e.parent
        raise KeyError(k)

    def set(self, k, v):
        self.vars[k] = v


BUILTINS = {
    "len", "list", "tuple", "dict", "set", "frozenset", "slice", "range", "zip", "enumerate", "reversed", "sorted", "max", "min",
    "sum", "abs", "any", "all", "isinstance", "int", "float", "bool", "str", "repr", "print", "type", "next", "iter", "hasattr",
    "getattr", "setattr", "id", "hash", "map", "filter",
}


def _hashable(k):
    if k is TOP or isinstance(k, (Obj, list, dict, set, _Iter)):
        return False
    if isinstance(k, tuple):
        return all(_hashable(x) for x in k)
    return True


def _has_top(v):
    """TOP anywhere inside a container (opaque objects are fine)."""
    if v is TOP:
        return True
    if isinstance(v, (list, tuple, set, frozenset)):
        return any(_has_top(x) for x in v)
    if isinstance(v, dict):
        return any(_has_top(x) for x in v.values()) or any(_has_top(k) for k in v)
    return False


def _contains_top(v):
    if v is TOP or isinstance(v, Obj):
        return True
    if isinstance(v, (list, tuple)):
        return any(_contains_top(x) for x in v)
    if isinstance(v, dict):
        return any(_contains_top(x) for x in v.values())
    return False


def _eq(a, b):
    if a is TOP or b is TOP:
        return False
    try:
        return a == b
    except Exception:
        return False


def _parts(x):
    if isinstance(x, Text):
        return list(x.parts)
    return [x]


def _lift(v):
    """Module constants folded by the loader are plain Python values already."""
    return v


def _as_load(t):
    import copy

    n = copy.deepcopy(t)
    for x in ast.walk(n):
        if hasattr(x, "ctx"):
            x.ctx = ast.Load()
    return n


_GEN_CACHE = {}


def _is_generator(fn):
    k = id(fn)
    if k not in _GEN_CACHE:
        _GEN_CACHE[k] = (fn, _is_generator_uncached(fn))
    return _GEN_CACHE[k][1]


def _is_generator_uncached(fn):
    stack = list(fn.body)
    while stack:
        n = stack.pop()
        if isinstance(n, (ast.Yield, ast.YieldFrom)):
            return True
        if isinstance(n, (ast.FunctionDef, ast.AsyncFunctionDef, ast.Lambda, ast.ClassDef)):
            continue
        stack.extend(ast.iter_child_nodes(n))
    return False


# ---------------------------------------------------------------------------------- xarray call spellings
XR_MAPPING_PARAM = {"isel": "indexers", "sel": "indexers", "rename": "new_name_or_name_dict", "pad": "pad_width", "assign_coords": "coords", "chunk": "chunks",
                    "expand_dims": "dim", "rename_dims": "dims_dict", "rename_vars": "name_dict", "swap_dims": "dims_dict", "roll": "shifts", "shift": "shifts"}
XR_OWN_KEYWORDS = {"isel": {"drop", "missing_dims"}, "sel": {"method", "tolerance", "drop"}, "rename": set(),
                   "pad": {"mode", "stat_length", "constant_values", "end_values", "reflect_type", "keep_attrs"}, "assign_coords": set(),
                   "chunk": {"name_prefix", "token", "lock", "inline_array", "chunked_array_type", "from_array_kwargs"}, "expand_dims": {"axis", "create_index_for_new_dim"},
                   "roll": {"roll_coords"}, "shift": {"fill_value"}}


def xr_mapping_arg(method: str, args, kwargs):
    """The {name: value} argument of an xarray method, whether it is given positionally, under its own keyword
    (isel(indexers=...), rename(new_name_or_name_dict=...), pad(pad_width=...)) or as **kwargs named after the dimensions."""
    kwargs = dict(kwargs)
    pname = XR_MAPPING_PARAM.get(method)
    if args and isinstance(args[0], dict):
        return dict(args[0])
    if pname and isinstance(kwargs.get(pname), dict):
        return dict(kwargs[pname])
    if args:
        return None
    own = XR_OWN_KEYWORDS.get(method, set()) | ({pname} if pname else set())
    rest = {k: v for k, v in kwargs.items() if k not in own}
    return rest or None
