"""Geometric position model: the independent oracle for every table check.

From doc/grids.rst ("Axes and Positions"): along an axis of N cells, point i of each position
sits at   center: i+1/2 (N points)   left: i (N)   right: i+1 (N)   outer: i (N+1)   inner: i+1 (N-1).
Everything below is *computed* from this model by enumeration for several N (the results must not
depend on N); nothing is copied from the code under analysis.
"""
from __future__ import annotations

from fractions import Fraction as F
from typing import Dict, List, Optional, Tuple

POSITIONS = ["center", "left", "right", "inner", "outer"]
FACES = ["left", "right", "inner", "outer"]
SHIFTS = [("center", p) for p in FACES] + [(p, "center") for p in FACES]
import os as _os

# cell counts on which every table is enumerated (the thorough tier widens the range)
NS = tuple(range(2, 12)) if _os.environ.get("SA_THOROUGH") else (2, 3, 4, 5, 6)


def points(pos: str, N: int) -> List[F]:
    return {
        "center": [F(2 * i + 1, 2) for i in range(N)],
        "left": [F(i) for i in range(N)],
        "right": [F(i + 1) for i in range(N)],
        "outer": [F(i) for i in range(N + 1)],
        "inner": [F(i + 1) for i in range(N - 1)],
    }[pos]


def length(pos: str, N: int) -> int:
    return len(points(pos, N))


def length_changing_positions() -> List[str]:
    """Positions whose number of points differs from the number of cells."""
    out = []
    for p in POSITIONS:
        if any(length(p, N) != N for N in NS):
            out.append(p)
    return sorted(out)


def valid_shift(fr: str, to: str) -> bool:
    return (fr, to) in SHIFTS


def cell(j: int, n: int):
    """Name of source sample j of an array of length n: in range -> ('x', j); below -> ('lo', depth); above -> ('hi', depth)."""
    if j < 0:
        return ("lo", -j)
    if j >= n:
        return ("hi", j - n + 1)
    return ("x", j)


def neighbours(fr: str, to: str, N: int) -> List[Tuple[tuple, tuple]]:
    """For every target point: (lower neighbour, upper neighbour) among the source points, as cell names.

    Neighbours beyond the array ends are the boundary cells ('lo', 1) / ('hi', 1): the value one
    step outside, which the boundary rule supplies."""
    s, t = points(fr, N), points(to, N)
    n = len(s)
    out = []
    for y in t:
        below = [i for i, x in enumerate(s) if x < y]
        above = [i for i, x in enumerate(s) if x > y]
        lo = max(below) if below else -1
        hi = min(above) if above else n
        assert hi == lo + 1, "adjacent sources"
        out.append((cell(lo, n), cell(hi, n)))
    return out


def two_point_width(fr: str, to: str) -> Tuple[int, int]:
    """(lower, upper) pad width needed so that every neighbour exists."""
    res = set()
    for N in NS:
        nb = neighbours(fr, to, N)
        lo = max((c[1] for pair in nb for c in pair if c[0] == "lo"), default=0)
        hi = max((c[1] for pair in nb for c in pair if c[0] == "hi"), default=0)
        res.add((lo, hi))
    assert len(res) == 1
    return res.pop()


def running_sum_spec(fr: str, to: str, N: int) -> List[object]:
    """For every target point: the set of source indices strictly before it, or 'B' when there is none
    (the value is then supplied by the boundary rule)."""
    s, t = points(fr, N), points(to, N)
    out = []
    for y in t:
        before = frozenset(i for i, x in enumerate(s) if x < y)
        out.append(before if before else "B")
    return out


# ---------------------------------------------------------------------------------- conventions
def comodo_position(length_minus_n: int, shift: Optional[F]) -> Optional[str]:
    """Position of a COMODO coordinate from its length relative to the centre coordinate and its
    c_grid_axis_shift (None = no shift attribute).  None = not a valid coordinate."""
    for pos in POSITIONS:
        ok = True
        for N in NS:
            p = points(pos, N)
            c = points("center", N)
            if len(p) - N != length_minus_n:
                ok = False
                break
            if len(p) == N:
                d = p[0] - c[0]
                if (shift is None and d != 0) or (shift is not None and d != shift):
                    ok = False
                    break
            # for length-changing coordinates the shift attribute does not select the position
        if ok:
            return pos
    return None


def sgrid_position(padding: str) -> str:
    """SGRID: `cell: node (padding: type)`.  The *cell* dimension is padded relative to the node
    dimension: both -> cells = nodes+1, none -> cells = nodes-1, low -> an extra cell below the first
    node, high -> an extra cell above the last node.  Return the xgcm position of the node dimension."""
    res = set()
    for N in NS:  # N cells
        c = points("center", N)
        cands = []
        for pos in FACES:
            p = points(pos, N)
            if padding == "both":
                ok = len(p) == N - 1 and all(c[i] < p[i] < c[i + 1] for i in range(len(p)))
            elif padding == "none":
                ok = len(p) == N + 1 and all(p[i] < c[i] < p[i + 1] for i in range(N))
            elif padding == "low":  # one more cell on the low side: every node has a cell below it, the last node has none above
                ok = len(p) == N and all(c[i] < p[i] for i in range(N)) and p[-1] > c[-1]
            elif padding == "high":
                ok = len(p) == N and all(p[i] < c[i] for i in range(N)) and p[0] < c[0]
            else:
                ok = False
            if ok:
                cands.append(pos)
        res.add(tuple(cands))
    assert len(res) == 1 and len(next(iter(res))) == 1, res
    return next(iter(res))[0]


# ---------------------------------------------------------------------------------- face links
def link_orientation(swapped: bool, reversed_: bool) -> Dict[str, object]:
    """Orientation map of (x = padded axis, y = along-edge axis) of the target face into the neighbour.

    same/normal  x->+x  y->+y        same/reversed  x->-x  y->+y   (reflection)
    swap/normal  x->+y' y->-x'       swap/reversed  x->-y' y->+x'  (rotations)"""
    if not swapped:
        xs, ys = (-1 if reversed_ else 1), 1
    else:
        xs, ys = (-1 if reversed_ else 1), (1 if reversed_ else -1)
    return {"x_sign": xs, "y_sign": ys, "swapped": swapped}


def link_table(is_right: bool, swapped: bool, reversed_: bool) -> Dict[str, object]:
    """What a halo of width w on side `is_right` of the target must be, for one link kind.

    linked edge of the neighbour: the side opposite to the target side unless reversed;
    source cells: the w interior cells adjacent to that edge, i.e. in coordinates of the neighbour
    pre-padded by w on both sides: [w, 2w) at its low edge, [-2w, -w) at its high edge;
    orthogonal flip (depth order) iff the x-map is negative; tangential flip (along-edge order) iff
    the y-map is negative; vector: partner component iff swapped; sign of the component parallel to
    the padded axis = x_sign, of the tangential one = y_sign."""
    o = link_orientation(swapped, reversed_)
    neighbour_high_edge = (not is_right) != reversed_  # target left side meets neighbour's high edge unless reversed
    return {
        "source_edge": "high" if neighbour_high_edge else "low",
        "ortho_flip": o["x_sign"] < 0,
        "tang_flip": o["y_sign"] < 0,
        "partner": swapped,
        "sign_parallel": o["x_sign"],
        "sign_tangential": o["y_sign"],
        "concat_source_last": is_right,
    }


def reciprocal_side(side: int, reversed_: bool) -> int:
    """Side (0 = left, 1 = right) of the neighbour's table on which the back-link of a link leaving
    through `side` must sit: the opposite side, or the same side when the link is reversed."""
    return side if reversed_ else 1 - side
