# Positive fixture for rule T2 (never imported or executed): every function consumes set order.
import itertools


def a(xs):
    return list(set(xs))[0]


def b(xs, ys):
    out = []
    for x, y in zip(set(xs), set(ys)):
        out.append((x, y))
    return out


def c(xs):
    s = frozenset(xs)
    return [p for p in itertools.combinations(s, 2)][0]


def d(xs):
    s = set(xs)
    return s.pop()


def e(xs):
    first, second = set(xs)
    return first


def f(xs):
    for x in set(xs):
        if x:
            return x
