# Positive fixture for rule R06.1 (must be matched on every run; it is never imported or executed).
def op(da):
    first = da.values[0]
    total = float(da.sum())
    loaded = da.load()
    arr = np.asarray(da)
    return da.compute()
