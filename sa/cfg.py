"""Statement-level control-flow graph with dominators, for the path rules.

One node per simple statement and one per branch test / loop header.  ``raise`` goes to RAISE,
``return`` to EXIT.  Statements inside a ``try`` body get an edge to each handler (any of them may
raise).  Nested function bodies are separate graphs.
"""
from __future__ import annotations

import ast
from typing import Dict, List, Set


class CFG:
    def __init__(self, fn: ast.AST):
        self.fn = fn
        self.succ: Dict[int, Set[int]] = {}
        self.nodes: Dict[int, object] = {}
        self.kind: Dict[int, str] = {}
        self.n = 0
        self.entry = self._new("ENTRY", "entry")
        self.exit = self._new("EXIT", "exit")
        self.raise_exit = self._new("RAISE", "raise-exit")
        self.branch: Dict[int, Dict[str, object]] = {}  # test node -> {"true": successors, "false": successors | None}
        self._handlers: List[List[int]] = []
        body = fn.body if not isinstance(fn, ast.Lambda) else [ast.Return(value=fn.body)]
        ends = self._seq(body, [self.entry], None, None)
        for e in ends:
            self._edge(e, self.exit)
        self._dom = None
        self._pdom = None

    def _new(self, st, kind="stmt"):
        i = self.n
        self.n += 1
        self.nodes[i] = st
        self.kind[i] = kind
        self.succ[i] = set()
        return i

    def _edge(self, a, b):
        self.succ[a].add(b)

    def _seq(self, stmts, preds, brk, cont):
        for st in stmts:
            preds = self._stmt(st, preds, brk, cont)
        return preds

    def _link(self, preds, n):
        for p in preds:
            self._edge(p, n)
        for hs in self._handlers:  # inside try bodies every node may jump to the handlers
            for h in hs:
                self._edge(n, h)

    def _stmt(self, st, preds, brk, cont):
        if isinstance(st, ast.If):
            t = self._new(st.test, "test")
            self._link(preds, t)
            before = set(self.succ[t])
            a = self._seq(st.body, [t], brk, cont)
            mid = set(self.succ[t])
            b = self._seq(st.orelse, [t], brk, cont) if st.orelse else [t]
            after = set(self.succ[t])
            # successors taken when the test is true / false (None: the fall-through, i.e. every other successor)
            self.branch[t] = {"true": mid - before, "false": (after - mid) if st.orelse else None}
            return a + b
        if isinstance(st, (ast.For, ast.While)):
            h = self._new(st, "loop")
            self._link(preds, h)
            breaks: List[int] = []
            body_end = self._seq(st.body, [h], breaks, h)
            for e in body_end:
                self._edge(e, h)
            out = [h] if not (isinstance(st, ast.While) and isinstance(st.test, ast.Constant) and st.test.value is True) else []
            if st.orelse:
                out = self._seq(st.orelse, out, brk, cont)
            return out + breaks
        if isinstance(st, ast.Try):
            hnodes = [self._new(h, "handler") for h in st.handlers]
            for p in preds:
                for hn in hnodes:
                    self._edge(p, hn)
            self._handlers.append(hnodes)
            body_end = self._seq(st.body, preds, brk, cont)
            self._handlers.pop()
            outs = list(body_end)
            if st.orelse:
                outs = self._seq(st.orelse, body_end, brk, cont)
            for h, hn in zip(st.handlers, hnodes):
                outs += self._seq(h.body, [hn], brk, cont)
            if st.finalbody:
                outs = self._seq(st.finalbody, outs, brk, cont)
            return outs
        if isinstance(st, ast.With):
            n = self._new(st, "with")
            self._link(preds, n)
            return self._seq(st.body, [n], brk, cont)
        if isinstance(st, ast.Match):
            t = self._new(st.subject, "test")
            self._link(preds, t)
            outs = []
            for c in st.cases:
                outs += self._seq(c.body, [t], brk, cont)
            return outs + [t]
        n = self._new(st)
        self._link(preds, n)
        if isinstance(st, ast.Return):
            self._edge(n, self.exit)
            return []
        if isinstance(st, ast.Raise):
            if self._handlers:
                pass  # already linked to handlers
            self._edge(n, self.raise_exit)
            return []
        if isinstance(st, ast.Break):
            if brk is not None:
                brk.append(n)
            return []
        if isinstance(st, ast.Continue):
            if cont is not None:
                self._edge(n, cont)
            return []
        return [n]

    # ------------------------------------------------------------------
    def preds(self):
        pred = {n: set() for n in self.nodes}
        for a, bs in self.succ.items():
            for b in bs:
                pred[b].add(a)
        return pred

    def dominators(self) -> Dict[int, Set[int]]:
        if self._dom is None:
            self._dom = self._solve(self.entry, self.preds())
        return self._dom

    def _solve(self, entry, pred):
        nodes = list(self.nodes)
        reach = self._reach(entry, pred)
        dom = {n: set(nodes) for n in nodes}
        dom[entry] = {entry}
        ch = True
        while ch:
            ch = False
            for n in nodes:
                if n == entry or n not in reach:
                    continue
                ps = [dom[p] for p in pred[n] if p in reach]
                new = ({n} | set.intersection(*ps)) if ps else {n}
                if new != dom[n]:
                    dom[n] = new
                    ch = True
        return dom

    def _reach(self, entry, pred):
        succ = {n: set() for n in self.nodes}
        for b, ps in pred.items():
            for a in ps:
                succ[a].add(b)
        seen = {entry}
        st = [entry]
        while st:
            q = st.pop()
            for r in succ[q]:
                if r not in seen:
                    seen.add(r)
                    st.append(r)
        return seen

    def reachable(self) -> Set[int]:
        return self._reach(self.entry, self.preds())

    def node_of(self, stmt) -> int:
        for i, st in self.nodes.items():
            if st is stmt:
                return i
        # a statement nested in an expression statement: find the enclosing node
        for i, st in self.nodes.items():
            if isinstance(st, ast.AST):
                for sub in ast.walk(st):
                    if sub is stmt:
                        return i
        raise KeyError(stmt)

    def nodes_containing(self, pred_fn) -> List[int]:
        """CFG nodes whose own expression(s) contain an AST node satisfying pred_fn (not descending into bodies)."""
        out = []
        for i, st in self.nodes.items():
            if not isinstance(st, ast.AST):
                continue
            for sub in _own_exprs(st):
                if any(pred_fn(x) for x in ast.walk(sub)):
                    out.append(i)
                    break
        return out

    def returns(self) -> List[int]:
        return [i for i, st in self.nodes.items() if isinstance(st, ast.Return)]

    def dominated_by_any(self, node: int, guards) -> bool:
        d = self.dominators()[node]
        return any(g in d for g in guards)

    def path_avoiding(self, target: int, avoid: Set[int]) -> List[int]:
        """A path entry -> target that avoids all nodes of `avoid` (empty list if none)."""
        prev = {self.entry: None}
        st = [self.entry]
        if self.entry in avoid:
            return []
        while st:
            q = st.pop(0)
            if q == target:
                out = []
                while q is not None:
                    out.append(q)
                    q = prev[q]
                return out[::-1]
            for r in sorted(self.succ[q]):
                if r not in prev and r not in avoid:
                    prev[r] = q
                    st.append(r)
        return []

    def describe(self, i: int) -> str:
        st = self.nodes[i]
        if isinstance(st, str):
            return st
        from .core import norm

        head = st
        if isinstance(st, (ast.For,)):
            return f"L{st.lineno}: for {norm(st.target)} in {norm(st.iter, 60)}"
        if isinstance(st, ast.While):
            return f"L{st.lineno}: while {norm(st.test, 60)}"
        if isinstance(st, ast.ExceptHandler):
            return f"L{st.lineno}: except {norm(st.type) if st.type else ''}"
        if isinstance(st, ast.With):
            return f"L{st.lineno}: with ..."
        return f"L{getattr(head, 'lineno', '?')}: {norm(head, 70)}"


def _own_exprs(st):
    if isinstance(st, ast.expr):
        return [st]
    if isinstance(st, ast.For):
        return [st.target, st.iter]
    if isinstance(st, ast.While):
        return [st.test]
    if isinstance(st, ast.With):
        return [i.context_expr for i in st.items]
    if isinstance(st, ast.ExceptHandler):
        return [st.type] if st.type else []
    if isinstance(st, ast.stmt):
        return [st]
    return []


def polarity(test: ast.AST, name: str) -> int:
    """+1 if `test` is true exactly when the variable `name` is truthy, -1 if exactly when it is falsy, 0 if unknown."""
    if isinstance(test, ast.Name) and test.id == name:
        return 1
    if isinstance(test, ast.UnaryOp) and isinstance(test.op, ast.Not):
        return -polarity(test.operand, name)
    if isinstance(test, ast.Compare) and len(test.ops) == 1 and isinstance(test.left, ast.Name) and test.left.id == name and isinstance(test.comparators[0], ast.Constant):
        c = test.comparators[0].value
        if c is True or c is False:
            if isinstance(test.ops[0], (ast.Is, ast.Eq)):
                return 1 if c is True else -1
            if isinstance(test.ops[0], (ast.IsNot, ast.NotEq)):
                return -1 if c is True else 1
    if isinstance(test, ast.Call) and isinstance(test.func, ast.Name) and test.func.id == "bool" and len(test.args) == 1 and not test.keywords:
        return polarity(test.args[0], name)
    return 0


def reaches_under(cfg: "CFG", a: int, b: int, avoid, name: str, value: bool) -> bool:
    """Is there a path a -> b (not through `avoid`) on which every `if` that tests the never-reassigned boolean
    variable `name` takes the branch consistent with name == value?"""
    seen = {a}
    st = [a]
    while st:
        q = st.pop()
        succ = cfg.succ[q]
        if cfg.kind.get(q) == "test" and q in cfg.branch:
            pol = polarity(cfg.nodes[q], name)
            if pol:
                taken = (pol == 1) == value
                br = cfg.branch[q]
                if taken:
                    succ = br["true"]
                else:
                    succ = br["false"] if br["false"] is not None else (cfg.succ[q] - br["true"])
        for r in succ:
            if r == b:
                return True
            if r not in seen and r not in avoid:
                seen.add(r)
                st.append(r)
    return False
