"""Evaluation of a numpy lineage (as recorded by absint.Obj) on one representative 1-D vector per order class.

Used where the source tests a *class* of inputs (strictly increasing / strictly decreasing / neither) through some
spelling of all(np.diff(x) > 0): instead of recognising the spelling, the recorded expression is evaluated on a
representative of each class; every member of a class gives the same truth value for comparisons between neighbours,
so the fork is decided per class and no condition text is ever matched."""
from __future__ import annotations

from .absint import TOP, Obj, SliceV, Unmodelled

# several vectors per class: large, small (< 1) and negative steps, so that a test against another threshold than 0
# (a constant off by one) does not happen to give the right answer
REPRESENTATIVES_ALL = {
    "increasing": [[1.0, 2.0, 4.0, 7.0], [0.1, 0.2, 0.4, 0.7], [-7.0, -4.0, -2.0, -1.5]],
    "decreasing": [[7.0, 4.0, 2.0, 1.0], [0.7, 0.4, 0.2, 0.1], [-1.5, -2.0, -4.0, -7.0]],
    "neither": [[1.0, 4.0, 2.0, 7.0], [0.1, 0.4, 0.2, 0.7], [4.0, 1.0, 7.0, 2.0], [-1.0, -4.0, -2.0, -7.0]],
    # an edge that is not a number compares false with everything: such bins have no order at all
    "unordered": [[1.0, float("nan"), 4.0, 7.0], [7.0, 4.0, float("nan"), 1.0], [float("nan"), 1.0, 2.0, 4.0], [7.0, 4.0, 2.0, float("nan")]],
}
REPRESENTATIVES = {k: v[0] for k, v in REPRESENTATIVES_ALL.items()}

_CMP = {"lt": lambda a, b: a < b, "gt": lambda a, b: a > b, "lte": lambda a, b: a <= b, "gte": lambda a, b: a >= b,
        "le": lambda a, b: a <= b, "ge": lambda a, b: a >= b, "eq": lambda a, b: a == b, "noteq": lambda a, b: a != b, "ne": lambda a, b: a != b}
_ARI = {"add": lambda a, b: a + b, "sub": lambda a, b: a - b, "mult": lambda a, b: a * b, "radd": lambda a, b: b + a, "rsub": lambda a, b: b - a, "rmult": lambda a, b: b * a}


def _slice(seq, s):
    if isinstance(s, list) and all(isinstance(x, bool) for x in s):
        if len(s) != len(seq):
            raise Unmodelled("boolean mask of another length")
        return [x for x, keep in zip(seq, s) if keep]
    if isinstance(s, tuple):
        if len(s) == 2 and s[0] is Ellipsis:
            s = s[1]
        else:
            raise Unmodelled(f"subscript {s!r} on a 1-D vector")
    if isinstance(s, SliceV):
        if not all(x is None or isinstance(x, int) for x in (s.lo, s.hi, s.step)):
            raise Unmodelled(f"non-constant slice {s!r}")
        return seq[slice(s.lo, s.hi, s.step)]
    if isinstance(s, int):
        return seq[s]
    raise Unmodelled(f"subscript {s!r}")


def _zipop(f, a, b):
    if isinstance(a, list) and isinstance(b, list):
        if len(a) != len(b):
            raise Unmodelled("operands of different length")
        return [f(x, y) for x, y in zip(a, b)]
    if isinstance(a, list):
        return [f(x, b) for x in a]
    if isinstance(b, list):
        return [f(a, y) for y in b]
    return f(a, b)


def value(v, env):
    """env: {base array name: list of floats}."""
    if isinstance(v, (int, float, bool)):
        return v
    if isinstance(v, (list, tuple)):
        return [value(x, env) for x in v]
    if not isinstance(v, Obj):
        raise Unmodelled(f"value {v!r} in a monotonicity test")
    if v.kind == "ext":
        fn = v.name.split(".")[-1]
        call = v.eff[0]
        kw = dict(call[2])
        if fn in ("broadcast_to", "reshape", "full_like", "empty_like", "zeros_like"):
            args = [value(call[1][0], env)]  # the shape argument is immaterial for a single column
        else:
            args = [value(a, env) for a in call[1]]
        if fn in ("broadcast_to",):
            cur = args[0]
        elif fn == "argsort":
            s = args[0]
            cur = sorted(range(len(s)), key=lambda i: s[i])  # stable, like kind='stable' (ties keep their order)
        elif fn == "sort":
            cur = sorted(args[0])
        elif fn in ("take_along_axis", "take"):
            cur = [args[0][i] for i in args[1]]
        elif fn == "log":
            import math

            cur = [math.log(x) for x in args[0]] if isinstance(args[0], list) else math.log(args[0])
        elif fn == "arange":
            cur = list(range(int(args[0])))
        elif fn == "diff":
            s = args[0]
            cur = [b - a for a, b in zip(s[:-1], s[1:])]
        elif fn in ("all", "alltrue"):
            cur = all(args[0])
        elif fn == "any":
            cur = any(args[0])
        elif fn in ("asarray", "array", "atleast_1d", "ravel", "asanyarray", "ascontiguousarray", "copy"):
            cur = args[0]
        elif fn in ("sign",):
            cur = [(x > 0) - (x < 0) for x in args[0]]
        elif fn in ("flip",):
            cur = list(reversed(args[0]))
        elif fn == "isnan":
            cur = [x != x for x in args[0]] if isinstance(args[0], list) else args[0] != args[0]
        elif fn in ("nanmax", "max", "amax"):
            cur = max(x for x in args[0] if x == x)
        elif fn in ("nanmin", "min", "amin"):
            cur = min(x for x in args[0] if x == x)
        else:
            raise Unmodelled(f"numpy function {v.name} in a monotonicity test")
        effs = v.eff[1:]
    elif v.name in env:
        cur = list(env[v.name])
        effs = v.eff
    else:
        raise Unmodelled(f"array {v.name!r} in a monotonicity test")
    for e in effs:
        op = e[0]
        if op == "getitem":
            k = e[1]
            if isinstance(k, tuple) and len(k) == 2 and k[0] is Ellipsis and isinstance(k[1], Obj):
                k = k[1]
            if isinstance(k, Obj):
                k = value(k, env)
                if isinstance(k, list) and k and all(isinstance(i, int) and not isinstance(i, bool) for i in k):
                    cur = [cur[i] for i in k]  # integer-array indexing
                    continue
            cur = _slice(cur, k)
        elif op in ("copy", "astype-same"):
            pass
        elif op == "invert":
            cur = [not x for x in cur] if isinstance(cur, list) else (not cur)
        elif op in _CMP:
            cur = _zipop(_CMP[op], cur, value(e[1], env))
        elif op in _ARI:
            cur = _zipop(_ARI[op], cur, value(e[1], env))
        elif op == "neg":
            cur = [-x for x in cur] if isinstance(cur, list) else -cur
        elif op == "call" and False:
            pass
        else:
            raise Unmodelled(f"operation {op} in a monotonicity test")
    return cur


def truth_hook(env):
    """call_hook deciding all()/any() of a recorded array expression on the representative vectors in env."""
    from .absint import Builtin, BoundMethod, ExtRef

    def hook(ev, f, args, kw, node):
        try:
            return _hook(ev, f, args, kw, node)
        except Unmodelled:
            return NotImplemented  # not an expression over the representative arrays: the interpreter treats it as unknown

    def _hook(ev, f, args, kw, node):
        if isinstance(f, ExtRef) and f.path in ("numpy.all", "numpy.any", "numpy.alltrue", "numpy.sometrue") and len(args) == 1 and not kw and isinstance(args[0], Obj):
            r = value(args[0], env)
            return (all if f.path in ("numpy.all", "numpy.alltrue") else any)(r if isinstance(r, list) else [r])
        if isinstance(f, Builtin) and f.name in ("all", "any") and args and isinstance(args[0], Obj):
            r = value(args[0], env)
            return (all if f.name == "all" else any)(r if isinstance(r, list) else [r])
        if isinstance(f, BoundMethod) and f.name in ("all", "any") and isinstance(f.recv, Obj) and not args:
            r = value(f.recv, env)
            return (all if f.name == "all" else any)(r if isinstance(r, list) else [r])
        return NotImplemented

    return hook


def cond_hook(env):
    """cond_hook deciding the truth of a recorded array expression on the representative vectors in env (None = cannot)."""

    def hook(ev, node, v, scope):
        if not isinstance(v, Obj):
            return None
        try:
            r = value(v, env)
        except (Unmodelled, ValueError, IndexError, TypeError):
            return None
        if isinstance(r, list):
            return None  # the truth of an array is not a Python bool
        return bool(r)

    return hook
